/*
 * faultinj.so - LD_PRELOAD fault-injection shim for property C22
 * (DESIGN.md section 2.1, engine E4).
 *
 * Rust's std::fs reaches the kernel through libc's write / open64 / unlink /
 * rename / mkdir (checked with `nm -D` on the built CLI), which the dynamic
 * linker lets this library interpose.
 *
 *   FAULT_BYTES=k   count the bytes written to *regular files* (fstat on the
 *                   descriptor; descriptors 0-2 are never counted). The write
 *                   that would take the total above k is shortened to the
 *                   bytes that still fit (possibly none), then the process is
 *                   killed with SIGKILL: a byte-exact crash across all files
 *                   written by the process together.
 *   FAULT_MODE=error with FAULT_BYTES: do not kill; the shortened write
 *                   returns its short count (or -1/ENOSPC when nothing fits)
 *                   and every later write to a regular file fails with ENOSPC
 *                   ("a write failing at byte k", e.g. a full disk).
 *   FAULT_OP=K      SIGKILL immediately before the K-th (1-based) mutating
 *                   file-system operation among: unlink, open with O_CREAT,
 *                   write to a regular file, rename, mkdir (and their *at
 *                   variants, link, symlink, truncate).
 *   FAULT_TRACE=f   append one line per counted operation to file f
 *                   ("<op#> <kind> <bytes-before> <detail>"), written with raw
 *                   syscalls so that the trace itself is never counted.
 *
 * Without any of these variables the shim is transparent.
 */
#define _GNU_SOURCE
#include <dlfcn.h>
#include <errno.h>
#include <fcntl.h>
#include <signal.h>
#include <stdarg.h>
#include <stdio.h>
#include <stdlib.h>
#include <string.h>
#include <sys/stat.h>
#include <sys/syscall.h>
#include <sys/types.h>
#include <sys/uio.h>
#include <unistd.h>

static long long fault_bytes = -1;
static long long fault_op = -1;
static int mode_error = 0;
static int trace_fd = -1;
static long long bytes_total = 0;
static long long op_count = 0;
static int disk_full = 0;
static int inited = 0;

static void init(void) {
    if (inited) return;
    inited = 1;
    const char *s;
    if ((s = getenv("FAULT_BYTES")) && *s) fault_bytes = atoll(s);
    if ((s = getenv("FAULT_OP")) && *s) fault_op = atoll(s);
    if ((s = getenv("FAULT_MODE")) && strcmp(s, "error") == 0) mode_error = 1;
    if ((s = getenv("FAULT_TRACE")) && *s) {
        int fd = (int)syscall(SYS_openat, AT_FDCWD, s, O_WRONLY | O_CREAT | O_APPEND | O_CLOEXEC, 0644);
        if (fd >= 0) {
            /* move it out of the way of the descriptors the program will get */
            int hi = (int)syscall(SYS_fcntl, fd, F_DUPFD_CLOEXEC, 200);
            if (hi >= 0) {
                syscall(SYS_close, fd);
                fd = hi;
            }
            trace_fd = fd;
        }
    }
}

__attribute__((constructor)) static void ctor(void) { init(); }

static void die(void) {
    syscall(SYS_kill, (pid_t)syscall(SYS_getpid), SIGKILL);
    for (;;) syscall(SYS_pause);
}

static void trace(const char *kind, const char *detail) {
    if (trace_fd < 0) return;
    char buf[600];
    int n = snprintf(buf, sizeof buf, "%lld %s %lld %s\n", op_count, kind, bytes_total, detail ? detail : "");
    if (n > (int)sizeof buf) n = sizeof buf;
    if (n > 0) syscall(SYS_write, trace_fd, buf, (size_t)n);
}

/* A counted operation is about to happen. */
static void op(const char *kind, const char *detail) {
    init();
    op_count++;
    trace(kind, detail);
    if (fault_op >= 0 && op_count == fault_op) die();
}

static int is_regular(int fd) {
    if (fd >= 0 && fd <= 2) return 0;
    if (fd == trace_fd) return 0;
    struct stat st;
    if (fstat(fd, &st) != 0) return 0;
    return S_ISREG(st.st_mode);
}

/* Returns the number of bytes of an n-byte write that may go through:
 *   n  - everything; <n - shorten (then crash or fail); -1 - fail right away. */
static long long admit(int fd, size_t n) {
    char d[64];
    snprintf(d, sizeof d, "fd=%d n=%zu", fd, n);
    op("write", d);
    if (disk_full) return -1;
    if (fault_bytes < 0) {
        bytes_total += (long long)n;
        return (long long)n;
    }
    long long room = fault_bytes - bytes_total;
    if (room < 0) room = 0;
    if ((long long)n <= room) {
        bytes_total += (long long)n;
        return (long long)n;
    }
    return room; /* short */
}

typedef ssize_t (*write_fn)(int, const void *, size_t);

ssize_t write(int fd, const void *buf, size_t n) {
    static write_fn real;
    if (!real) real = (write_fn)dlsym(RTLD_NEXT, "write");
    init();
    if (n == 0 || !is_regular(fd)) return real(fd, buf, n);
    long long a = admit(fd, n);
    if (a == (long long)n) return real(fd, buf, n);
    /* the fault point */
    ssize_t r = 0;
    if (a > 0) {
        r = real(fd, buf, (size_t)a);
        if (r > 0) bytes_total += r;
    }
    if (!mode_error) die();
    disk_full = 1;
    if (a > 0 && r > 0) return r;
    errno = ENOSPC;
    return -1;
}

ssize_t writev(int fd, const struct iovec *iov, int cnt) {
    static ssize_t (*real)(int, const struct iovec *, int);
    if (!real) real = (ssize_t(*)(int, const struct iovec *, int))dlsym(RTLD_NEXT, "writev");
    init();
    if (!is_regular(fd)) return real(fd, iov, cnt);
    /* route through write() one buffer at a time so the byte budget is exact;
     * a short return is allowed by the writev contract */
    ssize_t total = 0;
    for (int i = 0; i < cnt; i++) {
        if (iov[i].iov_len == 0) continue;
        ssize_t r = write(fd, iov[i].iov_base, iov[i].iov_len);
        if (r < 0) return total > 0 ? total : r;
        total += r;
        if ((size_t)r < iov[i].iov_len) break;
    }
    return total;
}

ssize_t pwrite64(int fd, const void *buf, size_t n, off64_t off) {
    static ssize_t (*real)(int, const void *, size_t, off64_t);
    if (!real) real = (ssize_t(*)(int, const void *, size_t, off64_t))dlsym(RTLD_NEXT, "pwrite64");
    init();
    if (n == 0 || !is_regular(fd)) return real(fd, buf, n, off);
    long long a = admit(fd, n);
    if (a == (long long)n) return real(fd, buf, n, off);
    ssize_t r = 0;
    if (a > 0) {
        r = real(fd, buf, (size_t)a, off);
        if (r > 0) bytes_total += r;
    }
    if (!mode_error) die();
    disk_full = 1;
    if (a > 0 && r > 0) return r;
    errno = ENOSPC;
    return -1;
}

ssize_t pwrite(int fd, const void *buf, size_t n, off_t off) { return pwrite64(fd, buf, n, (off64_t)off); }

#define OPEN_BODY(NAME, CALL)                                              \
    mode_t mode = 0;                                                       \
    if ((flags & O_CREAT) || (flags & O_TMPFILE) == O_TMPFILE) {           \
        va_list ap;                                                        \
        va_start(ap, flags);                                               \
        mode = (mode_t)va_arg(ap, int);                                    \
        va_end(ap);                                                        \
    }                                                                      \
    if ((flags & O_CREAT) || ((flags & O_TRUNC) && (flags & (O_WRONLY | O_RDWR)))) op("open", path); \
    return CALL;

int open(const char *path, int flags, ...) {
    static int (*real)(const char *, int, ...);
    if (!real) real = (int (*)(const char *, int, ...))dlsym(RTLD_NEXT, "open");
    OPEN_BODY("open", real(path, flags, mode))
}

int open64(const char *path, int flags, ...) {
    static int (*real)(const char *, int, ...);
    if (!real) real = (int (*)(const char *, int, ...))dlsym(RTLD_NEXT, "open64");
    OPEN_BODY("open64", real(path, flags, mode))
}

int openat(int dirfd, const char *path, int flags, ...) {
    static int (*real)(int, const char *, int, ...);
    if (!real) real = (int (*)(int, const char *, int, ...))dlsym(RTLD_NEXT, "openat");
    OPEN_BODY("openat", real(dirfd, path, flags, mode))
}

int openat64(int dirfd, const char *path, int flags, ...) {
    static int (*real)(int, const char *, int, ...);
    if (!real) real = (int (*)(int, const char *, int, ...))dlsym(RTLD_NEXT, "openat64");
    OPEN_BODY("openat64", real(dirfd, path, flags, mode))
}

int creat(const char *path, mode_t mode) {
    static int (*real)(const char *, mode_t);
    if (!real) real = (int (*)(const char *, mode_t))dlsym(RTLD_NEXT, "creat");
    op("open", path);
    return real(path, mode);
}

int creat64(const char *path, mode_t mode) {
    static int (*real)(const char *, mode_t);
    if (!real) real = (int (*)(const char *, mode_t))dlsym(RTLD_NEXT, "creat64");
    op("open", path);
    return real(path, mode);
}

int unlink(const char *path) {
    static int (*real)(const char *);
    if (!real) real = (int (*)(const char *))dlsym(RTLD_NEXT, "unlink");
    op("unlink", path);
    return real(path);
}

int unlinkat(int dirfd, const char *path, int flags) {
    static int (*real)(int, const char *, int);
    if (!real) real = (int (*)(int, const char *, int))dlsym(RTLD_NEXT, "unlinkat");
    op("unlink", path);
    return real(dirfd, path, flags);
}

static void op2(const char *kind, const char *a, const char *b) {
    char d[520];
    snprintf(d, sizeof d, "%.250s -> %.250s", a, b);
    op(kind, d);
}

int rename(const char *a, const char *b) {
    static int (*real)(const char *, const char *);
    if (!real) real = (int (*)(const char *, const char *))dlsym(RTLD_NEXT, "rename");
    op2("rename", a, b);
    return real(a, b);
}

int renameat(int fa, const char *a, int fb, const char *b) {
    static int (*real)(int, const char *, int, const char *);
    if (!real) real = (int (*)(int, const char *, int, const char *))dlsym(RTLD_NEXT, "renameat");
    op2("rename", a, b);
    return real(fa, a, fb, b);
}

int renameat2(int fa, const char *a, int fb, const char *b, unsigned int flags) {
    static int (*real)(int, const char *, int, const char *, unsigned int);
    if (!real) real = (int (*)(int, const char *, int, const char *, unsigned int))dlsym(RTLD_NEXT, "renameat2");
    op2("rename", a, b);
    return real(fa, a, fb, b, flags);
}

int link(const char *a, const char *b) {
    static int (*real)(const char *, const char *);
    if (!real) real = (int (*)(const char *, const char *))dlsym(RTLD_NEXT, "link");
    op2("link", a, b);
    return real(a, b);
}

int linkat(int fa, const char *a, int fb, const char *b, int flags) {
    static int (*real)(int, const char *, int, const char *, int);
    if (!real) real = (int (*)(int, const char *, int, const char *, int))dlsym(RTLD_NEXT, "linkat");
    op2("link", a, b);
    return real(fa, a, fb, b, flags);
}

int symlink(const char *a, const char *b) {
    static int (*real)(const char *, const char *);
    if (!real) real = (int (*)(const char *, const char *))dlsym(RTLD_NEXT, "symlink");
    op2("symlink", a, b);
    return real(a, b);
}

int mkdir(const char *path, mode_t mode) {
    static int (*real)(const char *, mode_t);
    if (!real) real = (int (*)(const char *, mode_t))dlsym(RTLD_NEXT, "mkdir");
    op("mkdir", path);
    return real(path, mode);
}

int mkdirat(int dirfd, const char *path, mode_t mode) {
    static int (*real)(int, const char *, mode_t);
    if (!real) real = (int (*)(int, const char *, mode_t))dlsym(RTLD_NEXT, "mkdirat");
    op("mkdir", path);
    return real(dirfd, path, mode);
}

int ftruncate(int fd, off_t len) {
    static int (*real)(int, off_t);
    if (!real) real = (int (*)(int, off_t))dlsym(RTLD_NEXT, "ftruncate");
    if (is_regular(fd)) op("truncate", "fd");
    return real(fd, len);
}

int ftruncate64(int fd, off64_t len) {
    static int (*real)(int, off64_t);
    if (!real) real = (int (*)(int, off64_t))dlsym(RTLD_NEXT, "ftruncate64");
    if (is_regular(fd)) op("truncate", "fd");
    return real(fd, len);
}
