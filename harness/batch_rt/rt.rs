// Runtime shared by every generated batch crate (written by the harness).
#![allow(dead_code, unused_imports, unused_macros)]
pub use lalrpop_util::{ErrorRecovery, ParseError};
pub use std::cell::{Cell, RefCell};

pub const POISON: u32 = 1 << 30; // makes fallible actions fail with User
pub const POISON2: u32 = 1 << 29; // makes fallible actions fail with a non-User ParseError
pub const IDX: u32 = (1 << 29) - 1;

#[derive(Clone, Debug, PartialEq)]
pub enum Tok {
    A(u32),
    B(u32),
    C(u32),
    D(u32),
    E(u32),
    F(u32),
    P(u32),
    Q(u32, u32),
}

pub const TOK_NAMES: [&str; 8] = ["a", "b", "c", "d", "e", "f", "p", "q"];

impl Tok {
    pub fn make(kind: u32, idx: u32) -> Tok {
        match kind {
            0 => Tok::A(idx),
            1 => Tok::B(idx),
            2 => Tok::C(idx),
            3 => Tok::D(idx),
            4 => Tok::E(idx),
            5 => Tok::F(idx),
            6 => Tok::P(idx),
            _ => Tok::Q(idx, idx.wrapping_add(100) & IDX),
        }
    }
    pub fn kind(&self) -> u32 {
        match self {
            Tok::A(_) => 0,
            Tok::B(_) => 1,
            Tok::C(_) => 2,
            Tok::D(_) => 3,
            Tok::E(_) => 4,
            Tok::F(_) => 5,
            Tok::P(_) => 6,
            Tok::Q(..) => 7,
        }
    }
    pub fn idx(&self) -> u32 {
        match self {
            Tok::A(i) | Tok::B(i) | Tok::C(i) | Tok::D(i) | Tok::E(i) | Tok::F(i) | Tok::P(i) | Tok::Q(i, _) => *i,
        }
    }
}

pub fn ridx(i: u32) -> String {
    let mut s = format!("{}", i & IDX);
    if i & POISON != 0 {
        s.push('!');
    }
    if i & POISON2 != 0 {
        s.push('?');
    }
    s
}

/// A location type that is Clone + Default but not the built-in usize.
#[derive(Clone, Copy, Debug, Default, PartialEq, Eq, PartialOrd, Ord)]
pub struct Loc(pub u32);

/// A location type that is Clone but NOT Copy.
#[derive(Clone, Debug, Default, PartialEq, Eq, PartialOrd, Ord)]
pub struct CLoc(pub u32);

pub trait FromPos {
    fn from_pos(p: usize) -> Self;
}
impl FromPos for usize {
    fn from_pos(p: usize) -> Self {
        p
    }
}
impl FromPos for Loc {
    fn from_pos(p: usize) -> Self {
        Loc(p as u32)
    }
}
impl FromPos for CLoc {
    fn from_pos(p: usize) -> Self {
        CLoc(p as u32)
    }
}

/// Per-parse context handed to every generated grammar as `cx`.
pub struct Cx {
    pub log: RefCell<Vec<u32>>,
    pub steps: Cell<u64>,
    pub budget: u64,
}

impl Cx {
    pub fn new(budget: u64) -> Cx {
        Cx { log: RefCell::new(Vec::new()), steps: Cell::new(0), budget }
    }
    pub fn step(&self) {
        let s = self.steps.get() + 1;
        self.steps.set(s);
        if s > self.budget {
            panic!("BUDGET");
        }
    }
    /// infallible user action: log the action id, return the rendering
    pub fn act(&self, id: u32, s: String) -> String {
        self.step();
        self.log.borrow_mut().push(id);
        s
    }
    pub fn unit(&self, id: u32) {
        self.step();
        self.log.borrow_mut().push(id);
    }
    /// fallible user action
    pub fn fact<L: FromPos, T, E: MkErr>(&self, id: u32, s: String) -> Result<String, ParseError<L, T, E>> {
        self.step();
        self.log.borrow_mut().push(id);
        if s.contains('!') {
            Err(ParseError::User { error: E::mk(format!("E{}:{}", id, s)) })
        } else if s.contains('?') {
            Err(ParseError::UnrecognizedEof { location: L::from_pos(777), expected: vec![format!("Q{}", id)] })
        } else {
            Ok(s)
        }
    }
}

/// user error types a grammar may declare (`String`) or get by default (`&'static str`)
pub trait MkErr {
    fn mk(s: String) -> Self;
}
impl MkErr for String {
    fn mk(s: String) -> Self {
        s
    }
}
impl MkErr for &'static str {
    fn mk(s: String) -> Self {
        Box::leak(s.into_boxed_str())
    }
}

/// Canonical rendering of every value type a generated grammar can produce.
pub trait R {
    fn r(&self) -> String;
}
impl R for String {
    fn r(&self) -> String {
        self.clone()
    }
}
impl R for &str {
    fn r(&self) -> String {
        format!("{:?}", self)
    }
}
impl R for usize {
    fn r(&self) -> String {
        format!("@{}", self)
    }
}
impl R for u32 {
    fn r(&self) -> String {
        ridx(*self)
    }
}
impl R for Loc {
    fn r(&self) -> String {
        format!("@{}", self.0)
    }
}
impl R for CLoc {
    fn r(&self) -> String {
        format!("@{}", self.0)
    }
}
impl R for () {
    fn r(&self) -> String {
        "()".to_string()
    }
}
impl R for Tok {
    fn r(&self) -> String {
        match self {
            Tok::Q(i, j) => format!("q{}:{}", ridx(*i), ridx(*j)),
            t => format!("{}{}", TOK_NAMES[t.kind() as usize], ridx(t.idx())),
        }
    }
}
impl<'a> R for lalrpop_util::lexer::Token<'a> {
    fn r(&self) -> String {
        format!("{:?}", self.1)
    }
}
impl<T> R for std::marker::PhantomData<T> {
    fn r(&self) -> String {
        "Ph".to_string()
    }
}
impl<T: R> R for Box<T> {
    fn r(&self) -> String {
        (**self).r()
    }
}
impl<'x, T: R> R for &'x T {
    fn r(&self) -> String {
        (**self).r()
    }
}
impl<T: R> R for Vec<T> {
    fn r(&self) -> String {
        let v: Vec<String> = self.iter().map(|x| x.r()).collect();
        format!("[{}]", v.join(","))
    }
}
impl<T: R> R for Option<T> {
    fn r(&self) -> String {
        match self {
            Some(x) => format!("Some({})", x.r()),
            None => "None".to_string(),
        }
    }
}
macro_rules! tuple_r {
    ($($n:ident),+) => {
        impl<$($n: R),+> R for ($($n,)+) {
            #[allow(non_snake_case)]
            fn r(&self) -> String {
                let ($($n,)+) = self;
                let v: Vec<String> = vec![$($n.r()),+];
                format!("({})", v.join(","))
            }
        }
    };
}
tuple_r!(A);
tuple_r!(A, B);
tuple_r!(A, B, C);
tuple_r!(A, B, C, D);
tuple_r!(A, B, C, D, E);
tuple_r!(A, B, C, D, E, F);
tuple_r!(A, B, C, D, E, F, G);
tuple_r!(A, B, C, D, E, F, G, H);

pub fn render_error<L: R, T: R, E: R>(e: &ParseError<L, T, E>) -> Vec<String> {
    // [variant, a, b, c, expected(\x1f-joined)]
    let n = String::new;
    match e {
        ParseError::InvalidToken { location } => vec!["InvalidToken".into(), location.r(), n(), n(), n()],
        ParseError::UnrecognizedEof { location, expected } => {
            vec!["UnrecognizedEof".into(), location.r(), n(), n(), expected.join("\x1f")]
        }
        ParseError::UnrecognizedToken { token: (l, t, h), expected } => {
            vec!["UnrecognizedToken".into(), l.r(), t.r(), h.r(), expected.join("\x1f")]
        }
        ParseError::ExtraToken { token: (l, t, h) } => vec!["ExtraToken".into(), l.r(), t.r(), h.r(), n()],
        ParseError::User { error } => vec!["User".into(), error.r(), n(), n(), n()],
    }
}

impl<L: R, T: R, E: R> R for ErrorRecovery<L, T, E> {
    fn r(&self) -> String {
        let d: Vec<String> =
            self.dropped_tokens.iter().map(|(l, t, h)| format!("{}~{}~{}", l.r(), t.r(), h.r())).collect();
        let e = render_error(&self.error).join("|").replace('\x1f', ";");
        format!("Recov<{}><{}>", e, d.join(";"))
    }
}

/// `r!(cx, id, "Name"; a, b, c)` - infallible user action body.
macro_rules! r {
    ($cx:expr, $id:expr, $name:expr; $($a:expr),* $(,)?) => {{
        #[allow(unused_mut)]
        let mut __v: Vec<String> = Vec::new();
        $( __v.push($crate::rt::R::r(&$a)); )*
        $cx.act($id, format!("{}({})", $name, __v.join(",")))
    }};
}
/// `rf!(cx, id, "Name"; a, b)` - fallible user action body (`=>?`).
macro_rules! rf {
    ($cx:expr, $id:expr, $name:expr; $($a:expr),* $(,)?) => {{
        #[allow(unused_mut)]
        let mut __v: Vec<String> = Vec::new();
        $( __v.push($crate::rt::R::r(&$a)); )*
        $cx.fact($id, format!("{}({})", $name, __v.join(",")))
    }};
}
pub(crate) use r;
pub(crate) use rf;

// ---------------------------------------------------------------- driver side

pub fn esc(s: &str) -> String {
    let mut o = String::with_capacity(s.len());
    for c in s.chars() {
        match c {
            '\\' => o.push_str("\\\\"),
            '\t' => o.push_str("\\t"),
            '\n' => o.push_str("\\n"),
            '\r' => o.push_str("\\r"),
            c => o.push(c),
        }
    }
    o
}
pub fn unesc(s: &str) -> String {
    let mut o = String::with_capacity(s.len());
    let mut it = s.chars();
    while let Some(c) = it.next() {
        if c == '\\' {
            match it.next() {
                Some('t') => o.push('\t'),
                Some('n') => o.push('\n'),
                Some('r') => o.push('\r'),
                Some(c) => o.push(c),
                None => {}
            }
        } else {
            o.push(c)
        }
    }
    o
}

pub struct Query {
    pub module: String,
    pub start: String,
    pub budget: u64,
    /// token stream: Ok((lo, kind, idx-with-flags, hi)) or Err(message)
    pub toks: Vec<Result<(usize, u32, u32, usize), String>>,
    pub text: String,
    pub multi: Option<Multi>,
}

/// C27: several inputs parsed through ONE shared parser value, sequentially
/// and from several threads at once.
pub struct Multi {
    pub threads: usize,
    pub inputs: Vec<Query>,
    /// per thread: the input indices it parses, in order
    pub schedule: Vec<Vec<usize>>,
}

pub fn parse_query(line: &str) -> Option<Query> {
    let f: Vec<&str> = line.split('\t').collect();
    if f.len() < 5 {
        return None;
    }
    let mut q = Query {
        module: f[0].to_string(),
        start: f[1].to_string(),
        budget: f[3].parse().ok()?,
        toks: vec![],
        text: String::new(),
        multi: None,
    };
    match f[2] {
        "M" => {
            // threads \x1e inputs (\x1d separated, each "T<toks>" or "S<text>") \x1e schedule (a,b,c|d,e)
            let parts: Vec<&str> = f[4].split('\x1e').collect();
            if parts.len() != 3 {
                return None;
            }
            let mut inputs = vec![];
            for inp in parts[1].split('\x1d') {
                let (kind, body) = inp.split_at(1.min(inp.len()));
                let line = format!("{}\t{}\t{}\t{}\t{}", f[0], f[1], kind, f[3], body);
                inputs.push(parse_query(&line)?);
            }
            let schedule: Vec<Vec<usize>> = parts[2]
                .split('|')
                .map(|t| t.split(',').filter_map(|x| x.parse().ok()).collect())
                .collect();
            q.multi = Some(Multi { threads: parts[0].parse().ok()?, inputs, schedule });
        }
        "T" => {
            for t in f[4].split(';').filter(|s| !s.is_empty()) {
                if let Some(m) = t.strip_prefix('E') {
                    q.toks.push(Err(unesc(m)));
                } else {
                    let p: Vec<&str> = t.split(',').collect();
                    if p.len() != 4 {
                        return None;
                    }
                    q.toks.push(Ok((p[1].parse().ok()?, p[0].parse().ok()?, p[3].parse().ok()?, p[2].parse().ok()?)));
                }
            }
        }
        _ => q.text = unesc(f[4]),
    }
    Some(q)
}

/// Counting token iterator over the query's stream.
pub struct TokIter<'a, L> {
    items: std::vec::IntoIter<Result<(usize, u32, u32, usize), String>>,
    pub pulls: &'a Cell<u32>,
    cx: &'a Cx,
    _l: std::marker::PhantomData<L>,
}
impl<'a, L: FromPos> TokIter<'a, L> {
    pub fn new(q: &Query, pulls: &'a Cell<u32>, cx: &'a Cx) -> Self {
        TokIter { items: q.toks.clone().into_iter(), pulls, cx, _l: std::marker::PhantomData }
    }
}
impl<'a, L: FromPos> Iterator for TokIter<'a, L> {
    type Item = Result<(L, Tok, L), String>;
    fn next(&mut self) -> Option<Self::Item> {
        self.pulls.set(self.pulls.get() + 1);
        self.cx.step();
        self.items.next().map(|r| r.map(|(lo, k, i, hi)| (L::from_pos(lo), Tok::make(k, i), L::from_pos(hi))))
    }
}

pub fn finish<V: R, L: R, T: R, E: R>(
    res: std::thread::Result<Result<V, ParseError<L, T, E>>>,
    cx: &Cx,
    pulls: u32,
) -> String {
    let log: Vec<String> = cx.log.borrow().iter().map(|x| x.to_string()).collect();
    let log = log.join(",");
    match res {
        Ok(Ok(v)) => format!("OK\t{}\t{}\t{}", esc(&v.r()), pulls, log),
        Ok(Err(e)) => {
            let f: Vec<String> = render_error(&e).iter().map(|x| esc(x)).collect();
            format!("ERR\t{}\t{}\t{}", f.join("\t"), pulls, log)
        }
        Err(p) => {
            let msg = if let Some(s) = p.downcast_ref::<&str>() {
                s.to_string()
            } else if let Some(s) = p.downcast_ref::<String>() {
                s.clone()
            } else {
                "?".to_string()
            };
            if msg == "BUDGET" {
                format!("BUDGET\t{}\t{}", pulls, log)
            } else {
                format!("PANIC\t{}\t{}\t{}", esc(&msg), pulls, log)
            }
        }
    }
}

pub fn assert_send_sync<T: Send + Sync>(_: &T) {}

/// Run the schedule of `m` against one shared parser value: first every
/// input alone on a fresh parser (reference), then a sequential pass over the
/// shared value, then all threads at once behind a barrier.
pub fn multi<P: Sync>(m: &Multi, shared: &P, one: &(dyn Fn(&P, &Query) -> String + Sync), fresh: &dyn Fn() -> P) -> String {
    let reference: Vec<String> = m.inputs.iter().map(|q| one(&fresh(), q)).collect();
    let mut compared = 0usize;
    // (a) sequential reuse of the shared value, in schedule order
    for (ti, seq) in m.schedule.iter().enumerate() {
        for (step, &i) in seq.iter().enumerate() {
            if i >= m.inputs.len() {
                continue;
            }
            let got = one(shared, &m.inputs[i]);
            compared += 1;
            if got != reference[i] {
                return format!("MULTI_MISMATCH\tsequential\t{}\t{}\t{}\t{}\t{}", ti, step, i, esc(&reference[i]), esc(&got));
            }
        }
    }
    // (b) concurrent use
    let barrier = std::sync::Barrier::new(m.schedule.len().max(1));
    let bad: std::sync::Mutex<Option<String>> = std::sync::Mutex::new(None);
    let total = std::sync::atomic::AtomicUsize::new(0);
    std::thread::scope(|sc| {
        for (ti, seq) in m.schedule.iter().enumerate() {
            let (barrier, bad, total, reference) = (&barrier, &bad, &total, &reference);
            sc.spawn(move || {
                barrier.wait();
                for (step, &i) in seq.iter().enumerate() {
                    if i >= m.inputs.len() {
                        continue;
                    }
                    let got = one(shared, &m.inputs[i]);
                    total.fetch_add(1, std::sync::atomic::Ordering::Relaxed);
                    if got != reference[i] {
                        let mut b = bad.lock().unwrap();
                        if b.is_none() {
                            *b = Some(format!("MULTI_MISMATCH\tconcurrent\t{}\t{}\t{}\t{}\t{}", ti, step, i, esc(&reference[i]), esc(&got)));
                        }
                        return;
                    }
                }
            });
        }
    });
    if let Some(b) = bad.into_inner().unwrap() {
        return b;
    }
    compared += total.load(std::sync::atomic::Ordering::Relaxed);
    format!("MULTI_OK\t{}", compared)
}

/// extern-lexer parser call
macro_rules! run_toks {
    ($q:expr, $parser:path, $loc:ty $(, $extra:expr)*) => {{
        let q: &$crate::rt::Query = $q;
        let one = |p: &$parser, q: &$crate::rt::Query| -> String {
            let cx = $crate::rt::Cx::new(q.budget);
            let pulls = std::cell::Cell::new(0u32);
            let res = std::panic::catch_unwind(std::panic::AssertUnwindSafe(|| {
                let it = $crate::rt::TokIter::<$loc>::new(q, &pulls, &cx);
                p.parse(&cx, $($extra,)* it)
            }));
            $crate::rt::finish(res, &cx, pulls.get())
        };
        match &q.multi {
            Some(m) => {
                let shared = <$parser>::new();
                $crate::rt::assert_send_sync(&shared);
                $crate::rt::multi(m, &shared, &one, &|| <$parser>::new())
            }
            None => one(&<$parser>::new(), q),
        }
    }};
}
/// built-in-lexer parser call
macro_rules! run_str {
    ($q:expr, $parser:path $(, $extra:expr)*) => {{
        let q: &$crate::rt::Query = $q;
        let one = |p: &$parser, q: &$crate::rt::Query| -> String {
            let cx = $crate::rt::Cx::new(q.budget);
            let res = std::panic::catch_unwind(std::panic::AssertUnwindSafe(|| p.parse(&cx, $($extra,)* &q.text)));
            $crate::rt::finish(res, &cx, 0)
        };
        match &q.multi {
            Some(m) => {
                let shared = <$parser>::new();
                $crate::rt::assert_send_sync(&shared);
                $crate::rt::multi(m, &shared, &one, &|| <$parser>::new())
            }
            None => one(&<$parser>::new(), q),
        }
    }};
}
pub(crate) use run_str;
pub(crate) use run_toks;

pub fn main_loop(dispatch: fn(&Query) -> Option<String>) {
    use std::io::{BufRead, Write};
    std::panic::set_hook(Box::new(|_| {}));
    let stdin = std::io::stdin();
    let stdout = std::io::stdout();
    let mut out = std::io::BufWriter::new(stdout.lock());
    for line in stdin.lock().lines() {
        let Ok(line) = line else { break };
        let resp = match parse_query(&line) {
            Some(q) => dispatch(&q).unwrap_or_else(|| "NOPARSER".to_string()),
            None => "BADQUERY".to_string(),
        };
        let _ = writeln!(out, "{}", resp);
        let _ = out.flush();
    }
}
