//! E5: batch compiler and driver for generated parsers.
//!
//! Many generated grammars are turned into parsers by the real lalrpop CLI,
//! assembled into a cargo workspace of K binary crates (built in parallel),
//! and then queried over a line protocol (see batch_rt/rt.rs).

use crate::core::{par_map, Ctx};
use crate::run::{Algo, Cmd, Exit, Out};
use std::collections::{BTreeMap, BTreeSet};
use std::path::{Path, PathBuf};

pub const RT_SRC: &str = include_str!("../batch_rt/rt.rs");

#[derive(Clone, Debug)]
pub struct Unit {
    /// rust module name, unique in the batch (`g12_t_lane`)
    pub module: String,
    /// `.lalrpop` text
    pub text: String,
    pub algo: Algo,
    /// pub nonterminals (parser structs `<Name>Parser`)
    pub starts: Vec<String>,
    /// location type name for the token iterator (`usize`, `Loc`, `CLoc`); None = built-in lexer
    pub loc_ty: Option<String>,
    /// extra CLI flags / features
    pub flags: Vec<String>,
    /// false: only run lalrpop on it (text-level checks), do not compile
    pub compile: bool,
    /// extra grammar parameters passed to `parse` after `cx` (Rust expressions)
    pub extra_args: Vec<String>,
}

#[derive(Clone, Debug, PartialEq, Eq)]
pub enum QTok {
    Tok { kind: u32, lo: usize, hi: usize, idx: u32 },
    Err(String),
}

#[derive(Clone, Debug)]
pub struct Query {
    pub module: String,
    pub start: String,
    pub budget: u64,
    pub toks: Option<Vec<QTok>>,
    pub text: Option<String>,
    /// C27: (threads, inputs, schedule) - all inputs through one shared parser value
    pub multi: Option<(usize, Vec<Query>, Vec<Vec<usize>>)>,
}

#[derive(Clone, Debug, PartialEq, Eq)]
pub enum Resp {
    Ok { val: String, pulls: u32, log: Vec<u32> },
    Err { variant: String, a: String, b: String, c: String, expected: Vec<String>, pulls: u32, log: Vec<u32> },
    Panic { msg: String },
    Budget,
    /// the driver did not answer within the watchdog (no deterministic evidence)
    Hang,
    /// the driver process died (stack overflow, abort)
    Crash(String),
    /// module not compiled / not present
    Missing,
    /// C27 answers
    MultiOk(u64),
    MultiMismatch { phase: String, thread: usize, step: usize, input: usize, expected: String, got: String },
}

pub struct Batch {
    pub dir: PathBuf,
    pub units: Vec<Unit>,
    /// lalrpop CLI result per unit
    pub gen: Vec<Out>,
    /// unit accepted by lalrpop (exit 0 and output exists)
    pub accepted: Vec<bool>,
    /// rustc diagnostics per module that failed to compile
    pub compile_errors: BTreeMap<String, String>,
    /// module -> executable
    exe_of: BTreeMap<String, PathBuf>,
    pub build_log: String,
    pub infra_error: Option<String>,
}

fn esc(s: &str) -> String {
    let mut o = String::new();
    for c in s.chars() {
        match c {
            '\\' => o.push_str("\\\\"),
            '\t' => o.push_str("\\t"),
            '\n' => o.push_str("\\n"),
            '\r' => o.push_str("\\r"),
            c => o.push(c),
        }
    }
    o
}
fn unesc(s: &str) -> String {
    let mut o = String::new();
    let mut it = s.chars();
    while let Some(c) = it.next() {
        if c == '\\' {
            match it.next() {
                Some('t') => o.push('\t'),
                Some('n') => o.push('\n'),
                Some('r') => o.push('\r'),
                Some(c) => o.push(c),
                None => {}
            }
        } else {
            o.push(c)
        }
    }
    o
}

impl Query {
    fn body(&self) -> (char, String) {
        match (&self.toks, &self.text) {
            (Some(toks), _) => {
                let t: Vec<String> = toks
                    .iter()
                    .map(|t| match t {
                        QTok::Tok { kind, lo, hi, idx } => format!("{kind},{lo},{hi},{idx}"),
                        QTok::Err(m) => format!("E{}", esc(m).replace(';', ":")),
                    })
                    .collect();
                ('T', t.join(";"))
            }
            (None, Some(text)) => ('S', esc(text)),
            _ => ('T', String::new()),
        }
    }
    pub fn line(&self) -> String {
        if let Some((threads, inputs, schedule)) = &self.multi {
            let ins: Vec<String> = inputs
                .iter()
                .map(|q| {
                    let (k, b) = q.body();
                    format!("{k}{b}")
                })
                .collect();
            let sched: Vec<String> = schedule.iter().map(|s| s.iter().map(|x| x.to_string()).collect::<Vec<_>>().join(",")).collect();
            return format!(
                "{}\t{}\tM\t{}\t{}\x1e{}\x1e{}",
                self.module,
                self.start,
                self.budget,
                threads,
                ins.join("\x1d"),
                sched.join("|")
            );
        }
        match (&self.toks, &self.text) {
            (Some(toks), _) => {
                let t: Vec<String> = toks
                    .iter()
                    .map(|t| match t {
                        QTok::Tok { kind, lo, hi, idx } => format!("{kind},{lo},{hi},{idx}"),
                        QTok::Err(m) => format!("E{}", esc(m).replace(';', ":")),
                    })
                    .collect();
                format!("{}\t{}\tT\t{}\t{}", self.module, self.start, self.budget, t.join(";"))
            }
            (None, Some(text)) => format!("{}\t{}\tS\t{}\t{}", self.module, self.start, self.budget, esc(text)),
            _ => format!("{}\t{}\tT\t{}\t", self.module, self.start, self.budget),
        }
    }
}

fn parse_log(s: &str) -> Vec<u32> {
    s.split(',').filter_map(|x| x.parse().ok()).collect()
}

pub fn parse_resp(line: &str) -> Resp {
    let f: Vec<&str> = line.split('\t').collect();
    match f[0] {
        "OK" if f.len() >= 4 => Resp::Ok { val: unesc(f[1]), pulls: f[2].parse().unwrap_or(0), log: parse_log(f[3]) },
        "ERR" if f.len() >= 8 => Resp::Err {
            variant: f[1].to_string(),
            a: unesc(f[2]),
            b: unesc(f[3]),
            c: unesc(f[4]),
            expected: if f[5].is_empty() { vec![] } else { unesc(f[5]).split('\x1f').map(|s| s.to_string()).collect() },
            pulls: f[6].parse().unwrap_or(0),
            log: parse_log(f[7]),
        },
        "PANIC" => Resp::Panic { msg: f.get(1).map(|s| unesc(s)).unwrap_or_default() },
        "BUDGET" => Resp::Budget,
        "NOPARSER" => Resp::Missing,
        "MULTI_OK" => Resp::MultiOk(f.get(1).and_then(|x| x.parse().ok()).unwrap_or(0)),
        "MULTI_MISMATCH" if f.len() >= 7 => Resp::MultiMismatch {
            phase: f[1].to_string(),
            thread: f[2].parse().unwrap_or(0),
            step: f[3].parse().unwrap_or(0),
            input: f[4].parse().unwrap_or(0),
            expected: unesc(f[5]),
            got: unesc(f[6]),
        },
        other => Resp::Crash(format!("unparsable driver line: {other}")),
    }
}

impl Batch {
    /// Generate, compile. `name` is a sub directory of ctx.work.
    pub fn build(ctx: &Ctx, name: &str, units: Vec<Unit>) -> Batch {
        let dir = ctx.work.join(name);
        crate::core::wipe_dir(&dir);
        let src_all = dir.join("src_all");
        std::fs::create_dir_all(&src_all).unwrap();
        // 1. lalrpop on every unit
        let gen: Vec<Out> = par_map(&units, ctx.threads, |_, u| {
            let f = src_all.join(format!("{}.lalrpop", u.module));
            std::fs::write(&f, &u.text).unwrap();
            let mut c = Cmd::new(&ctx.cli).arg("--force").args(u.flags.iter().cloned()).arg(&f).timeout_s(120);
            if u.algo.lane_disabled() {
                c = c.env("LALRPOP_LANE_TABLE", "disabled");
            }
            c.run()
        });
        let accepted: Vec<bool> =
            units.iter().zip(&gen).map(|(u, o)| o.ok() && src_all.join(format!("{}.rs", u.module)).exists()).collect();
        let mut b = Batch {
            dir: dir.clone(),
            units,
            gen,
            accepted,
            compile_errors: BTreeMap::new(),
            exe_of: BTreeMap::new(),
            build_log: String::new(),
            infra_error: None,
        };
        b.compile(ctx);
        b
    }

    fn compile(&mut self, ctx: &Ctx) {
        let acc: Vec<usize> = (0..self.units.len()).filter(|&i| self.accepted[i] && self.units[i].compile).collect();
        if acc.is_empty() {
            return;
        }
        let per = 12usize;
        let k = ((acc.len() + per - 1) / per).clamp(1, 4 * ctx.threads.max(1));
        let mut crates: Vec<Vec<usize>> = vec![vec![]; k];
        for (j, &ui) in acc.iter().enumerate() {
            crates[j % k].push(ui);
        }
        let ws = self.dir.join("ws");
        std::fs::create_dir_all(&ws).unwrap();
        let target = ctx.root.join("target").join(format!("batch_{}", ctx.id));
        let util = ctx.root.join("repo_link").join("lalrpop-util");
        let members: Vec<String> = (0..k).map(|i| format!("\"c{i}\"")).collect();
        std::fs::write(
            ws.join("Cargo.toml"),
            format!(
                "[workspace]\nmembers=[{}]\nresolver=\"2\"\n[profile.dev]\nopt-level=0\ndebug=0\nincremental=false\npanic=\"unwind\"\n",
                members.join(",")
            ),
        )
        .unwrap();
        let _ = std::fs::copy(ctx.root.join("repo_link").join("Cargo.lock"), ws.join("Cargo.lock"));
        std::fs::create_dir_all(ws.join(".cargo")).unwrap();
        std::fs::write(
            ws.join(".cargo/config.toml"),
            format!("[net]\noffline = true\n[build]\ntarget-dir = \"{}\"\n", target.display()),
        )
        .unwrap();
        // per-run unique crate names so stale executables can never be picked up
        let tag = format!("{}_{}", ctx.id.to_lowercase(), std::process::id());
        let mut excluded: BTreeSet<String> = BTreeSet::new();
        for round in 0..4 {
            for (ci, members) in crates.iter().enumerate() {
                let cdir = ws.join(format!("c{ci}"));
                std::fs::create_dir_all(cdir.join("src")).unwrap();
                std::fs::write(
                    cdir.join("Cargo.toml"),
                    format!(
                        "[package]\nname=\"b_{tag}_{ci}\"\nversion=\"0.0.0\"\nedition=\"2021\"\n[dependencies]\nlalrpop-util = {{ path = \"{}\" }}\n",
                        util.display()
                    ),
                )
                .unwrap();
                std::fs::write(cdir.join("src/rt.rs"), RT_SRC).unwrap();
                let mut main = String::from("#![allow(warnings)]\n#[macro_use]\nmod rt;\nuse rt::{Loc, CLoc};\n");
                let mut arms = String::new();
                for &ui in members {
                    let u = &self.units[ui];
                    if excluded.contains(&u.module) {
                        continue;
                    }
                    main.push_str(&format!(
                        "#[path = \"{}\"]\nmod {};\n",
                        self.dir.join("src_all").join(format!("{}.rs", u.module)).display(),
                        u.module
                    ));
                    let extra: String = u.extra_args.iter().map(|a| format!(", {a}")).collect();
                    for s in &u.starts {
                        match &u.loc_ty {
                            Some(l) => arms.push_str(&format!(
                                "        (\"{m}\", \"{s}\") => Some(rt::run_toks!(q, {m}::{s}Parser, {l}{extra})),\n",
                                m = u.module
                            )),
                            None => arms.push_str(&format!(
                                "        (\"{m}\", \"{s}\") => Some(rt::run_str!(q, {m}::{s}Parser{extra})),\n",
                                m = u.module
                            )),
                        }
                    }
                }
                main.push_str("fn dispatch(q: &rt::Query) -> Option<String> {\n    match (q.module.as_str(), q.start.as_str()) {\n");
                main.push_str(&arms);
                main.push_str("        _ => None,\n    }\n}\nfn main() { rt::main_loop(dispatch) }\n");
                std::fs::write(cdir.join("src/main.rs"), main).unwrap();
            }
            let out = Cmd::new("cargo")
                .args(["build", "--offline", "--keep-going", "--message-format=json"])
                .cwd(&ws)
                .env("CARGO_NET_OFFLINE", "true")
                .env("RUSTFLAGS", "-Awarnings")
                .timeout_s(3600)
                .run();
            self.build_log = format!("{}\n{}", out.stdout, out.stderr);
            if out.exit == Exit::Timeout {
                self.infra_error = Some("batch cargo build timed out".into());
                return;
            }
            if out.ok() {
                break;
            }
            // attribute errors to modules by file name, following macro
            // expansion chains (an error inside rt.rs's macros is attributed
            // to the generated module that invoked the macro)
            let mut newly: BTreeSet<String> = BTreeSet::new();
            let mut per_module: BTreeMap<String, Vec<String>> = BTreeMap::new();
            let mut unattributed: Vec<String> = vec![];
            for line in out.stdout.lines() {
                let Ok(v) = serde_json::from_str::<serde_json::Value>(line) else { continue };
                if v["reason"] != "compiler-message" || v["message"]["level"] != "error" {
                    continue;
                }
                let msg = v["message"]["message"].as_str().unwrap_or("").to_string();
                if msg.starts_with("aborting due to") {
                    continue;
                }
                let mut files: Vec<String> = vec![];
                fn walk(span: &serde_json::Value, files: &mut Vec<String>) {
                    if let Some(f) = span["file_name"].as_str() {
                        files.push(format!("{}:{}", f, span["line_start"]));
                    }
                    if !span["expansion"].is_null() {
                        walk(&span["expansion"]["span"], files);
                    }
                }
                if let Some(spans) = v["message"]["spans"].as_array() {
                    for sp in spans {
                        walk(sp, &mut files);
                    }
                }
                let mut hit = false;
                for f in &files {
                    if let Some(pos) = f.find("src_all/") {
                        let rest = &f[pos + 8..];
                        if let Some(end) = rest.find(".rs") {
                            let m = &rest[..end];
                            if self.units.iter().any(|u| u.module == m) {
                                newly.insert(m.to_string());
                                per_module.entry(m.to_string()).or_default().push(format!("{f}: {msg}"));
                                hit = true;
                            }
                        }
                    }
                }
                if !hit {
                    unattributed.push(format!("{}: {}", files.join(" <- "), msg));
                }
            }
            if newly.is_empty() || round == 3 {
                self.infra_error = Some(format!(
                    "batch build failed without attributable module errors:\n{}\n{}",
                    unattributed.iter().take(10).cloned().collect::<Vec<_>>().join("\n"),
                    out.stderr.lines().filter(|l| l.contains("error")).take(10).collect::<Vec<_>>().join("\n")
                ));
                return;
            }
            for m in &newly {
                let msgs = per_module.get(m).cloned().unwrap_or_default();
                self.compile_errors.insert(m.clone(), msgs.into_iter().take(6).collect::<Vec<_>>().join("\n"));
                excluded.insert(m.clone());
            }
        }
        for (ci, members) in crates.iter().enumerate() {
            let exe = target.join("debug").join(format!("b_{tag}_{ci}"));
            if !exe.exists() {
                continue;
            }
            for &ui in members {
                let m = &self.units[ui].module;
                if !excluded.contains(m) {
                    self.exe_of.insert(m.clone(), exe.clone());
                }
            }
        }
    }

    pub fn compiled(&self, module: &str) -> bool {
        self.exe_of.contains_key(module)
    }

    /// text of the generated `.rs` of a unit (if lalrpop wrote one)
    pub fn generated(&self, module: &str) -> Option<String> {
        std::fs::read_to_string(self.dir.join("src_all").join(format!("{module}.rs"))).ok()
    }

    /// Remove the executables of this batch (call when done).
    pub fn cleanup(&self) {
        let mut seen = BTreeSet::new();
        for e in self.exe_of.values() {
            if seen.insert(e.clone()) {
                let _ = std::fs::remove_file(e);
            }
        }
    }

    /// Answer all queries (order preserved).
    pub fn query(&self, ctx: &Ctx, queries: &[Query]) -> Vec<Resp> {
        let mut by_exe: BTreeMap<PathBuf, Vec<usize>> = BTreeMap::new();
        let mut out: Vec<Resp> = vec![Resp::Missing; queries.len()];
        for (i, q) in queries.iter().enumerate() {
            if let Some(e) = self.exe_of.get(&q.module) {
                by_exe.entry(e.clone()).or_default().push(i);
            }
        }
        let groups: Vec<(PathBuf, Vec<usize>)> = by_exe.into_iter().collect();
        let answers = par_map(&groups, ctx.threads, |_, (exe, idxs)| run_driver(exe, idxs, queries));
        for (g, ans) in groups.iter().zip(answers) {
            for (k, r) in g.1.iter().zip(ans) {
                out[*k] = r;
            }
        }
        out
    }
}

fn run_driver(exe: &Path, idxs: &[usize], queries: &[Query]) -> Vec<Resp> {
    let mut res: Vec<Resp> = Vec::with_capacity(idxs.len());
    let mut start = 0usize;
    let mut guard = 0;
    while start < idxs.len() && guard < 64 {
        guard += 1;
        let mut input = String::new();
        for &i in &idxs[start..] {
            input.push_str(&queries[i].line());
            input.push('\n');
        }
        let n = idxs.len() - start;
        // generous watchdog: parsers answer in microseconds
        let out = Cmd::new(exe).stdin(input.into_bytes()).timeout_s(60 + (n as u64) / 200).run();
        let lines: Vec<&str> = out.stdout.lines().collect();
        let got = lines.len().min(n);
        for l in &lines[..got] {
            res.push(parse_resp(l));
        }
        start += got;
        if got == n {
            break;
        }
        // the query at `start` killed or hung the driver
        match out.exit {
            Exit::Timeout => res.push(Resp::Hang),
            Exit::Signal(s) => res.push(Resp::Crash(format!("signal {s}: {}", out.stderr.lines().last().unwrap_or("")))),
            Exit::Code(c) => res.push(Resp::Crash(format!("exit {c}: {}", out.stderr.lines().last().unwrap_or("")))),
            Exit::SpawnError(e) => res.push(Resp::Crash(format!("spawn: {e}"))),
        }
        start += 1;
    }
    while res.len() < idxs.len() {
        res.push(Resp::Crash("driver gave up".into()));
    }
    res
}
