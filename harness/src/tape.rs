//! E1: choice tape + proptest driver.
//!
//! Every generator is an imperative function over a byte tape. An exhausted
//! tape yields zeros and zero always selects the simplest alternative, so
//! shorter / smaller tapes decode to simpler cases. Tapes come from proptest
//! (`vec(any::<u8>(), ..)`) driven by a `TestRunner` whose seed is VERIF_SEED,
//! so a run is a pure function of /repo and the seed.

use proptest::collection::vec;
use proptest::prelude::*;
use proptest::strategy::ValueTree;
use proptest::test_runner::{Config, RngSeed, TestCaseError, TestError, TestRunner};

pub struct Tape<'a> {
    data: &'a [u8],
    pos: usize,
}

impl<'a> Tape<'a> {
    pub fn new(data: &'a [u8]) -> Self {
        Tape { data, pos: 0 }
    }
    pub fn byte(&mut self) -> u8 {
        let b = self.data.get(self.pos).copied().unwrap_or(0);
        self.pos += 1;
        b
    }
    pub fn exhausted(&self) -> bool {
        self.pos >= self.data.len()
    }
    pub fn consumed(&self) -> usize {
        self.pos.min(self.data.len())
    }
    /// Uniform-ish value in 0..n, monotone in the byte(s) drawn (0 -> 0).
    pub fn below(&mut self, n: usize) -> usize {
        if n <= 1 {
            return 0;
        }
        if n <= 256 {
            (self.byte() as usize * n) >> 8
        } else {
            let hi = self.byte() as usize;
            let lo = self.byte() as usize;
            (((hi << 8) | lo) * n) >> 16
        }
    }
    /// Inclusive range.
    pub fn range(&mut self, lo: usize, hi: usize) -> usize {
        debug_assert!(lo <= hi);
        lo + self.below(hi - lo + 1)
    }
    /// true with probability p/256 (0 on an exhausted tape -> false).
    pub fn chance(&mut self, p: u32) -> bool {
        let b = self.byte() as u32;
        // high bytes -> true, so that zero is "false / simplest".
        b >= 256 - p.min(256)
    }
    pub fn pick<'b, T>(&mut self, xs: &'b [T]) -> &'b T {
        &xs[self.below(xs.len())]
    }
    /// Index chosen with the given weights; index 0 must be the simplest.
    pub fn weighted(&mut self, ws: &[u32]) -> usize {
        let total: u32 = ws.iter().sum();
        if total == 0 {
            return 0;
        }
        let x = (self.below(256 * 256) as u64 * total as u64 >> 16) as u32;
        let mut acc = 0;
        for (i, w) in ws.iter().enumerate() {
            acc += w;
            if x < acc {
                return i;
            }
        }
        ws.len() - 1
    }
}

fn config(seed: u64, cases: u32) -> Config {
    Config {
        cases,
        rng_seed: RngSeed::Fixed(seed),
        failure_persistence: None,
        max_shrink_iters: 4096,
        ..Config::default()
    }
}

/// Sample `n` tapes (lengths min_len..=max_len) from proptest. Used by the
/// compiled (batch) properties, which evaluate many cases per rustc run.
pub fn sample_tapes(seed: u64, n: usize, min_len: usize, max_len: usize) -> Vec<Vec<u8>> {
    let mut runner = TestRunner::new(config(seed, n as u32));
    let strat = vec(any::<u8>(), min_len..=max_len);
    let mut out = Vec::with_capacity(n);
    for _ in 0..n {
        let tree = strat.new_tree(&mut runner).expect("tape strategy");
        out.push(tree.current());
    }
    out
}

/// Outcome of a property run with shrinking.
pub struct Failure {
    pub tape: Vec<u8>,
    pub message: String,
}

/// Run `f` on `cases` tapes with proptest's own shrinking. `f` returns
/// `Err(msg)` on a violation. The closure is re-run during shrinking.
pub fn run_tapes<F>(seed: u64, cases: u32, min_len: usize, max_len: usize, f: F) -> Option<Failure>
where
    F: Fn(&[u8]) -> Result<(), String>,
{
    let mut runner = TestRunner::new(config(seed, cases));
    let strat = vec(any::<u8>(), min_len..=max_len);
    match runner.run(&strat, |tape| match f(&tape) {
        Ok(()) => Ok(()),
        Err(m) => Err(TestCaseError::fail(m)),
    }) {
        Ok(()) => None,
        Err(TestError::Fail(reason, tape)) => Some(Failure {
            tape,
            message: reason.message().to_string(),
        }),
        Err(TestError::Abort(reason)) => Some(Failure {
            tape: Vec::new(),
            message: format!("proptest aborted: {}", reason.message()),
        }),
    }
}

/// Generic tape shrinker for expensive predicates evaluated one at a time
/// (used outside proptest, e.g. on subprocess oracles): delete spans, zero
/// bytes, lower bytes; keeps a candidate iff `still_fails`.
pub fn shrink_tape<F>(tape: &[u8], budget: usize, mut still_fails: F) -> Vec<u8>
where
    F: FnMut(&[u8]) -> bool,
{
    let mut cur = tape.to_vec();
    let mut spent = 0usize;
    let mut progress = true;
    while progress && spent < budget {
        progress = false;
        // delete spans, large to small
        let mut span = (cur.len() / 2).max(1);
        while span >= 1 && spent < budget {
            let mut i = 0;
            while i + span <= cur.len() && spent < budget {
                let mut cand = cur.clone();
                cand.drain(i..i + span);
                spent += 1;
                if still_fails(&cand) {
                    cur = cand;
                    progress = true;
                } else {
                    i += span;
                }
            }
            if span == 1 {
                break;
            }
            span /= 2;
        }
        // zero / lower bytes
        for i in 0..cur.len() {
            if spent >= budget {
                break;
            }
            if cur[i] == 0 {
                continue;
            }
            for cand_b in [0u8, cur[i] / 2, cur[i] - 1] {
                if cand_b >= cur[i] {
                    continue;
                }
                let mut cand = cur.clone();
                cand[i] = cand_b;
                spent += 1;
                if still_fails(&cand) {
                    cur = cand;
                    progress = true;
                    break;
                }
            }
        }
    }
    cur
}

pub fn hex(bytes: &[u8]) -> String {
    bytes.iter().map(|b| format!("{b:02x}")).collect()
}

pub fn unhex(s: &str) -> Vec<u8> {
    (0..s.len() / 2)
        .filter_map(|i| u8::from_str_radix(&s[2 * i..2 * i + 2], 16).ok())
        .collect()
}

/// Round-based parallel tape shrinker: every round evaluates up to `width`
/// one-step reductions of the current tape in parallel and keeps the smallest
/// one that still fails; stops at a fixpoint or after `rounds`.
pub fn shrink_tape_par<F>(tape: &[u8], rounds: usize, width: usize, threads: usize, still_fails: F) -> Vec<u8>
where
    F: Fn(&[u8]) -> bool + Sync,
{
    let mut cur = tape.to_vec();
    let weight = |t: &[u8]| (t.len(), t.iter().map(|b| *b as usize).sum::<usize>());
    for _ in 0..rounds {
        let n = cur.len();
        let mut cands: Vec<Vec<u8>> = vec![];
        let mut span = (n / 2).max(1);
        while span >= 1 && n > 0 {
            let mut i = 0;
            while i + span <= n && cands.len() < width / 2 {
                let mut c = cur.clone();
                c.drain(i..i + span);
                cands.push(c);
                i += span;
            }
            if span == 1 {
                break;
            }
            span /= 2;
        }
        for i in 0..n {
            if cands.len() >= width {
                break;
            }
            if cur[i] != 0 {
                let mut c = cur.clone();
                c[i] = 0;
                cands.push(c);
                if cur[i] > 1 && cands.len() < width {
                    let mut c = cur.clone();
                    c[i] = cur[i] / 2;
                    cands.push(c);
                }
            }
        }
        cands.sort();
        cands.dedup();
        if cands.is_empty() {
            break;
        }
        let res = crate::core::par_map(&cands, threads, |_, c| still_fails(c));
        let mut best: Option<&Vec<u8>> = None;
        for (c, ok) in cands.iter().zip(res) {
            if ok && weight(c) < weight(&cur) && best.map_or(true, |b| weight(c) < weight(b)) {
                best = Some(c);
            }
        }
        match best {
            Some(b) => cur = b.clone(),
            None => break,
        }
    }
    cur
}
