//! Tape-driven generators for the lexer family: overlapping pattern pools,
//! a regex grammar, sampling strings from a regex HIR, lexer specs and inputs.

use crate::lexmodel::{Item, LexSpec, Mapping, Pat, Term};
use crate::tape::Tape;
use regex_syntax::hir::{Class, Hir, HirKind};

// ---------------------------------------------------------------------------
// pools (DESIGN C09/C10/C11: patterns that overlap with each other)

pub struct Pool {
    pub name: &'static str,
    pub lits: &'static [&'static str],
    pub res: &'static [&'static str],
}

pub const POOLS: &[Pool] = &[
    Pool {
        name: "keywords",
        lits: &["if", "in", "int", "else", "begin", "BEGIN", "end", "fn", "i"],
        res: &[
            r"[a-z]+",
            r"[a-zA-Z_][a-zA-Z0-9_]*",
            r"\w+",
            r"[a-z][a-z0-9]*",
            r"(?i)begin",
            r"(?i)if",
            r"i[a-z]",
            r"[[:alpha:]]+",
            r"[A-Z]+",
            r"in?t?",
        ],
    },
    Pool {
        name: "operators",
        lits: &["=", "==", "=+", "+", "++", "+=", "-", "->", ">", ">=", "(", ")", "*", "**", ".", "..", "..."],
        res: &[r"=+", r"[=+]+", r"[-+*/=<>]+", r"\.+", r"\+\+?", r"==?", r"[(][)]", r"-?>", r"\*{1,2}"],
    },
    Pool {
        name: "prefixes",
        lits: &["a", "ab", "abc", "b", "bc", "c", "abcd", "ba"],
        res: &[
            r"a+", r"ab*", r"(ab)+", r"a|ab", r"[a-c]+", r"abc?", r"a*", r"b?", r"[ab]{2}", r"a{2,3}", r"(a|b)*c", r"(?:a|b)+",
            r"ab|abcd", r"a.c", r"[^ab]", r"a(?:b+)?", r"c(?:a{2})?", r"(?:ab{1,2})?c",
            // capturing groups around one bare repetition, quantified (rendering must keep the group)
            r"(a+)?b", r"(a{2})?c", r"((?:ab)+)?c", r"c(b*)?a", r"(b+)*a", r"(a?)+c",
            // open-ended counted repetitions and partners that overlap them only at exactly n copies
            r"a{2,}", r"aa", r"aa?", r"a{3,}", r"aaa", r"[ab]{2,}", r"[ab][ab]?", r"b{2,}c", r"bbc",
        ],
    },
    Pool {
        name: "numbers",
        lits: &["0", "1", "22", "0x", "1.5", ".", "00"],
        res: &[
            r"[0-9]+",
            r"\d+",
            r"[0-9]+\.[0-9]+",
            r"[0-9]*\.[0-9]+",
            r"0x[0-9a-f]+",
            r"[0-9a-f]+",
            r"\d",
            r"[1-9][0-9]*",
            r"[0-9]+(\.[0-9]*)?",
            r"([0-9]+)?\.[0-9]+",
            r"[0-9]{2,}",
            r"[0-9][0-9]?",
            r"[0-9]{3,}",
            r"[0-9]{1,3}",
            r"(0+)?1",
        ],
    },
    Pool {
        name: "unicode",
        lits: &["é", "éa", "ü", "λ", "λx", "日本", "日", "€", "𝔘", "ß", "ñ", "\u{212a}", "å", "Ã©", "e\u{301}", "é́"],
        res: &[
            r"\p{L}+",
            r"\pL",
            r"é+",
            r"[éa]",
            r"[α-ω]+",
            r"\p{Greek}+",
            r"[^\x00-\x7f]+",
            r"(?i)é",
            r"(?i)k",
            r"\u{212a}",
            r"ü|é",
            r"[à-ÿ]+",
            r".",
            r"\w+",
            r"[日本]+",
            r"\p{Han}+",
            r"(?i)ß",
            r"é",
            r"\x{e9}a?",
            r"[^a]",
            r"[ÃÄ].",
            r"\p{Lu}\p{Ll}*",
            r"\PL",
        ],
    },
    Pool {
        name: "whitespace",
        lits: &[" ", "\n", "a b", "\t", "  ", "\u{a0}", "a", "//"],
        res: &[
            r"\s+", r"[ \t]+", r"\n+", r" +", r"\s", r"//[^\n]*", r"#[^\n]*", r#""[^"]*""#, r"[^ ]+", r"\s*", r"[a-z]+", r"[a-z ]+",
            r"\S+",
        ],
    },
    Pool {
        name: "metachars",
        lits: &[".", "*", "a.b", "a|b", "[a]", "(a)", "a+", "\\", "\"", "$", "^", "a?", "{", "}", "\\d", "a{2}", "\\\\", "\"#", "x\"y", "[^a]", "(?i)a"],
        res: &[r"a.b", r"a\.b", r"\[a\]", r"[.]", r"a\|b", r"\\", r"\$", r"\^", r"[*+?]", r"\(a\)", r#"x"y"#, r##""#"##, r"[\]\[]", r"a\{2\}", r"\\d", r"[a-z]\+"],
    },
];

/// skip patterns for `=> { }`
pub const SKIPS: &[&str] = &[r"\s+", r"\s*", r"[ \t\n]+", r"//[^\n]*", r"#[^\n]*\n?", r" ", r"[ ]*", r"\s", r"/\*[^*]*\*/", r"[\s,]+"];

pub const BARE_NAMES: &[&str] = &["ID", "NUM", "KW", "OP", "Tok", "X1", "ws_", "A", "B", "STR"];
pub const NAME_LITS: &[&str] = &["ID", "BEGIN", "num", "+", "==", "x y", "é", "}", ","];
pub const NAME_RES: &[&str] = &["id", "[a-z]+", "num", "x+", "é"];

// ---------------------------------------------------------------------------
// regex grammar (C10): supported constructs only, valid by construction

const RX_CHARS: &[char] = &['a', 'b', 'c', 'x', 'y', 'z', 'A', 'B', 'Z', '0', '1', '9', '_', 'k', 'é', 'ü', 'λ', '日', '€', '𝔘', 'ß', ' ', '-', '=', 'K', '\u{212a}', 'ǅ', 'σ', 'ς'];
const RX_META: &[char] = &['.', '*', '+', '?', '(', ')', '[', ']', '{', '}', '|', '\\', '^', '$', '#', '&', '-', '~', '"', '/'];
const RX_RANGE_ENDS: &[char] = &['0', '5', '9', 'A', 'F', 'Z', 'a', 'c', 'f', 'k', 'z', 'à', 'é', 'ÿ', 'α', 'ω', 'あ', 'ん', '一', '\u{ffff}', '\u{10000}', '𝔘', '\u{10ffff}'];
const RX_UNI: &[&str] = &[r"\pL", r"\p{L}", r"\p{Greek}", r"\p{Lu}", r"\p{Ll}", r"\p{Nd}", r"\pN", r"\p{Han}", r"\PL", r"\P{Greek}", r"\p{Alphabetic}", r"\p{sc=Latin}"];
const RX_PERL: &[&str] = &[r"\d", r"\w", r"\s", r"\D", r"\W", r"\S"];
const RX_POSIX: &[&str] = &["[:alpha:]", "[:digit:]", "[:upper:]", "[:lower:]", "[:space:]", "[:punct:]", "[:^alpha:]", "[:xdigit:]"];
const RX_ESC: &[&str] = &[r"\n", r"\t", r"\r", r"\x61", r"\x{e9}", r"\u{e9}", r"é", r"\x7F", r"\u{1d518}", r"\U0001D518", r"\f", r"\v", r"\a", r"\x41"];

#[derive(Clone, Copy)]
pub struct RxCtx {
    /// inside `(?-u:..)`: ASCII only, no negation, no dot
    pub ascii: bool,
    /// `(?x)`: insignificant whitespace
    pub xmode: bool,
}

#[derive(Default, Clone, Debug)]
pub struct RxFeatures {
    pub set: std::collections::BTreeSet<&'static str>,
}
impl RxFeatures {
    fn add(&mut self, f: &'static str) {
        self.set.insert(f);
    }
}

fn rx_char(t: &mut Tape, cx: RxCtx, f: &mut RxFeatures) -> String {
    if t.chance(48) {
        let m = *t.pick(RX_META);
        f.add("escaped_meta");
        return format!("\\{m}");
    }
    if !cx.ascii && t.chance(24) {
        f.add("escape_seq");
        return t.pick(RX_ESC).to_string();
    }
    if cx.ascii && t.chance(24) {
        f.add("escape_seq");
        return t.pick(&[r"\n", r"\t", r"\x61", r"\x41", r"\x7F"]).to_string();
    }
    loop {
        let c = *t.pick(RX_CHARS);
        if cx.ascii && !c.is_ascii() {
            return "a".into();
        }
        if cx.xmode && c == ' ' {
            return "\\x20".into();
        }
        if !c.is_ascii() {
            f.add("non_ascii");
        }
        return c.to_string();
    }
}

fn rx_class_item(t: &mut Tape, cx: RxCtx, depth: usize, f: &mut RxFeatures) -> String {
    match t.weighted(&[6, 6, 2, 2, 2, 2, 1, 1]) {
        0 => {
            // single char (escaped where the class syntax needs it)
            let c = if t.chance(64) { *t.pick(RX_META) } else { *t.pick(RX_CHARS) };
            if cx.ascii && !c.is_ascii() {
                return "b".into();
            }
            if !c.is_ascii() {
                f.add("non_ascii");
            }
            if matches!(c, '[' | ']' | '\\' | '^' | '-' | '&' | '~' | '#' | ' ') {
                format!("\\{c}").replace("\\ ", if cx.xmode { "\\x20" } else { " " })
            } else {
                c.to_string()
            }
        }
        1 => {
            let a = t.below(RX_RANGE_ENDS.len());
            let b = t.below(RX_RANGE_ENDS.len());
            let (lo, hi) = (RX_RANGE_ENDS[a.min(b)], RX_RANGE_ENDS[a.max(b)]);
            if cx.ascii && !(lo.is_ascii() && hi.is_ascii()) {
                return "a-f".into();
            }
            if !hi.is_ascii() {
                f.add("non_ascii");
            }
            f.add("range");
            format!("{lo}-{hi}")
        }
        2 => {
            f.add("perl_class");
            if cx.ascii {
                t.pick(&[r"\d", r"\w", r"\s"]).to_string()
            } else {
                t.pick(RX_PERL).to_string()
            }
        }
        3 if !cx.ascii => {
            f.add("unicode_class");
            t.pick(RX_UNI).to_string()
        }
        4 => {
            f.add("posix_class");
            if cx.ascii {
                t.pick(&["[:alpha:]", "[:digit:]", "[:upper:]"]).to_string()
            } else {
                t.pick(RX_POSIX).to_string()
            }
        }
        5 if depth > 0 => {
            f.add("nested_class");
            rx_class(t, cx, depth - 1, f)
        }
        6 if !cx.ascii => {
            f.add("escape_seq");
            t.pick(&[r"\n", r"\t", r"\x61", r"\u{e9}", r"\x{3bb}"]).to_string()
        }
        _ => t.pick(&["a", "0", "z", "_"]).to_string(),
    }
}

fn rx_class(t: &mut Tape, cx: RxCtx, depth: usize, f: &mut RxFeatures) -> String {
    f.add("class");
    let neg = !cx.ascii && t.chance(64);
    if neg {
        f.add("negated_class");
    }
    let n = 1 + t.below(3);
    let mut s = String::from(if neg { "[^" } else { "[" });
    for _ in 0..n {
        s.push_str(&rx_class_item(t, cx, depth, f));
    }
    if !cx.ascii && depth > 0 && t.chance(20) {
        f.add("class_set_op");
        let op = *t.pick(&["&&", "--", "~~"]);
        s.push_str(op);
        s.push_str(&rx_class(t, cx, 0, f));
    }
    s.push(']');
    s
}

/// returns (text, is_atomic)
fn rx_node(t: &mut Tape, cx: RxCtx, depth: usize, f: &mut RxFeatures) -> (String, bool) {
    let w: [u32; 9] = if depth == 0 { [8, 3, 1, 1, 0, 0, 0, 0, 0] } else { [5, 4, 1, 2, 5, 3, 3, 3, 2] };
    match t.weighted(&w) {
        0 => (rx_char(t, cx, f), true),
        1 => (rx_class(t, cx, 1, f), true),
        2 => {
            if cx.ascii {
                ("x".into(), true)
            } else {
                f.add("dot");
                (".".into(), true)
            }
        }
        3 => {
            if cx.ascii {
                f.add("perl_class");
                (t.pick(&[r"\d", r"\w", r"\s"]).to_string(), true)
            } else if t.chance(128) {
                f.add("unicode_class");
                (t.pick(RX_UNI).to_string(), true)
            } else {
                f.add("perl_class");
                (t.pick(RX_PERL).to_string(), true)
            }
        }
        4 => {
            // repetition
            let (sub, atomic) = rx_node(t, cx, depth - 1, f);
            let sub = if atomic { sub } else { format!("(?:{sub})") };
            let op = match t.below(8) {
                0 => "*".to_string(),
                1 => "+".to_string(),
                2 => "?".to_string(),
                3 => format!("{{{}}}", t.below(4)),
                4 => format!("{{{},}}", t.below(3)),
                5 => {
                    let a = t.below(4);
                    let b = a + t.below(3);
                    format!("{{{a},{b}}}")
                }
                6 => "*".to_string(),
                _ => "+".to_string(),
            };
            f.add(if op.starts_with('{') { "counted_rep" } else { "rep" });
            let sp = if cx.xmode && t.chance(64) { " " } else { "" };
            (format!("{sub}{sp}{op}"), false)
        }
        5 => {
            // concatenation
            let n = 2 + t.below(3);
            let mut s = String::new();
            for i in 0..n {
                let (sub, _) = rx_node(t, cx, depth - 1, f);
                // an alternation inside a concatenation needs a group
                let sub = if sub_has_toplevel_alt(&sub) { format!("(?:{sub})") } else { sub };
                if cx.xmode && i > 0 && t.chance(128) {
                    s.push(' ');
                }
                s.push_str(&sub);
            }
            (s, false)
        }
        6 => {
            f.add("alternation");
            let n = 2 + t.below(2);
            let mut parts = vec![];
            for _ in 0..n {
                parts.push(rx_node(t, cx, depth - 1, f).0);
            }
            if t.chance(12) {
                f.add("empty_branch");
                parts.push(String::new());
            }
            (parts.join("|"), false)
        }
        7 => {
            let (sub, _) = rx_node(t, cx, depth - 1, f);
            if t.chance(128) {
                f.add("capture_group");
                (format!("({sub})"), true)
            } else {
                f.add("noncapture_group");
                (format!("(?:{sub})"), true)
            }
        }
        _ => {
            // scoped flags
            match t.below(5) {
                0 => {
                    f.add("flag_i");
                    let (sub, _) = rx_node(t, cx, depth - 1, f);
                    (format!("(?i:{sub})"), true)
                }
                1 if !cx.ascii => {
                    f.add("flag_s");
                    (format!("(?s:{}.)", rx_node(t, cx, depth - 1, f).0), true)
                }
                2 if !cx.ascii => {
                    f.add("flag_-u");
                    let cx2 = RxCtx { ascii: true, ..cx };
                    (format!("(?-u:{})", rx_node(t, cx2, depth - 1, f).0), true)
                }
                3 => {
                    f.add("flag_u");
                    (format!("(?u:{})", rx_node(t, RxCtx { ascii: false, ..cx }, depth - 1, f).0), true)
                }
                _ => {
                    f.add("flag_i");
                    let (sub, _) = rx_node(t, cx, depth - 1, f);
                    (format!("(?i-s:{sub})"), true)
                }
            }
        }
    }
}

/// does the text contain `|` outside any bracket/paren and not escaped?
fn sub_has_toplevel_alt(s: &str) -> bool {
    let (mut depth, mut cls, mut esc) = (0i32, 0i32, false);
    for c in s.chars() {
        if esc {
            esc = false;
            continue;
        }
        match c {
            '\\' => esc = true,
            '[' => cls += 1,
            ']' if cls > 0 => cls -= 1,
            '(' if cls == 0 => depth += 1,
            ')' if cls == 0 => depth -= 1,
            '|' if cls == 0 && depth == 0 => return true,
            _ => {}
        }
    }
    false
}

/// A regex using only constructs the lexer generator supports.
pub fn gen_regex(t: &mut Tape, f: &mut RxFeatures) -> String {
    let mut prefix = String::new();
    let mut cx = RxCtx { ascii: false, xmode: false };
    match t.weighted(&[12, 2, 1, 1, 1]) {
        1 => {
            f.add("flag_i");
            prefix.push_str("(?i)");
        }
        2 => {
            f.add("flag_s");
            prefix.push_str("(?s)");
        }
        3 => {
            f.add("flag_x");
            prefix.push_str("(?x)");
            cx.xmode = true;
        }
        4 => {
            f.add("flag_u");
            prefix.push_str("(?u)");
        }
        _ => {}
    }
    let depth = 1 + t.below(3);
    let (body, _) = rx_node(t, cx, depth, f);
    format!("{prefix}{body}")
}

/// Regexes with constructs the lexer generator documents as unsupported.
pub fn gen_unsupported_regex(t: &mut Tape) -> (String, &'static str) {
    const LOOK: &[&str] = &[r"\bfoo", r"^a", r"a$", r"a\B", r"\Aa", r"a\z", r"(?m)^a+$", r"x\b", r"[a-z]+\b", r"\b{start}a", r"a|^b"];
    const LAZY: &[&str] = &[r"a*?", r"a+?b", r"a??", r"a{1,2}?", r"(?U)a*", r"[a-z]+?x", r"(?U:a+)b", r"(ab)*?"];
    const NAMED: &[&str] = &[r"(?P<n>a)", r"(?<n>a)b", r"(?P<word>[a-z]+)", r"x(?P<y>y)?"];
    match t.below(3) {
        0 => (t.pick(LOOK).to_string(), "look"),
        1 => (t.pick(LAZY).to_string(), "lazy"),
        _ => (t.pick(NAMED).to_string(), "named"),
    }
}

// ---------------------------------------------------------------------------
// strings from a regex HIR

pub fn sample_hir(h: &Hir, t: &mut Tape, out: &mut String) {
    match h.kind() {
        HirKind::Empty | HirKind::Look(_) => {}
        HirKind::Literal(l) => out.push_str(&String::from_utf8_lossy(&l.0)),
        HirKind::Class(Class::Unicode(c)) => {
            let rs = c.ranges();
            if rs.is_empty() {
                return;
            }
            // prefer small ranges / interesting ends
            let r = rs[t.below(rs.len())];
            let (lo, hi) = (r.start() as u32, r.end() as u32);
            let cp = match t.below(4) {
                0 => lo,
                1 => hi,
                2 => lo + (hi - lo) / 2,
                _ => lo + (t.below(256) as u32).min(hi - lo),
            };
            out.push(char::from_u32(cp).unwrap_or(r.start()));
        }
        HirKind::Class(Class::Bytes(c)) => {
            let rs = c.ranges();
            if rs.is_empty() {
                return;
            }
            let r = rs[t.below(rs.len())];
            let b = if t.chance(128) { r.start() } else { r.end() };
            if b < 0x80 {
                out.push(b as char);
            }
        }
        HirKind::Repetition(r) => {
            let min = r.min as usize;
            let max = r.max.map(|m| m as usize).unwrap_or(min + 3).min(min + 3);
            let n = min + t.below(max - min + 1);
            for _ in 0..n {
                sample_hir(&r.sub, t, out);
            }
        }
        HirKind::Capture(c) => sample_hir(&c.sub, t, out),
        HirKind::Concat(v) => {
            for x in v {
                sample_hir(x, t, out);
            }
        }
        HirKind::Alternation(v) => sample_hir(&v[t.below(v.len())], t, out),
    }
}

pub const ALPHABET: &[char] = &[
    'a', 'b', 'c', 'i', 'f', 'n', 't', 'x', 'e', 'A', 'B', 'Z', '0', '1', '2', '9', '_', ' ', '\n', '\t', '=', '+', '-', '.', '(', ')', '*', '"', '\\', '#', '/',
    'é', 'ü', 'λ', 'σ', '日', '本', '€', '𝔘', 'ß', '\u{a0}', '\u{2003}', '\u{301}', 'Ã', '©', '\u{212a}', 'k', 'K', '$', '^', '|', '[', ']', '{', '}', '?', ',',
];

/// one-step mutation of a string (near miss)
pub fn mutate(s: &str, t: &mut Tape) -> String {
    let mut cs: Vec<char> = s.chars().collect();
    match t.below(8) {
        0 if !cs.is_empty() => {
            let i = t.below(cs.len());
            cs.remove(i);
        }
        1 if !cs.is_empty() => {
            let i = t.below(cs.len());
            let c = cs[i];
            cs.insert(i, c);
        }
        2 if !cs.is_empty() => {
            let i = t.below(cs.len());
            let c = cs[i] as u32;
            let n = if t.chance(128) { c + 1 } else { c.saturating_sub(1) };
            cs[i] = char::from_u32(n).unwrap_or('a');
        }
        3 if !cs.is_empty() => {
            let i = t.below(cs.len());
            let c = cs[i];
            let sw: Vec<char> = if c.is_lowercase() { c.to_uppercase().collect() } else { c.to_lowercase().collect() };
            cs.splice(i..i + 1, sw);
        }
        4 => cs.push(*t.pick(ALPHABET)),
        5 => cs.insert(0, *t.pick(ALPHABET)),
        6 if cs.len() >= 2 => {
            let i = t.below(cs.len() - 1);
            cs.swap(i, i + 1);
        }
        _ => {
            if !cs.is_empty() {
                let i = t.below(cs.len());
                cs[i] = *t.pick(ALPHABET);
            } else {
                cs.push(*t.pick(ALPHABET));
            }
        }
    }
    cs.into_iter().collect()
}

// ---------------------------------------------------------------------------
// lexer specs

fn draw_pat(t: &mut Tape, pool: &Pool, lit_bias: u32) -> Pat {
    if t.chance(lit_bias) || pool.res.is_empty() {
        Pat::Lit(t.pick(pool.lits).to_string())
    } else {
        Pat::Re(t.pick(pool.res).to_string())
    }
}

pub struct SpecOpts {
    pub min_pats: usize,
    pub max_pats: usize,
    pub allow_skip: bool,
    pub allow_rename: bool,
    pub allow_unused: bool,
    pub gen_regex_p: u32,
    /// probability (of 256) that regexes are spread over distinct rungs
    pub separate_p: u32,
}

/// Distinct patterns from overlapping pools.
pub fn gen_pats(t: &mut Tape, o: &SpecOpts) -> (Vec<Pat>, &'static str) {
    let pool = &POOLS[t.below(POOLS.len())];
    let n = t.range(o.min_pats, o.max_pats);
    let mut pats: Vec<Pat> = vec![];
    let mut tries = 0;
    while pats.len() < n && tries < 4 * n + 8 {
        tries += 1;
        let p = if t.chance(o.gen_regex_p) {
            let mut f = RxFeatures::default();
            Pat::Re(gen_regex(t, &mut f))
        } else if t.chance(40) {
            {
                let k = t.below(POOLS.len());
                draw_pat(t, &POOLS[k], 100)
            }
        } else {
            draw_pat(t, pool, 110)
        };
        if let Pat::Lit(s) = &p {
            if s.is_empty() {
                continue;
            }
        }
        if !pats.contains(&p) {
            pats.push(p);
        }
    }
    (pats, pool.name)
}

fn fresh_term(t: &mut Tape, taken: &[Term]) -> Option<Term> {
    for _ in 0..4 {
        let cand = match t.weighted(&[5, 3, 1]) {
            0 => Term::Bare(t.pick(BARE_NAMES).to_string()),
            1 => Term::Lit(t.pick(NAME_LITS).to_string()),
            _ => Term::Re(t.pick(NAME_RES).to_string()),
        };
        if !taken.contains(&cand) {
            return Some(cand);
        }
    }
    None
}

/// A lexer spec valid by construction: every pattern listed at most once in
/// `match`, every terminal name mapped from at most one pattern (F9), extra
/// grammar terminals only if there is no `match` or it has a `_`.
pub fn gen_spec(t: &mut Tape, o: &SpecOpts) -> (LexSpec, &'static str) {
    let (pats, pool) = gen_pats(t, o);
    let style = if t.chance(96) { 1 + t.below(255) as u64 * 7919 } else { 0 };
    if !t.chance(176) {
        // no match block: one rung
        return (LexSpec { rungs: None, extra: pats, unused: vec![], style }, pool);
    }
    let n_rungs = 1 + t.below(3);
    let catch = if t.chance(170) { Some(t.below(n_rungs)) } else { None };
    let separate = t.chance(o.separate_p);
    let mut rungs: Vec<Vec<Item>> = vec![vec![]; n_rungs];
    let mut extra = vec![];
    // names already taken: identity names of all patterns (a renamed entry
    // frees its own pattern name only for itself)
    let mut taken: Vec<Term> = pats.iter().map(|p| p.as_term()).collect();
    let mut next_re_rung = 0usize;
    for p in &pats {
        if catch.is_some() && t.chance(72) {
            extra.push(p.clone());
            continue;
        }
        let r = if separate && !p.is_lit() {
            let r = next_re_rung % n_rungs;
            next_re_rung += 1;
            r
        } else {
            t.below(n_rungs)
        };
        let map = if o.allow_rename && t.chance(80) {
            match fresh_term(t, &taken) {
                Some(term) => {
                    taken.push(term.clone());
                    Mapping::To(term)
                }
                None => Mapping::Id,
            }
        } else if o.allow_skip && t.chance(14) {
            Mapping::Skip
        } else {
            Mapping::Id
        };
        rungs[r].push(Item::Entry { pat: p.clone(), map });
    }
    if o.allow_skip && t.chance(70) {
        let n = 1 + t.below(2);
        for _ in 0..n {
            let p = Pat::Re(t.pick(SKIPS).to_string());
            let listed = rungs.iter().flatten().any(|it| matches!(it, Item::Entry { pat, .. } if *pat == p));
            if !listed && !extra.contains(&p) {
                let r = t.below(n_rungs);
                rungs[r].push(Item::Entry { pat: p, map: Mapping::Skip });
            }
        }
    }
    if let Some(c) = catch {
        let at = t.below(rungs[c].len() + 1);
        rungs[c].insert(at, Item::CatchAll);
    }
    // every rung needs an item: fill empty rungs by dropping them
    rungs.retain(|r| !r.is_empty());
    if rungs.is_empty() {
        return (LexSpec { rungs: None, extra: pats, unused: vec![], style }, pool);
    }
    let mut spec = LexSpec { rungs: Some(rungs), extra, unused: vec![], style };
    // the grammar must use at least one terminal
    let terms: Vec<Term> = spec.entries().into_iter().filter_map(|e| e.term).collect();
    if terms.is_empty() {
        let p = Pat::Lit("zz".into());
        if let Some(r) = spec.rungs.as_mut() {
            r[0].push(Item::Entry { pat: p, map: Mapping::Id });
        }
    } else if o.allow_unused && terms.len() >= 2 && t.chance(24) {
        // only match-listed terminals can stay unused
        let listed: Vec<Term> = spec
            .entries()
            .into_iter()
            .filter(|e| !spec.extra.contains(&e.pat))
            .filter_map(|e| e.term)
            .collect();
        if !listed.is_empty() {
            let u = listed[t.below(listed.len())].clone();
            spec.unused.push(u);
        }
    }
    (spec, pool)
}

// ---------------------------------------------------------------------------
// inputs

/// token texts for a pattern: the literal itself, or samples from the regex
pub fn pat_texts(p: &Pat, t: &mut Tape, n: usize) -> Vec<String> {
    match p {
        Pat::Lit(s) => vec![s.clone()],
        Pat::Re(r) => {
            let Ok(h) = crate::lexmodel::parse_hir(r) else { return vec![] };
            (0..n)
                .map(|_| {
                    let mut s = String::new();
                    sample_hir(&h, t, &mut s);
                    s
                })
                .collect()
        }
    }
}

const SEPS: &[&str] = &["", "", " ", "", "\n", "  ", "\t", "\u{a0}", "\u{2003}", " \n", "", ","];

/// Input strings for a lexer: token texts, near misses and random characters
/// glued with and without separators.
pub fn gen_inputs(t: &mut Tape, pats: &[Pat], n: usize, max_pieces: usize) -> Vec<String> {
    let mut texts: Vec<String> = vec![];
    for p in pats {
        texts.extend(pat_texts(p, t, 2));
    }
    texts.retain(|s| !s.is_empty());
    if texts.is_empty() {
        texts.push("a".into());
    }
    let mut out = vec![];
    for _ in 0..n {
        let k = 1 + t.below(max_pieces);
        let mut s = String::new();
        if t.chance(40) {
            s.push_str(*t.pick(SEPS));
        }
        for _ in 0..k {
            match t.weighted(&[10, 3, 2]) {
                0 => s.push_str(t.pick(&texts[..]).as_str()),
                1 => {
                    let base = t.pick(&texts[..]).clone();
                    s.push_str(&mutate(&base, t));
                }
                _ => {
                    let m = 1 + t.below(3);
                    for _ in 0..m {
                        s.push(*t.pick(ALPHABET));
                    }
                }
            }
            s.push_str(*t.pick(SEPS));
        }
        if s.len() > 48 {
            let mut cut = 48;
            while !s.is_char_boundary(cut) {
                cut -= 1;
            }
            s.truncate(cut);
        }
        out.push(s);
    }
    out
}
