#![allow(dead_code, unused_variables, unused_imports, clippy::all)]
//! `lv` - verification harness for lalrpop/lalrpop (property-based testing and fuzzing).
//! See /verif/DESIGN.md.

mod batch;
mod core;
mod gen;
mod gspec;
mod model;
mod grammar_text;
mod lexgen;
mod lexmodel;
mod lexoverlap;
mod props;
mod rtree;
mod run;
mod tape;

use crate::core::{Ctx, Tier};
use std::path::PathBuf;

fn usage() -> ! {
    eprintln!("usage: lv check <ID> [--tier quick|thorough] [--replay <file>]\n       lv list");
    std::process::exit(2)
}

fn main() {
    let args: Vec<String> = std::env::args().collect();
    if args.len() < 2 {
        usage();
    }
    match args[1].as_str() {
        "list" => {
            for (id, _) in props::REGISTRY {
                println!("{id}");
            }
        }
        "check" => {
            if args.len() < 3 {
                usage();
            }
            let id = args[2].clone();
            let mut tier = match std::env::var("VERIF_TIER").as_deref() {
                Ok("thorough") => Tier::Thorough,
                _ => Tier::Quick,
            };
            let mut replay = None;
            let mut i = 3;
            while i < args.len() {
                match args[i].as_str() {
                    "--tier" => {
                        i += 1;
                        tier = match args.get(i).map(|s| s.as_str()) {
                            Some("thorough") => Tier::Thorough,
                            Some("quick") => Tier::Quick,
                            _ => usage(),
                        };
                    }
                    "--replay" => {
                        i += 1;
                        replay = Some(PathBuf::from(args.get(i).cloned().unwrap_or_else(|| usage())));
                    }
                    _ => usage(),
                }
                i += 1;
            }
            let seed = std::env::var("VERIF_SEED")
                .ok()
                .and_then(|s| s.trim().parse::<i64>().ok())
                .map(|v| v as u64)
                .unwrap_or(0);
            let exe = std::env::current_exe().expect("current_exe");
            let root = std::env::var("VERIF_ROOT").map(PathBuf::from).unwrap_or_else(|_| {
                // <root>/target/harness/debug/lv
                exe.ancestors().nth(4).map(|p| p.to_path_buf()).unwrap_or_else(|| PathBuf::from("/verif"))
            });
            let work = root.join("work").join(&id);
            let cli = exe.with_file_name("lalrpop");
            let threads = std::env::var("VERIF_THREADS")
                .ok()
                .and_then(|s| s.parse().ok())
                .unwrap_or_else(|| std::thread::available_parallelism().map(|n| n.get()).unwrap_or(8));
            let ctx = Ctx { id: id.clone(), tier, seed, root, work, cli, exe, threads };
            let Some((_, f)) = props::REGISTRY.iter().find(|(pid, _)| *pid == id) else {
                eprintln!("unknown property id {id}");
                std::process::exit(2);
            };
            if replay.is_none() {
                // scratch is wiped at the start of every run; replay files of
                // the previous run are kept one generation (replay.prev)
                let keep = ctx.work.join("replay");
                let prev = ctx.root.join("work").join(format!("{id}.replay.prev"));
                if keep.exists() {
                    let _ = std::fs::remove_dir_all(&prev);
                    let _ = std::fs::rename(&keep, &prev);
                }
                crate::core::wipe_dir(&ctx.work);
            } else {
                let _ = std::fs::create_dir_all(&ctx.work);
            }
            let code = f(ctx, replay);
            std::process::exit(code);
        }
        other => {
            if let Some(code) = props::hidden_subcommand(other, &args[2..]) {
                std::process::exit(code);
            }
            usage()
        }
    }
}
