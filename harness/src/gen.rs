//! Generators: tape -> GSpec (valid by construction), tape -> inputs.

use crate::gspec::*;
use crate::model::cfg::Core;
use crate::model::eval::InTok;
use crate::tape::Tape;

#[derive(Clone, Debug)]
pub struct GenOpts {
    pub max_nts: usize,
    pub max_terms: usize,
    pub macros: bool,
    pub reps: bool,
    pub groups: bool,
    pub inline: bool,
    pub markers: bool,
    pub fallible: bool,
    pub default_actions: bool,
    pub unit_nts: bool,
    pub multi_pub: bool,
    /// probability (of 256) of the built-in lexer
    pub builtin: u32,
    pub bind_forms: bool,
    pub loc_types: bool,
    pub payload_tokens: bool,
    pub bare_terminals: bool,
    /// chance (of 256) of inserting another @L/@R into an alternative
    pub marker_chance: u32,
    /// weight of the empty alternative shape
    pub eps_weight: u32,
    pub macro_weight: u32,
    pub rep_weight: u32,
    pub group_weight: u32,
    pub min_macros: usize,
    /// chance (of 256) that a user action is fallible
    pub fallible_chance: u32,
    /// also generate the Clone-only location type
    pub clone_only_loc: bool,
    /// number of small non-recursive helper nonterminals spliced into the
    /// alternatives of the others (inlining candidates, C14)
    pub helpers: usize,
    /// C13: prefer conditional macros and make sure every macro is instantiated
    pub macro_focus: bool,
    /// chance (of 256) of splicing the "shared prefix" family: alternatives
    /// with a common prefix continued by a terminal, by a nonterminal starting
    /// with that terminal, and by an empty non-inlined nonterminal (the state
    /// after the prefix reduces the empty production with a real lookahead
    /// while its successor states consume the prefix only optionally)
    pub shared_prefix: u32,
    /// C19: sometimes add a generic grammar parameter with a where clause
    pub generics: bool,
}

impl GenOpts {
    pub fn full() -> GenOpts {
        GenOpts {
            max_nts: 5,
            max_terms: 6,
            macros: true,
            reps: true,
            groups: true,
            inline: true,
            markers: true,
            fallible: true,
            default_actions: true,
            unit_nts: true,
            multi_pub: true,
            builtin: 40,
            bind_forms: true,
            loc_types: true,
            payload_tokens: true,
            bare_terminals: true,
            marker_chance: 36,
            eps_weight: 14,
            macro_weight: 22,
            rep_weight: 30,
            group_weight: 18,
            min_macros: 0,
            fallible_chance: 40,
            clone_only_loc: false,
            helpers: 0,
            macro_focus: false,
            shared_prefix: 0,
            generics: false,
        }
    }
    pub fn plain() -> GenOpts {
        GenOpts {
            max_nts: 6,
            max_terms: 6,
            macros: false,
            reps: false,
            groups: false,
            inline: false,
            markers: false,
            fallible: false,
            default_actions: false,
            unit_nts: false,
            multi_pub: true,
            builtin: 0,
            bind_forms: false,
            loc_types: false,
            payload_tokens: false,
            bare_terminals: false,
            marker_chance: 0,
            eps_weight: 14,
            macro_weight: 0,
            rep_weight: 0,
            group_weight: 0,
            min_macros: 0,
            fallible_chance: 0,
            clone_only_loc: false,
            helpers: 0,
            macro_focus: false,
            shared_prefix: 0,
            generics: false,
        }
    }
}

pub const EXTERN_NAMES: [&str; 8] = ["a", "b", "c", "d", "e", "f", "p", "q"];

pub fn extern_term(kind: u32, bare: bool) -> TermSpec {
    let n = EXTERN_NAMES[kind as usize];
    let (spell, display) = if bare {
        (format!("T{}", n.to_uppercase()), format!("T{}", n.to_uppercase()))
    } else {
        (format!("\"{n}\""), format!("\"{n}\""))
    };
    let ty = match kind {
        6 => Ty::U32,
        7 => Ty::Tup(vec![Ty::U32, Ty::U32]),
        _ => Ty::Tok,
    };
    TermSpec { spell, display, kind, ty, texts: vec![], cfg: None }
}

pub fn builtin_terms() -> Vec<TermSpec> {
    let lit = |s: &str| TermSpec {
        spell: format!("\"{s}\""),
        display: format!("\"{s}\""),
        kind: 0,
        ty: Ty::StrRef,
        texts: vec![s.to_string()],
        cfg: None,
    };
    let re = |r: &str, texts: &[&str]| TermSpec {
        spell: format!("r\"{r}\""),
        display: format!("r#\"{r}\"#"),
        kind: 0,
        ty: Ty::StrRef,
        texts: texts.iter().map(|s| s.to_string()).collect(),
        cfg: None,
    };
    vec![
        lit("a"),
        lit("b"),
        re("[0-9]+", &["0", "7", "42", "1234567"]),
        lit("("),
        lit(")"),
        lit("+"),
        re("[x-z]+", &["x", "yz", "zzzz"]),
        lit(";"),
    ]
}

#[derive(Clone, Copy, PartialEq, Eq, Debug)]
enum Mode {
    UserStr,
    DefaultOne,
    Unit,
    DefaultFree,
}

struct G<'t, 'a> {
    t: &'t mut Tape<'a>,
    o: &'t GenOpts,
    spec: GSpec,
    modes: Vec<Mode>,
    n_nts: usize,
    /// indices of macro definitions (in spec.nts)
    macros: Vec<usize>,
    var: usize,
}

impl<'t, 'a> G<'t, 'a> {
    fn term(&mut self) -> SymKind {
        SymKind::T(self.t.below(self.spec.terms.len()))
    }
    fn unit_term(&mut self) -> Option<usize> {
        let c: Vec<usize> = (0..self.spec.terms.len()).filter(|&i| matches!(self.spec.terms[i].ty, Ty::Tok | Ty::StrRef)).collect();
        if c.is_empty() {
            None
        } else {
            Some(c[self.t.below(c.len())])
        }
    }
    fn any_nt(&mut self) -> SymKind {
        SymKind::N(self.t.below(self.n_nts))
    }
    fn declared_nts(&self) -> Vec<usize> {
        (0..self.n_nts).filter(|&i| matches!(self.modes[i], Mode::UserStr | Mode::Unit)).collect()
    }
    fn str_nts(&self) -> Vec<usize> {
        (0..self.n_nts).filter(|&i| self.modes[i] == Mode::UserStr).collect()
    }

    /// a base symbol: terminal or nonterminal. `declared_only`: restrict
    /// nonterminals to those with a declared type (keeps inference acyclic).
    fn base(&mut self, declared_only: bool) -> SymKind {
        if self.t.chance(120) {
            if declared_only {
                let d = self.declared_nts();
                if !d.is_empty() {
                    return SymKind::N(d[self.t.below(d.len())]);
                }
            } else {
                return self.any_nt();
            }
        }
        self.term()
    }

    /// possibly decorated symbol
    fn sym(&mut self, depth: usize, declared_only: bool) -> SymKind {
        let w_rep = if self.o.reps && depth < 2 { self.o.rep_weight } else { 0 };
        let w_grp = if self.o.groups && depth < 2 { self.o.group_weight } else { 0 };
        let w_mac = if self.o.macros && !self.macros.is_empty() && depth < 2 { self.o.macro_weight } else { 0 };
        match self.t.weighted(&[186, w_rep, w_grp, w_mac]) {
            1 => {
                let inner = if self.t.chance(70) { self.sym(depth + 1, declared_only) } else { self.base(declared_only) };
                let op = *self.t.pick(&[RepOp::Question, RepOp::Star, RepOp::Plus]);
                // `X??` / `X*?` style nesting makes grammars ambiguous; one level of repeat is plenty
                let inner = match inner {
                    SymKind::Rep(..) => self.base(declared_only),
                    k => k,
                };
                SymKind::Rep(Box::new(inner), op)
            }
            2 => {
                let n = 1 + self.t.below(3);
                let mut items = vec![];
                for _ in 0..n {
                    let k = if self.t.chance(60) { self.sym(depth + 1, declared_only) } else { self.base(declared_only) };
                    items.push(SymSpec::plain(k));
                }
                // selection inside the group
                if n >= 2 && self.t.chance(128) {
                    let pick = self.t.below(n);
                    items[pick].bind = Bind::Choose;
                    if n == 3 && self.t.chance(80) {
                        items[(pick + 1) % 3].bind = Bind::Choose;
                    }
                }
                SymKind::Group(items)
            }
            3 => {
                let m = self.macros[self.t.below(self.macros.len())];
                let arity = self.spec.nts[m].params.len();
                let mut args = vec![];
                for pi in 0..arity {
                    // parameters named K* are condition parameters: need quoted literals
                    if self.spec.nts[m].params[pi].starts_with('K') {
                        let lits: Vec<usize> =
                            (0..self.spec.terms.len()).filter(|&i| self.spec.terms[i].spell.starts_with('"')).collect();
                        if lits.is_empty() {
                            return self.base(declared_only);
                        }
                        args.push(SymKind::T(lits[self.t.below(lits.len())]));
                    } else if self.t.chance(50) {
                        args.push(self.sym(depth + 1, true));
                    } else {
                        args.push(self.base(true));
                    }
                }
                SymKind::Macro(m, args)
            }
            _ => self.base(declared_only),
        }
    }

    fn fresh(&mut self) -> String {
        // names are unique but deliberately NOT in alphabetical order of
        // appearance (a `<>` expanded in sorted-name order must be visible)
        self.var += 1;
        let letter = *self.t.pick(&["v", "a", "z", "m", "b", "y", "k"]);
        format!("{}{}", letter, self.var)
    }

    /// the raw symbol list of an alternative of nonterminal `ni`
    fn alt_syms(&mut self, ni: usize, ai: usize, declared_only: bool) -> Vec<SymKind> {
        let nterms = self.spec.terms.len();
        let lead = SymKind::T((ai + ni * 2 + self.t.below(2)) % nterms);
        let shape = self.t.weighted(&[40, 50, 28, 22, 26, self.o.eps_weight, 60]);
        let me = SymKind::N(ni);
        match shape {
            0 => vec![lead],
            1 => {
                let mut v = vec![lead, self.sym(0, declared_only)];
                if self.t.chance(90) {
                    v.push(self.term());
                }
                v
            }
            2 if !declared_only || matches!(self.modes[ni], Mode::UserStr | Mode::Unit) => {
                vec![me, self.term(), self.sym(0, declared_only)]
            }
            3 if !declared_only || matches!(self.modes[ni], Mode::UserStr | Mode::Unit) => {
                vec![self.sym(0, declared_only), self.term(), me]
            }
            4 if !declared_only || matches!(self.modes[ni], Mode::UserStr | Mode::Unit) => {
                let close = self.term();
                vec![lead, me, close]
            }
            5 => vec![],
            _ => {
                let n = 1 + self.t.below(4);
                (0..n).map(|_| self.sym(0, declared_only)).collect()
            }
        }
    }

    fn add_markers(&mut self, syms: &mut Vec<SymKind>) {
        if !self.o.markers {
            return;
        }
        while self.t.chance(self.o.marker_chance) && syms.len() < 6 {
            let pos = self.t.below(syms.len() + 1);
            let m = if self.t.chance(128) { SymKind::L } else { SymKind::R };
            syms.insert(pos, m);
        }
    }

    fn ty_is_str(&self, k: &SymKind) -> bool {
        matches!(k, SymKind::N(n) if self.modes[*n] == Mode::UserStr)
    }
    fn tuple_arity(&self, k: &SymKind) -> Option<usize> {
        match k {
            SymKind::T(t) => match &self.spec.terms[*t].ty {
                Ty::Tup(v) => Some(v.len()),
                _ => None,
            },
            SymKind::Group(items) => {
                let sel = selected(&items.iter().map(|s| s.bind.clone()).collect::<Vec<_>>());
                if sel.len() >= 2 {
                    Some(sel.len())
                } else {
                    None
                }
            }
            _ => None,
        }
    }

    fn user_alt(&mut self, ni: usize, ai: usize) -> AltSpec {
        let mut kinds = self.alt_syms(ni, ai, false);
        self.add_markers(&mut kinds);
        let fallible = self.o.fallible && self.t.chance(self.o.fallible_chance);
        let mut syms: Vec<SymSpec> = kinds.into_iter().map(SymSpec::plain).collect();
        let mut style = Style::Angle;
        if syms.is_empty() {
            return AltSpec::new(syms, Act::User { fallible, style });
        }
        let form = if self.o.bind_forms { self.t.weighted(&[60, 50, 60, 30, 30]) } else { 0 };
        match form {
            1 => {
                // `<X>` selection of a non-empty subset
                let mut any = false;
                for s in syms.iter_mut() {
                    if self.t.chance(140) {
                        s.bind = Bind::Choose;
                        any = true;
                    }
                }
                if !any {
                    let k = self.t.below(syms.len());
                    syms[k].bind = Bind::Choose;
                }
                let n = syms.iter().filter(|s| s.bind == Bind::Choose).count();
                if n >= 2 && self.t.chance(110) {
                    style = Style::AngleEach;
                }
            }
            2 | 3 | 4 => {
                let mut any = false;
                for i in 0..syms.len() {
                    if self.t.chance(150) {
                        let name = self.fresh();
                        let is_str = self.ty_is_str(&syms[i].kind);
                        let arity = self.tuple_arity(&syms[i].kind);
                        if form == 4 && arity.is_some() {
                            let pats: Vec<TupPat> = (0..arity.unwrap()).map(|_| TupPat::Name(self.fresh())).collect();
                            syms[i].bind = Bind::Tuple(TupPat::Tup(pats));
                        } else {
                            syms[i].bind = Bind::Name(name, form == 3 && is_str && self.t.chance(160));
                        }
                        any = true;
                    }
                }
                if !any {
                    let k = self.t.below(syms.len());
                    let name = self.fresh();
                    syms[k].bind = Bind::Name(name, false);
                }
                style = if self.t.chance(150) { Style::Names } else { Style::Angle };
            }
            _ => {
                let n = syms.len();
                if n >= 2 && self.t.chance(60) {
                    style = Style::AngleEach;
                }
            }
        }
        AltSpec::new(syms, Act::User { fallible, style })
    }

    fn default_one_alt(&mut self, ni: usize, ai: usize) -> AltSpec {
        // exactly one selected symbol, of type String
        let strs = self.str_nts();
        let chosen = SymKind::N(strs[self.t.below(strs.len())]);
        let mut syms = vec![];
        let shape = self.t.below(4);
        let lead = SymKind::T((ai + ni * 2) % self.spec.terms.len());
        match shape {
            0 => syms.push(SymSpec::plain(chosen)),
            1 => {
                syms.push(SymSpec::plain(lead));
                syms.push(SymSpec { bind: Bind::Choose, kind: chosen });
            }
            2 => {
                syms.push(SymSpec::plain(lead));
                syms.push(SymSpec { bind: Bind::Choose, kind: chosen });
                let t = self.term();
                syms.push(SymSpec::plain(t));
            }
            _ => {
                syms.push(SymSpec { bind: Bind::Choose, kind: chosen });
                let t = self.term();
                syms.push(SymSpec::plain(t));
            }
        }
        AltSpec::new(syms, Act::Default)
    }

    fn gen_macros(&mut self) {
        if !self.o.macros {
            return;
        }
        let n = self.t.below(3).max(self.o.min_macros);
        for _ in 0..n {
            let idx = self.spec.nts.len();
            let lits: Vec<usize> = (0..self.spec.terms.len()).filter(|&i| self.spec.terms[i].spell.starts_with('"')).collect();
            let kind = if self.o.macro_focus && !lits.is_empty() && self.t.chance(170) {
                4 + self.t.below(3)
            } else {
                self.t.below(if lits.is_empty() { 4 } else { 6 })
            };
            let sep = self.term();
            let nt = match kind {
                // Pair<X, Y> = X Y;   (tuple, inferred)
                0 => NtSpec {
                    name: format!("Mp{idx}"),
                    public: false,
                    inline: false,
                    ty: None,
                    params: vec!["X".into(), "Y".into()],
                    cfg: vec![],
                    alts: vec![AltSpec::new(
                        vec![SymSpec::plain(SymKind::Param(0)), SymSpec::plain(SymKind::Param(1))],
                        Act::Default,
                    )],
                },
                // Sep<X> = <X> (sep <X>)*   default tuple (X, Vec<X>)
                1 => NtSpec {
                    name: format!("Ms{idx}"),
                    public: false,
                    inline: false,
                    ty: None,
                    params: vec!["X".into()],
                    cfg: vec![],
                    alts: vec![AltSpec::new(
                        vec![
                            SymSpec::plain(SymKind::Param(0)),
                            SymSpec::plain(SymKind::Rep(
                                Box::new(SymKind::Group(vec![
                                    SymSpec::plain(sep.clone()),
                                    SymSpec { bind: Bind::Choose, kind: SymKind::Param(0) },
                                ])),
                                RepOp::Star,
                            )),
                        ],
                        Act::Default,
                    )],
                },
                // W<X>: String = { <a:X> => r!(a), sep <a:X> <b:X> => r!(a, b) }
                2 => {
                    let (a, b, c) = (self.fresh(), self.fresh(), self.fresh());
                    NtSpec {
                        name: format!("Mw{idx}"),
                        public: false,
                        inline: self.o.inline && self.t.chance(60),
                        ty: Some(Ty::Str),
                        params: vec!["X".into()],
                        cfg: vec![],
                        alts: vec![
                            AltSpec::new(
                                vec![SymSpec { bind: Bind::Name(a, false), kind: SymKind::Param(0) }],
                                Act::User { fallible: false, style: Style::Names },
                            ),
                            AltSpec::new(
                                vec![
                                    SymSpec::plain(sep.clone()),
                                    SymSpec { bind: Bind::Name(b, false), kind: SymKind::Param(0) },
                                    SymSpec { bind: Bind::Name(c, false), kind: SymKind::Param(0) },
                                ],
                                Act::User { fallible: false, style: Style::Angle },
                            ),
                        ],
                    }
                }
                // O<X> = X?   (Option, inferred)
                3 => NtSpec {
                    name: format!("Mo{idx}"),
                    public: false,
                    inline: false,
                    ty: None,
                    params: vec!["X".into()],
                    cfg: vec![],
                    alts: vec![AltSpec::new(
                        vec![SymSpec::plain(SymKind::Rep(Box::new(SymKind::Param(0)), RepOp::Question))],
                        Act::Default,
                    )],
                },
                // T<X, K>: String = several alternatives guarded by different conditions on
                // the same parameter (different regexes / literals), plus an unconditional one
                6 => {
                    let nterms = self.spec.terms.len();
                    let regexes = ["^[a-c]$", "[b-e]", "^a", "[d-q]$", "^[^ab]", "b|c|p"];
                    let n_alts = 2 + self.t.below(3);
                    let mut alts = vec![];
                    for ai in 0..n_alts {
                        let lit = lits[self.t.below(lits.len())];
                        let raw = self.spec.terms[lit].spell.trim_matches('"').to_string();
                        let (op, rhs) = match self.t.below(4) {
                            0 => (CondOp::Eq, raw),
                            1 => (CondOp::Ne, raw),
                            2 => (CondOp::Match, regexes[self.t.below(regexes.len())].to_string()),
                            _ => (CondOp::NotMatch, regexes[self.t.below(regexes.len())].to_string()),
                        };
                        alts.push(AltSpec {
                            cond: Some(Cond { param: 1, op, rhs }),
                            ..AltSpec::new(
                                vec![SymSpec { bind: Bind::Choose, kind: SymKind::Param(0) }, SymSpec::plain(SymKind::T((idx + ai) % nterms))],
                                Act::User { fallible: false, style: Style::Angle },
                            )
                        });
                    }
                    alts.push(AltSpec::new(
                        vec![SymSpec { bind: Bind::Choose, kind: SymKind::Param(0) }],
                        Act::User { fallible: false, style: Style::Angle },
                    ));
                    NtSpec { name: format!("Mt{idx}"), public: false, inline: false, ty: Some(Ty::Str), params: vec!["X".into(), "K".into()], cfg: vec![], alts }
                }
                // C<X, K>: String = { <X> sep if K == "lit" => .., <X> if K != "lit" => .. }
                _ => {
                    let lit = lits[self.t.below(lits.len())];
                    let raw = self.spec.terms[lit].spell.trim_matches('"').to_string();
                    let (op1, op2, rhs) = if kind == 4 {
                        (CondOp::Eq, CondOp::Ne, raw)
                    } else {
                        (CondOp::Match, CondOp::NotMatch, format!("^[{}x]$", raw))
                    };
                    NtSpec {
                        name: format!("Mc{idx}"),
                        public: false,
                        inline: false,
                        ty: Some(Ty::Str),
                        params: vec!["X".into(), "K".into()],
                        cfg: vec![],
                        alts: vec![
                            AltSpec {
                                cond: Some(Cond { param: 1, op: op1, rhs: rhs.clone() }),
                                ..AltSpec::new(
                                    vec![SymSpec { bind: Bind::Choose, kind: SymKind::Param(0) }, SymSpec::plain(sep.clone())],
                                    Act::User { fallible: false, style: Style::Angle },
                                )
                            },
                            AltSpec {
                                cond: Some(Cond { param: 1, op: op2, rhs }),
                                ..AltSpec::new(
                                    vec![SymSpec { bind: Bind::Choose, kind: SymKind::Param(0) }],
                                    Act::User { fallible: false, style: Style::Angle },
                                )
                            },
                        ],
                    }
                }
            };
            self.spec.nts.push(nt);
            self.macros.push(idx);
        }
    }
}

/// Terminals for a generated grammar.
pub fn gen_terms(t: &mut Tape, o: &GenOpts, builtin: bool) -> Vec<TermSpec> {
    if builtin {
        let all = builtin_terms();
        let n = 2 + t.below(all.len().min(o.max_terms) - 1);
        return all.into_iter().take(n).collect();
    }
    let n = 2 + t.below(o.max_terms.min(6) - 1);
    let mut terms = vec![];
    for k in 0..n as u32 {
        let bare = o.bare_terminals && t.chance(40);
        terms.push(extern_term(k, bare));
    }
    if o.payload_tokens {
        if t.chance(90) {
            terms.push(extern_term(6, false));
        }
        if t.chance(60) {
            terms.push(extern_term(7, false));
        }
    }
    terms
}

/// G-full: a decorated grammar, valid by construction for the harness's type
/// discipline (LALRPOP may still reject it for LR conflicts).
pub fn gen_full(t: &mut Tape, o: &GenOpts) -> GSpec {
    let builtin = t.chance(o.builtin);
    let loc = if builtin || !o.loc_types {
        LocTy::Usize
    } else {
        if o.clone_only_loc {
            *t.pick(&[LocTy::Usize, LocTy::Newtype, LocTy::CloneOnly])
        } else {
            *t.pick(&[LocTy::Usize, LocTy::Usize, LocTy::Newtype])
        }
    };
    let lexer = if builtin { Lexer::Builtin } else { Lexer::Extern { loc } };
    let terms = gen_terms(t, o, builtin);
    let n_nts = 1 + t.below(o.max_nts);
    let mut modes = vec![];
    for i in 0..n_nts {
        let m = if i == 0 {
            Mode::UserStr
        } else {
            match t.weighted(&[
                150,
                if o.default_actions { 40 } else { 0 },
                if o.unit_nts { 24 } else { 0 },
                if o.default_actions { 30 } else { 0 },
            ]) {
                1 => Mode::DefaultOne,
                2 => Mode::Unit,
                3 => Mode::DefaultFree,
                _ => Mode::UserStr,
            }
        };
        modes.push(m);
    }
    let spec = GSpec { lexer, terms, nts: vec![], declare_error: true, cx_name: "cx".into(), lt_name: "cx".into(), extra: None };
    let mut g = G { t, o, spec, modes, n_nts, macros: vec![], var: 0 };
    // placeholders for the ordinary nonterminals so indices are stable
    for i in 0..n_nts {
        g.spec.nts.push(NtSpec {
            name: format!("N{i}"),
            public: i == 0,
            inline: false,
            ty: None,
            alts: vec![],
            cfg: vec![],
            params: vec![],
        });
    }
    g.gen_macros();
    for ni in 0..n_nts {
        let mode = g.modes[ni];
        let n_alts = match mode {
            Mode::DefaultFree => 1,
            _ => 1 + g.t.below(4),
        };
        let mut alts = vec![];
        for ai in 0..n_alts {
            let alt = match mode {
                Mode::UserStr => g.user_alt(ni, ai),
                Mode::DefaultOne => g.default_one_alt(ni, ai),
                Mode::Unit => {
                    let mut kinds = g.alt_syms(ni, ai, false);
                    g.add_markers(&mut kinds);
                    let syms: Vec<SymSpec> = kinds.into_iter().map(SymSpec::plain).collect();
                    let act = if syms.is_empty() || g.t.chance(128) { Act::UnitUser } else { Act::Default };
                    AltSpec::new(syms, act)
                }
                Mode::DefaultFree => {
                    let mut kinds = g.alt_syms(ni, ai, true);
                    if kinds.is_empty() {
                        kinds.push(g.term());
                    }
                    let mut syms: Vec<SymSpec> = kinds.into_iter().map(SymSpec::plain).collect();
                    if syms.len() >= 2 && g.t.chance(100) {
                        let k = g.t.below(syms.len());
                        syms[k].bind = Bind::Choose;
                    }
                    AltSpec::new(syms, Act::Default)
                }
            };
            alts.push(alt);
        }
        let ty = match mode {
            Mode::UserStr => Some(Ty::Str),
            Mode::Unit => Some(Ty::Unit),
            Mode::DefaultOne => {
                if g.t.chance(70) {
                    Some(Ty::Str)
                } else {
                    None
                }
            }
            Mode::DefaultFree => None,
        };
        g.spec.nts[ni].alts = alts;
        g.spec.nts[ni].ty = ty;
    }
    // shared-prefix family (targets empty reductions below the start state)
    if g.o.shared_prefix > 0 && g.t.chance(g.o.shared_prefix) && g.spec.terms.len() >= 4 && g.spec.lexer != Lexer::Builtin {
        let nterms = g.spec.terms.len();
        let base = g.spec.nts.len();
        let off = g.t.below(nterms);
        let tm = |i: usize| SymKind::T((off + i) % nterms);
        let (ta, t0, t1, tz) = (tm(0), tm(1), tm(2), tm(3));
        let user = |syms: Vec<SymKind>| AltSpec::new(syms.into_iter().map(SymSpec::plain).collect(), Act::User { fallible: false, style: Style::Angle });
        let mk = |name: String, alts: Vec<AltSpec>| NtSpec { name, public: false, inline: false, ty: Some(Ty::Str), alts, cfg: vec![], params: vec![] };
        // indices: base = SPX, base+1 = SPA, base+2 = SPB, base+3 = SPE
        let (spx, spa, spb, spe) = (base, base + 1, base + 2, base + 3);
        let two_prefix = g.t.chance(90);
        let prefix = |extra: Vec<SymKind>| -> Vec<SymKind> {
            let mut v = vec![SymKind::N(spa)];
            if two_prefix {
                v.push(tm(0));
            }
            v.extend(extra);
            v
        };
        let mut x_alts = if g.t.chance(100) {
            // the empty nonterminal closes every alternative: it is reduced at end of
            // input (or before a follower) in the states behind the prefix, behind the
            // terminal and behind the nonterminal starting with that terminal
            vec![
                user(prefix(vec![SymKind::N(spe)])),
                user(prefix(vec![t0.clone(), SymKind::N(spe)])),
                user(prefix(vec![SymKind::N(spb), SymKind::N(spe)])),
            ]
        } else {
            vec![user(prefix(vec![t0.clone()])), user(prefix(vec![SymKind::N(spb)])), user(prefix(vec![SymKind::N(spe), tz.clone()]))]
        };
        if g.t.chance(80) {
            // the empty nonterminal at the very end (reduced at end of input or before a follower)
            x_alts.push(user(prefix(vec![tm(2), SymKind::N(spe)])));
        }
        let e_syms: Vec<SymKind> = match g.t.below(4) {
            0 => vec![],
            1 => vec![SymKind::L],
            2 => vec![SymKind::R],
            _ => vec![SymKind::L, SymKind::R],
        };
        g.spec.nts.push(mk(format!("SPX{base}"), x_alts));
        g.spec.nts.push(mk(format!("SPA{base}"), vec![user(vec![ta.clone()])]));
        g.spec.nts.push(mk(format!("SPB{base}"), vec![user(vec![t0.clone(), t1.clone()])]));
        g.spec.nts.push(mk(format!("SPE{base}"), vec![user(e_syms)]));
        if g.t.chance(128) {
            g.spec.nts[spx].public = true;
        } else {
            let lead = SymKind::T(g.t.below(nterms));
            g.spec.nts[0].alts.push(user(vec![lead, SymKind::N(spx)]));
        }
    }
    // C13: every macro gets at least two instantiations with different arguments
    if g.o.macro_focus {
        let macros = g.macros.clone();
        for m in macros {
            for round in 0..2 {
                let arity = g.spec.nts[m].params.len();
                let mut args = vec![];
                for pi in 0..arity {
                    if g.spec.nts[m].params[pi].starts_with('K') {
                        let lits: Vec<usize> =
                            (0..g.spec.terms.len()).filter(|&i| g.spec.terms[i].spell.starts_with('"')).collect();
                        if lits.is_empty() {
                            args.clear();
                            break;
                        }
                        args.push(SymKind::T(lits[(g.t.below(lits.len()) + round) % lits.len()]));
                    } else if g.t.chance(128) {
                        args.push(g.term());
                    } else {
                        args.push(g.base(true));
                    }
                }
                if args.len() != arity {
                    continue;
                }
                let lead = SymKind::T((m + round) % g.spec.terms.len());
                let alt = AltSpec::new(
                    vec![SymSpec::plain(lead), SymSpec::plain(SymKind::Macro(m, args))],
                    Act::User { fallible: false, style: Style::Angle },
                );
                g.spec.nts[0].alts.push(alt);
            }
        }
    }
    // helper nonterminals (small, non-recursive, user actions) spliced into others
    let n_helpers = if g.o.helpers > 0 { 1 + g.t.below(g.o.helpers) } else { 0 };
    let mut helper_idx: Vec<usize> = vec![];
    for h in 0..n_helpers {
        let idx = g.spec.nts.len();
        let nterms = g.spec.terms.len();
        let mut alts = vec![];
        let n_alts = 1 + g.t.below(3);
        for ai in 0..n_alts {
            let kinds: Vec<SymKind> = match g.t.weighted(&[60, 40, 24, if helper_idx.is_empty() { 0 } else { 40 }]) {
                1 => vec![SymKind::T((h + ai) % nterms), SymKind::T(g.t.below(nterms))],
                2 => vec![],
                3 => vec![SymKind::T((h + ai + 1) % nterms), SymKind::N(helper_idx[g.t.below(helper_idx.len())])],
                _ => vec![SymKind::T((h + ai + g.t.below(2)) % nterms)],
            };
            let fallible = g.o.fallible && g.t.chance(g.o.fallible_chance);
            alts.push(AltSpec::new(kinds.into_iter().map(SymSpec::plain).collect(), Act::User { fallible, style: Style::Angle }));
        }
        g.spec.nts.push(NtSpec { name: format!("H{idx}"), public: false, inline: false, ty: Some(Ty::Str), alts, cfg: vec![], params: vec![] });
        helper_idx.push(idx);
    }
    for &hi in &helper_idx {
        let sites = 1 + g.t.below(3);
        for _ in 0..sites {
            let ni = g.t.below(n_nts);
            if g.modes[ni] != Mode::UserStr || g.spec.nts[ni].alts.is_empty() {
                continue;
            }
            let ai = g.t.below(g.spec.nts[ni].alts.len().min(2));
            let alt = &mut g.spec.nts[ni].alts[ai];
            if alt.syms.len() >= 6 {
                continue;
            }
            let pos = g.t.below(alt.syms.len() + 1);
            alt.syms.insert(pos, SymSpec::plain(SymKind::N(hi)));
        }
    }
    if g.o.generics && g.t.chance(170) {
        g.spec.extra = Some(match (&g.spec.lexer, g.t.below(3)) {
            (_, 0) => ExtraParam::Simple,
            (Lexer::Builtin, _) => ExtraParam::OutlivesInput,
            (Lexer::Extern { .. }, _) => ExtraParam::OutlivesUsedLifetime,
        });
    }
    // pub / inline flags
    let reach = reach_matrix(&g.spec);
    for ni in 1..n_nts {
        let recursive = reach[ni][ni];
        if g.o.inline && !recursive && g.t.chance(70) {
            g.spec.nts[ni].inline = true;
        } else if g.o.multi_pub && g.t.chance(40) {
            g.spec.nts[ni].public = true;
        }
    }
    g.spec
}

/// which nonterminals (by index) are mentioned by the alternatives of each one (transitively)
pub fn reach_matrix(s: &GSpec) -> Vec<Vec<bool>> {
    let n = s.nts.len();
    let mut r = vec![vec![false; n]; n];
    fn refs(k: &SymKind, out: &mut Vec<usize>) {
        match k {
            SymKind::N(n) => out.push(*n),
            SymKind::Macro(m, args) => {
                out.push(*m);
                args.iter().for_each(|a| refs(a, out));
            }
            SymKind::Rep(x, _) => refs(x, out),
            SymKind::Group(items) => items.iter().for_each(|s| refs(&s.kind, out)),
            _ => {}
        }
    }
    for (i, nt) in s.nts.iter().enumerate() {
        let mut out = vec![];
        for a in &nt.alts {
            for sy in &a.syms {
                refs(&sy.kind, &mut out);
            }
        }
        for j in out {
            r[i][j] = true;
        }
    }
    for k in 0..n {
        for i in 0..n {
            if r[i][k] {
                for j in 0..n {
                    if r[k][j] {
                        r[i][j] = true;
                    }
                }
            }
        }
    }
    r
}

// ------------------------------------------------------------------- inputs

/// Token-level inputs (core terminal indices) for one start symbol:
/// sentences, single-token mutations, random strings, all short strings, empty.
pub fn gen_inputs(
    t: &mut Tape,
    core: &Core,
    start: usize,
    usable_terms: &[usize],
    n_sentences: usize,
    n_random: usize,
    exhaustive_len: usize,
    max_len: usize,
) -> Vec<Vec<usize>> {
    let mut out: Vec<Vec<usize>> = vec![vec![]];
    let nt = usable_terms.len();
    if nt == 0 {
        return out;
    }
    let mut sentences = vec![];
    for i in 0..n_sentences {
        let fuel = 1 + (i % 4) * 3 + t.below(4);
        if let Some(s) = core.sentence(start, t, fuel, max_len) {
            if s.len() <= max_len + 8 && s.iter().all(|x| usable_terms.contains(x)) {
                sentences.push(s);
            }
        }
    }
    for s in &sentences {
        out.push(s.clone());
        // mutations
        for _ in 0..2 {
            let mut m = s.clone();
            match t.below(3) {
                0 if !m.is_empty() => {
                    let p = t.below(m.len());
                    m.remove(p);
                }
                1 => {
                    let p = t.below(m.len() + 1);
                    m.insert(p, usable_terms[t.below(nt)]);
                }
                _ if !m.is_empty() => {
                    let p = t.below(m.len());
                    m[p] = usable_terms[t.below(nt)];
                }
                _ => {}
            }
            out.push(m);
        }
    }
    for _ in 0..n_random {
        let len = 1 + t.below(max_len.min(8));
        out.push((0..len).map(|_| usable_terms[t.below(nt)]).collect());
    }
    // exhaustive short strings
    let mut el = exhaustive_len;
    while el > 0 && nt.pow(el as u32) > 400 {
        el -= 1;
    }
    for len in 1..=el {
        let total = nt.pow(len as u32);
        for code in 0..total {
            let mut c = code;
            let mut v = vec![];
            for _ in 0..len {
                v.push(usable_terms[c % nt]);
                c /= nt;
            }
            out.push(v);
        }
    }
    out.sort();
    out.dedup();
    out
}

/// Attach locations (extern lexer): token i spans 10 i + 3 .. 10 i + 7.
pub fn extern_toks(spec: &GSpec, term_of_core: &[usize], input: &[usize]) -> Vec<InTok> {
    input
        .iter()
        .enumerate()
        .map(|(i, &ct)| {
            let st = &spec.terms[term_of_core[ct]];
            InTok { term: ct, kind: st.kind, idx: i as u32, lo: 10 * i + 3, hi: 10 * i + 7, text: String::new(), builtin: false }
        })
        .collect()
}

/// Assemble text for the built-in lexer with random whitespace; returns the
/// text and the tokens with byte offsets.
pub fn builtin_text(t: &mut Tape, spec: &GSpec, term_of_core: &[usize], input: &[usize]) -> (String, Vec<InTok>) {
    let ws = |t: &mut Tape, allow_empty: bool| -> String {
        let opts: &[&str] = if allow_empty { &["", " ", "  ", "\n", " \t "] } else { &[" ", "  ", "\n", " \t "] };
        t.pick(opts).to_string()
    };
    let mut text = ws(t, true);
    let mut toks = vec![];
    for (i, &ct) in input.iter().enumerate() {
        let st = &spec.terms[term_of_core[ct]];
        let tx = st.texts[t.below(st.texts.len())].clone();
        let lo = text.len();
        text.push_str(&tx);
        let hi = text.len();
        toks.push(InTok { term: ct, kind: 0, idx: i as u32, lo, hi, text: tx, builtin: true });
        text.push_str(&ws(t, i + 1 == input.len()));
    }
    (text, toks)
}

// ------------------------------------------------------------- G-cfg (C03)

/// Context-free skeleton with unit types (no type / action error possible):
/// random alternatives plus template families that random sampling would not
/// reach (LR(1)-not-LALR(1), LR(2), ambiguous, nullable chains, unreachable and
/// unproductive nonterminals), decorated with `? * +`, groups and `#[inline]`.
pub fn gen_cfg(t: &mut Tape) -> (GSpec, Vec<&'static str>) {
    let mut tags = vec![];
    // the template family is drawn first: the LR(1)-not-LALR(1) family wants six terminals
    let tpl = t.weighted(&[110, 60, 18, 14, 14, 14, 16, 20]);
    // "clean" variant: the random part shrinks to a start symbol that only
    // refers to the template, so acceptance depends on the template alone
    let clean = tpl != 0 && t.chance(128);
    let nterms = if tpl == 1 { 6 } else { 2 + t.below(5) };
    let terms: Vec<TermSpec> = (0..nterms as u32).map(|k| extern_term(k, false)).collect();
    let mut spec = GSpec { lexer: Lexer::Extern { loc: LocTy::Usize }, terms, nts: vec![], declare_error: true, cx_name: "cx".into(), lt_name: "cx".into(), extra: None };
    let n_nts = 1 + t.below(6);
    let unit_nt = |name: String, public: bool| NtSpec {
        name,
        public,
        inline: false,
        ty: Some(Ty::Unit),
        alts: vec![],
        cfg: vec![],
        params: vec![],
    };
    for i in 0..n_nts {
        spec.nts.push(unit_nt(format!("N{i}"), i == 0));
    }
    let decorated = t.chance(90);
    if decorated {
        tags.push("decorated(? * + groups)");
    }
    for ni in 0..n_nts {
        let n_alts = 1 + t.below(4);
        for ai in 0..n_alts {
            let shape = t.weighted(&[30, 50, 30, 25, 25, 22, 70]);
            let lead = SymKind::T((ai + ni + t.below(2)) % nterms);
            let rnd = |t: &mut Tape| -> SymKind {
                if t.chance(128) {
                    SymKind::N(t.below(n_nts))
                } else {
                    SymKind::T(t.below(nterms))
                }
            };
            let mut kinds: Vec<SymKind> = match shape {
                0 => vec![lead],
                1 => {
                    let x = rnd(t);
                    let mut v = vec![lead, x];
                    if t.chance(100) {
                        v.push(SymKind::T(t.below(nterms)));
                    }
                    v
                }
                2 => vec![SymKind::N(ni), SymKind::T(t.below(nterms)), rnd(t)],
                3 => vec![rnd(t), SymKind::T(t.below(nterms)), SymKind::N(ni)],
                4 => vec![lead, SymKind::N(ni), SymKind::T(t.below(nterms))],
                5 => vec![],
                _ => {
                    let n = 1 + t.below(4);
                    (0..n).map(|_| rnd(t)).collect()
                }
            };
            if decorated {
                for k in kinds.iter_mut() {
                    if t.chance(40) {
                        let op = *t.pick(&[RepOp::Question, RepOp::Star, RepOp::Plus]);
                        *k = SymKind::Rep(Box::new(k.clone()), op);
                    } else if t.chance(20) {
                        let extra = rnd(t);
                        *k = SymKind::Group(vec![SymSpec::plain(k.clone()), SymSpec::plain(extra)]);
                    }
                }
            }
            let act = if kinds.is_empty() { Act::UnitLit } else { Act::Default };
            spec.nts[ni].alts.push(AltSpec::new(kinds.into_iter().map(SymSpec::plain).collect(), act));
        }
    }
    // template families, spliced in as extra nonterminals referenced from N0
    // (or made `pub` on their own)
    if clean {
        tags.push("clean-template");
        for ni in 0..n_nts {
            spec.nts[ni].alts.clear();
            let lead = SymKind::T(ni % nterms);
            spec.nts[ni].alts.push(AltSpec::new(vec![SymSpec::plain(lead)], Act::Default));
        }
    }
    let tm = |i: usize| SymKind::T(i % nterms);
    let base = spec.nts.len();
    let mut add = |spec: &mut GSpec, name: &str, alts: Vec<Vec<SymKind>>| -> usize {
        let mut nt = unit_nt(name.to_string(), false);
        for a in alts {
            let act = if a.is_empty() { Act::UnitLit } else { Act::Default };
            nt.alts.push(AltSpec::new(a.into_iter().map(SymSpec::plain).collect(), act));
        }
        spec.nts.push(nt);
        spec.nts.len() - 1
    };
    let mut root: Option<usize> = None;
    match tpl {
        1 if nterms >= 6 && t.chance(80) => {
            // a state that has to be split by context, reached directly and through another
            // state M that lies on its lanes and reduces TA = m:
            //   S = X d | Y c | a P d | a R c | a TA z1 | b P c | b R d | b TA z2
            //   TA = m; P = m X; R = m Y; X = e; Y = e
            // LR(1) (and not LALR(1)) unless z1 or z2 is `e` (then M shifts and reduces on `e`
            // in that context only)
            tags.push("template:lr1-not-lalr-with-lane-state");
            let o = t.below(nterms);
            let (a, b, c, d, e, m) = (tm(o), tm(o + 1), tm(o + 2), tm(o + 3), tm(o + 4), tm(o + 5));
            let z1 = tm(t.below(nterms));
            let z2 = tm(t.below(nterms));
            let x = add(&mut spec, "TX", vec![vec![e.clone()]]);
            let y = add(&mut spec, "TY", vec![vec![e.clone()]]);
            let an = add(&mut spec, "TA", vec![vec![m.clone()]]);
            let pn = add(&mut spec, "TP", vec![vec![m.clone(), SymKind::N(x)]]);
            let rn = add(&mut spec, "TR", vec![vec![m.clone(), SymKind::N(y)]]);
            let s = add(
                &mut spec,
                "TS",
                vec![
                    vec![SymKind::N(x), d.clone()],
                    vec![SymKind::N(y), c.clone()],
                    vec![a.clone(), SymKind::N(pn), d.clone()],
                    vec![a.clone(), SymKind::N(rn), c.clone()],
                    vec![a, SymKind::N(an), z1],
                    vec![b.clone(), SymKind::N(pn), c],
                    vec![b.clone(), SymKind::N(rn), d],
                    vec![b, SymKind::N(an), z2],
                ],
            );
            root = Some(s);
        }
        1 if nterms >= 5 => {
            // LR(1) but not LALR(1): S = a A d | b B d | a B e | b A e; A = c; B = c
            tags.push("template:lr1-not-lalr");
            let o = t.below(nterms);
            let (a, b, c, d, e) = (tm(o), tm(o + 1), tm(o + 2), tm(o + 3), tm(o + 4));
            // the two inner nonterminals derive the same strings: one of
            // several body shapes, optionally right-recursive with shared prefixes
            let an_idx = base;
            let bn_idx = base + 1;
            let f = tm(o + 5);
            let body = |me: usize, shape: usize| -> Vec<Vec<SymKind>> {
                match shape {
                    0 => vec![vec![c.clone()]],
                    1 => vec![vec![c.clone(), c.clone()]],
                    2 => vec![vec![c.clone(), f.clone(), SymKind::N(me)], vec![c.clone(), f.clone()], vec![c.clone()]],
                    3 => vec![vec![c.clone(), SymKind::N(me)], vec![c.clone()]],
                    _ => vec![vec![c.clone(), f.clone()], vec![c.clone()]],
                }
            };
            // the right-recursive shape with shared prefixes (2) puts a second undecided state on the lanes
            let shape = t.weighted(&[2, 1, 4, 2, 1]);
            let an = add(&mut spec, "TA", body(an_idx, shape));
            let bn = add(&mut spec, "TB", body(bn_idx, shape));
            let s = add(
                &mut spec,
                "TS",
                vec![
                    vec![a.clone(), SymKind::N(an), d.clone()],
                    vec![b.clone(), SymKind::N(bn), d],
                    vec![a, SymKind::N(bn), e.clone()],
                    vec![b, SymKind::N(an), e],
                ],
            );
            root = Some(s);
        }
        2 if nterms >= 3 => {
            // LR(2): S = A x y | B x z; A = w; B = w
            tags.push("template:lr2");
            let (x, y, z) = (tm(0), tm(1), tm(2));
            let an = add(&mut spec, "TA", vec![vec![y.clone()]]);
            let bn = add(&mut spec, "TB", vec![vec![y.clone()]]);
            let s = add(
                &mut spec,
                "TS",
                vec![vec![SymKind::N(an), x.clone(), y], vec![SymKind::N(bn), x, z]],
            );
            root = Some(s);
        }
        3 => {
            // ambiguous expression
            tags.push("template:ambiguous-expr");
            let s = base;
            add(&mut spec, "TS", vec![vec![SymKind::N(s), tm(0), SymKind::N(s)], vec![tm(1)]]);
            root = Some(s);
        }
        4 if nterms >= 3 => {
            // dangling else
            tags.push("template:dangling-else");
            let s = base;
            add(
                &mut spec,
                "TS",
                vec![
                    vec![tm(0), SymKind::N(s)],
                    vec![tm(0), SymKind::N(s), tm(1), SymKind::N(s)],
                    vec![tm(2)],
                ],
            );
            root = Some(s);
        }
        5 if nterms >= 4 && t.chance(110) => {
            // long nullable tail: TQ = TA TB TC TD with every member nullable, used in front
            // of a terminal: the lookahead of each member is FIRST of a tail of >= 3 nullable
            // symbols plus the inherited lookahead
            tags.push("template:long-nullable-tail");
            let an = add(&mut spec, "TA", vec![vec![], vec![tm(0)]]);
            let bn = add(&mut spec, "TB", vec![vec![], vec![tm(1)]]);
            let cn = add(&mut spec, "TC", vec![vec![], vec![tm(2)]]);
            let dn = add(&mut spec, "TD", vec![vec![], vec![tm(3), SymKind::N(an)]]);
            let q = add(&mut spec, "TQ", vec![vec![SymKind::N(an), SymKind::N(bn), SymKind::N(cn), SymKind::N(dn)]]);
            let s = add(&mut spec, "TS", vec![vec![SymKind::N(q), tm(4)], vec![tm(4), SymKind::N(q), tm(t.below(nterms))]]);
            root = Some(s);
        }
        5 => {
            // nullable chain: S = A B c; A = eps | a; B = eps | b
            tags.push("template:nullable-chain");
            let an = add(&mut spec, "TA", vec![vec![], vec![tm(0)]]);
            let bn = add(&mut spec, "TB", vec![vec![], vec![tm(1)]]);
            let s = add(&mut spec, "TS", vec![vec![SymKind::N(an), SymKind::N(bn), tm(2)], vec![SymKind::N(bn), SymKind::N(an)]]);
            root = Some(s);
        }
        6 => {
            // unproductive nonterminals (F12 shapes live here)
            tags.push("template:unproductive");
            let u = base;
            add(&mut spec, "TU", vec![vec![SymKind::N(u + 1), SymKind::N(u)]]);
            add(&mut spec, "TV", vec![vec![], vec![SymKind::N(u), tm(0), tm(1)]]);
            root = Some(u);
        }
        7 if nterms >= 4 => {
            // bracket family sharing an inner list: lookaheads merge under LALR
            tags.push("template:bracket-family");
            let l = add(&mut spec, "TL", vec![vec![tm(0)], vec![SymKind::N(base), tm(1), tm(0)]]);
            let s = add(
                &mut spec,
                "TS",
                vec![vec![tm(2), SymKind::N(l), tm(2)], vec![tm(3), SymKind::N(l), tm(3)], vec![tm(2), SymKind::N(l), tm(1), tm(3)]],
            );
            root = Some(s);
        }
        _ => {}
    }
    if let Some(r) = root {
        match t.below(3) {
            0 => spec.nts[r].public = true,
            1 => {
                // referenced from N0 in a random context
                let ctx = vec![SymSpec::plain(tm(t.below(nterms))), SymSpec::plain(SymKind::N(r))];
                spec.nts[0].alts.push(AltSpec::new(ctx, Act::Default));
            }
            _ => {
                let ctx = vec![SymSpec::plain(SymKind::N(r)), SymSpec::plain(tm(t.below(nterms)))];
                spec.nts[0].alts.push(AltSpec::new(ctx, Act::Default));
                if t.chance(100) {
                    spec.nts[r].public = true;
                }
            }
        }
    }
    // pub / inline flags on the random part
    let reach = reach_matrix(&spec);
    for ni in 1..n_nts {
        if !reach[ni][ni] && t.chance(50) {
            spec.nts[ni].inline = true;
            if !tags.contains(&"inline") {
                tags.push("inline");
            }
        } else if t.chance(40) {
            spec.nts[ni].public = true;
            if !tags.contains(&"multi-pub") {
                tags.push("multi-pub");
            }
        }
    }
    (spec, tags)
}

// ---------------------------------------------------------- precedence (C12)

/// One annotated nonterminal `E` with binary / prefix / postfix / ternary /
/// atomic alternatives over arbitrary level numbers, listed in non-monotone
/// order, with inherited levels / associativities, plus an outside reference
/// (parenthesised atom) and an optional wrapper start symbol.
pub fn gen_prec(t: &mut Tape) -> GSpec {
    let terms: Vec<TermSpec> = (0..8u32).map(|k| extern_term(k, false)).collect();
    let mut spec = GSpec { lexer: Lexer::Extern { loc: LocTy::Usize }, terms, nts: vec![], declare_error: true, cx_name: "cx".into(), lt_name: "cx".into(), extra: None };
    // N0 = wrapper (pub), N1 = E (annotated), N2 = T (atom with parens)
    let wrapper = t.chance(90);
    let e_idx = 1usize;
    let t_idx = 2usize;
    let user = |syms: Vec<SymKind>| AltSpec::new(syms.into_iter().map(SymSpec::plain).collect(), Act::User { fallible: false, style: Style::Angle });
    let mut n0 = NtSpec { name: "N0".into(), public: wrapper, inline: false, ty: Some(Ty::Str), alts: vec![], cfg: vec![], params: vec![] };
    n0.alts.push(user(vec![SymKind::N(e_idx)]));
    if t.chance(80) {
        // a second use from elsewhere, inside a group / repeat
        n0.alts.push(user(vec![SymKind::T(5), SymKind::Rep(Box::new(SymKind::N(e_idx)), RepOp::Question), SymKind::T(6)]));
    }
    let pool_all = [0u32, 1, 2, 3, 5, 7, 10, 12, 37, 100];
    let n_levels = 1 + t.below(4);
    let mut levels: Vec<u32> = vec![];
    let mut start = t.below(3);
    for _ in 0..n_levels {
        if start >= pool_all.len() {
            break;
        }
        levels.push(pool_all[start]);
        start += 1 + t.below(3);
    }
    let ops = [1usize, 2, 3, 4];
    let mut e = NtSpec { name: "E".into(), public: !wrapper, inline: false, ty: Some(Ty::Str), alts: vec![], cfg: vec![], params: vec![] };
    let n_alts = 2 + t.below(5);
    let atom_at = t.below(n_alts);
    let me = SymKind::N(e_idx);
    let mut cur_lvl = 0u32;
    for ai in 0..n_alts {
        // mostly one operator token per alternative (reusing one makes most grammars ambiguous)
        let op = SymKind::T(ops[(ai + if t.chance(40) { 1 } else { 0 }) % ops.len()]);
        let op2 = SymKind::T(7);
        // 0 atom, 1 binary, 2 prefix, 3 postfix, 4 ternary
        let mut kind = if ai == atom_at { 0 } else { [1usize, 2, 3, 4, 0][t.weighted(&[90, 34, 30, 24, 5])] };
        if levels.len() == 1 && (kind == 1 || kind == 4) && !t.chance(30) {
            // a binary operator on the only (= lowest) level cannot carry an
            // associativity and is ambiguous; keep a few for the reject path
            kind = 2;
        }
        let syms = match kind {
            0 => {
                if t.chance(150) {
                    vec![SymKind::N(t_idx)]
                } else {
                    vec![SymKind::T(0)]
                }
            }
            1 => vec![me.clone(), op, me.clone()],
            2 => vec![op, me.clone()],
            3 => vec![me.clone(), op],
            _ => vec![me.clone(), op, me.clone(), op2, me.clone()],
        };
        let mut alt = user(syms);
        let lvl = if kind == 0 && t.chance(220) {
            levels[0]
        } else if (kind == 1 || kind == 4) && levels.len() > 1 && !t.chance(24) {
            levels[1 + t.below(levels.len() - 1)]
        } else {
            levels[t.below(levels.len())]
        };
        // `precedence` may be omitted when the previous alternative has the wanted level
        let prev_lvl = e.alts.last().map(|_: &AltSpec| cur_lvl);
        if ai == 0 || prev_lvl != Some(lvl) || t.chance(150) {
            alt.prec = Some(lvl);
        }
        cur_lvl = lvl;
        alt.assoc = if kind == 1 || kind == 4 {
            match t.weighted(&[12, 90, 80, 34, 10]) {
                1 => Some(Assoc::Left),
                2 => Some(Assoc::Right),
                3 => Some(Assoc::None),
                4 => Some(Assoc::All),
                _ => None,
            }
        } else {
            match t.weighted(&[200, 14, 14, 10, 14]) {
                1 => Some(Assoc::Left),
                2 => Some(Assoc::Right),
                3 => Some(Assoc::None),
                4 => Some(Assoc::All),
                _ => None,
            }
        };
        let follow_up = (kind == 1 || kind == 4) && alt.assoc.is_some() && alt.assoc != Some(Assoc::All) && e.alts.len() + 1 < 7 && t.chance(100);
        e.alts.push(alt);
        if follow_up {
            // the same level named again, without an associativity: the
            // documented rule resets it to `all` (prefix / postfix operators
            // tell `all` from `none`)
            let op = SymKind::T(ops[(ai + 2) % ops.len()]);
            let syms = if t.chance(128) { vec![op, me.clone()] } else { vec![me.clone(), op] };
            let mut alt2 = user(syms);
            alt2.prec = Some(cur_lvl);
            alt2.assoc = None;
            e.alts.push(alt2);
        }
    }
    // associativity other than `all` on the lowest level is an error (A.3):
    // compute effective (level, assoc) with inheritance and neutralise
    let mut last = (0u32, Assoc::All);
    let mut eff = vec![];
    for a in &e.alts {
        let (lvl, base) = match a.prec {
            Some(l) => (l, Assoc::All),
            None => last,
        };
        let assoc = a.assoc.unwrap_or(base);
        last = (lvl, assoc);
        eff.push((lvl, assoc));
    }
    let min_lvl = eff.iter().map(|x| x.0).min().unwrap();
    // no associativity attribute at all on the lowest level (prevalidate
    // rejects any, even `all`); levels are inherited, so an alternative's
    // effective level does not depend on associativity attributes
    for (a, (lvl, _)) in e.alts.iter_mut().zip(eff.iter()) {
        if *lvl == min_lvl {
            a.assoc = None;
        }
    }
    let tnt = NtSpec {
        name: "T".into(),
        public: false,
        inline: false,
        ty: Some(Ty::Str),
        alts: vec![user(vec![SymKind::T(0)]), user(vec![SymKind::T(5), SymKind::N(e_idx), SymKind::T(6)])],
        cfg: vec![],
        params: vec![],
    };
    spec.nts.push(n0);
    spec.nts.push(e);
    spec.nts.push(tnt);
    spec
}

// ------------------------------------------------- metamorphic variants

/// C14: mark a random non-empty subset of the eligible (non-pub,
/// non-recursive, not yet inlined) nonterminals / macro definitions `#[inline]`.
pub fn inline_variant(spec: &GSpec, t: &mut Tape) -> Option<(GSpec, Vec<usize>)> {
    let reach = reach_matrix(spec);
    let eligible: Vec<usize> =
        (0..spec.nts.len()).filter(|&i| !spec.nts[i].public && !spec.nts[i].inline && !reach[i][i]).collect();
    // only nonterminals that are actually used somewhere
    let used: Vec<usize> = eligible.into_iter().filter(|&i| (0..spec.nts.len()).any(|j| j != i && reach[j][i])).collect();
    if used.is_empty() {
        return None;
    }
    let mut chosen: Vec<usize> = used.iter().copied().filter(|_| t.chance(140)).collect();
    if chosen.is_empty() {
        chosen.push(used[t.below(used.len())]);
    }
    let mut s = spec.clone();
    for &i in &chosen {
        s.nts[i].inline = true;
    }
    Some((s, chosen))
}

const NT_POOL: &[&str] = &[
    "__0", "__Symbol", "__StateMachine", "__state0", "__parse__N0", "__intern_token", "__ToTriple", "__TOKENS", "__action0",
    "__sym0", "Token", "alloc", "core", "__lookahead", "__nt", "N01", "N0_", "__N0", "___N0", "__result", "__Nonterminal",
    "__lalrpop_util", "__ACTION", "__GOTO", "__expected_tokens", "Nn", "__reduce0", "__pop_Variant0", "Variant0", "__Parser",
];
const BIND_POOL: &[&str] = &[
    "__0", "__1", "__2", "__3", "__sym0", "__sym1", "__lookahead", "__lookbehind", "__tokens", "__result", "__nt", "__start",
    "__end", "__temp0", "v", "e", "__v", "___0", "__start0", "__end0", "__symbols", "__states", "__state", "__token",
];
const CX_POOL: &[&str] = &["cx", "__tokens0", "__cx", "__parser", "__1000", "__tokens", "__lookahead", "__lookbehind", "__input0", "v", "e", "v", "e", "v"];
const LT_POOL: &[&str] = &["cx", "__a", "a", "ast", "__input", "__1"];

/// C25: consistently rename nonterminals, macro parameters, bindings, the
/// grammar parameter and its lifetime into an adversarial pool.
pub fn rename_variant(spec: &GSpec, t: &mut Tape) -> (GSpec, Vec<String>) {
    let mut s = spec.clone();
    let mut new_names: Vec<String> = vec![];
    let mut free: Vec<String> = NT_POOL.iter().map(|x| x.to_string()).collect();
    // names LALRPOP derives for precedence tiers: `<Name><level>`
    let mut derived: Vec<String> = vec![];
    for nt in &spec.nts {
        for a in &nt.alts {
            if let Some(l) = a.prec {
                let d = format!("{}{}", nt.name, l);
                if !derived.contains(&d) {
                    derived.push(d);
                }
            }
        }
    }
    // names the recursive-ascent generator derives for helper nonterminals: the
    // canonical name of `X?` / `X*` / `X+` with every non-alphanumeric character
    // written as `_<hex>` (`N1?` -> `N1_3f`)
    fn reps(k: &SymKind, spec: &GSpec, out: &mut Vec<String>) {
        match k {
            SymKind::Rep(inner, op) => {
                if let SymKind::N(n) = &**inner {
                    let hex = match op {
                        RepOp::Question => "3f",
                        RepOp::Star => "2a",
                        RepOp::Plus => "2b",
                    };
                    let d = format!("{}_{}", spec.nts[*n].name, hex);
                    if !out.contains(&d) {
                        out.push(d);
                    }
                }
                reps(inner, spec, out);
            }
            SymKind::Group(items) => items.iter().for_each(|x| reps(&x.kind, spec, out)),
            SymKind::Macro(_, args) => args.iter().for_each(|x| reps(x, spec, out)),
            _ => {}
        }
    }
    for nt in &spec.nts {
        for a in &nt.alts {
            for sy in &a.syms {
                reps(&sy.kind, spec, &mut derived);
            }
        }
    }
    for i in 0..s.nts.len() {
        let annotated = s.nts[i].alts.iter().any(|a| a.prec.is_some());
        let is_rep_operand = derived.iter().any(|d| d.starts_with(&format!("{}_", spec.nts[i].name)));
        if annotated || is_rep_operand {
            // keep the name: the derived names refer to it
            continue;
        }
        if !derived.is_empty() && t.chance(250) {
            let k = t.below(derived.len());
            s.nts[i].name = derived.remove(k);
            new_names.push(s.nts[i].name.clone());
        } else if !free.is_empty() && t.chance(200) {
            let k = t.below(free.len());
            s.nts[i].name = free.remove(k);
            new_names.push(s.nts[i].name.clone());
        }
        // macro parameters: X -> PX0 / __p / __0x (must stay distinct from nonterminal names)
        if !s.nts[i].params.is_empty() {
            for (pi, p) in s.nts[i].params.iter_mut().enumerate() {
                let keep_k = p.starts_with('K');
                let base = *t.pick(&["__p", "__P", "Pp", "__sym", "__Sym"]);
                *p = format!("{}{}{}", if keep_k { "K" } else { "" }, base, pi);
                new_names.push(p.clone());
            }
        }
    }
    s.cx_name = t.pick(CX_POOL).to_string();
    s.lt_name = t.pick(LT_POOL).to_string();
    new_names.push(s.cx_name.clone());
    new_names.push(format!("'{}", s.lt_name));
    // bindings, per alternative (distinct within the alternative, never the grammar parameter)
    let cx = s.cx_name.clone();
    for nt in s.nts.iter_mut() {
        for alt in nt.alts.iter_mut() {
            let mut pool: Vec<&str> = BIND_POOL.iter().copied().filter(|b| *b != cx).collect();
            let mut next = |t: &mut Tape, pool: &mut Vec<&str>, old: &str| -> String {
                if !pool.is_empty() && t.chance(210) {
                    let k = t.below(pool.len());
                    pool.remove(k).to_string()
                } else {
                    old.to_string()
                }
            };
            fn pat(p: &mut TupPat, t: &mut Tape, pool: &mut Vec<&str>, next: &mut dyn FnMut(&mut Tape, &mut Vec<&str>, &str) -> String, out: &mut Vec<String>) {
                match p {
                    TupPat::Name(n) => {
                        *n = next(t, pool, n);
                        out.push(n.clone());
                    }
                    TupPat::Tup(v) => v.iter_mut().for_each(|x| pat(x, t, pool, next, out)),
                }
            }
            for sy in alt.syms.iter_mut() {
                match &mut sy.bind {
                    Bind::Name(n, _) => {
                        *n = next(t, &mut pool, n);
                        new_names.push(n.clone());
                    }
                    Bind::Tuple(p) => pat(p, t, &mut pool, &mut next, &mut new_names),
                    _ => {}
                }
            }
        }
    }
    (s, new_names)
}

const FEATURES: &[&str] = &["f1", "x-y", "abc", "z9"];

fn gen_pred(t: &mut Tape, depth: usize) -> Pred {
    let w_leaf = if depth >= 3 { 255 } else { 110 };
    match t.weighted(&[w_leaf, 50, 45, 45]) {
        1 => Pred::Not(Box::new(gen_pred(t, depth + 1))),
        2 => {
            let n = 1 + t.below(3);
            Pred::All((0..n).map(|_| gen_pred(t, depth + 1)).collect())
        }
        3 => {
            let n = 1 + t.below(3);
            Pred::Any((0..n).map(|_| gen_pred(t, depth + 1)).collect())
        }
        _ => Pred::Feature(t.pick(FEATURES).to_string()),
    }
}

/// C15: decorate a grammar with `#[cfg(..)]` on alternatives, nonterminals and
/// extern conversions; returns the decorated grammar and a feature set.
pub fn cfg_variant(spec: &GSpec, t: &mut Tape) -> (GSpec, std::collections::BTreeSet<String>) {
    let mut s = spec.clone();
    let n_nts = s.nts.len();
    // 1. gate some existing alternatives (1-2 attributes)
    for ni in 0..n_nts {
        let n_alts = s.nts[ni].alts.len();
        for ai in 0..n_alts {
            if n_alts >= 2 && !s.nts[ni].alts[ai].syms.is_empty() && t.chance(50) {
                let k = 1 + t.below(2);
                for _ in 0..k {
                    let p = gen_pred(t, 0);
                    s.nts[ni].alts[ai].cfg.push(p);
                }
            }
        }
    }
    // 2. extra gated alternatives: copy of an existing one with another leading terminal
    for ni in 0..n_nts {
        if s.nts[ni].params.is_empty() && !s.nts[ni].alts.is_empty() && t.chance(90) {
            let src = t.below(s.nts[ni].alts.len());
            let mut alt = s.nts[ni].alts[src].clone();
            let lead = SymKind::T(t.below(s.terms.len()));
            let bind = match alt.syms.first().map(|x| &x.bind) {
                Some(Bind::Name(..)) | Some(Bind::Tuple(..)) | Some(Bind::Choose) => Bind::None,
                _ => Bind::None,
            };
            // keep binding discipline: an unbound extra symbol is only neutral if something is selected/named,
            // otherwise it becomes one more anonymous argument - both are fine for the model
            alt.syms.insert(0, SymSpec { bind, kind: lead });
            alt.cfg = vec![gen_pred(t, 0)];
            alt.prec = None;
            alt.assoc = None;
            s.nts[ni].alts.push(alt);
        }
    }
    // 3. an extra gated nonterminal, referenced from an alternative gated by the same predicate
    if t.chance(120) {
        let p = gen_pred(t, 0);
        let idx = s.nts.len();
        let term = SymKind::T(t.below(s.terms.len()));
        s.nts.push(NtSpec {
            name: format!("G{idx}"),
            public: false,
            inline: false,
            ty: Some(Ty::Str),
            alts: vec![AltSpec::new(vec![SymSpec::plain(term.clone()), SymSpec::plain(term)], Act::User { fallible: false, style: Style::Angle })],
            cfg: vec![p.clone()],
            params: vec![],
        });
        let host = t.below(n_nts.max(1));
        if s.nts[host].params.is_empty() {
            let lead = SymKind::T(t.below(s.terms.len()));
            let mut alt = AltSpec::new(
                vec![SymSpec::plain(lead), SymSpec::plain(SymKind::N(idx))],
                match s.nts[host].ty {
                    Some(Ty::Str) => Act::User { fallible: false, style: Style::Angle },
                    Some(Ty::Unit) => Act::UnitUser,
                    _ => Act::User { fallible: false, style: Style::Angle },
                },
            );
            alt.cfg = vec![p];
            if matches!(s.nts[host].ty, Some(Ty::Str) | Some(Ty::Unit)) {
                s.nts[host].alts.push(alt);
            }
        }
    }
    // 4. a gated extern conversion: every alternative that mentions the terminal gets the same predicate
    if matches!(s.lexer, Lexer::Extern { .. }) && s.terms.len() >= 3 && t.chance(110) {
        let ti = s.terms.len() - 1;
        let p = gen_pred(t, 0);
        s.terms[ti].cfg = Some(p.clone());
        fn mentions(k: &SymKind, ti: usize) -> bool {
            match k {
                SymKind::T(x) => *x == ti,
                SymKind::Macro(_, a) => a.iter().any(|x| mentions(x, ti)),
                SymKind::Rep(x, _) => mentions(x, ti),
                SymKind::Group(items) => items.iter().any(|s| mentions(&s.kind, ti)),
                _ => false,
            }
        }
        for nt in s.nts.iter_mut() {
            for alt in nt.alts.iter_mut() {
                if alt.syms.iter().any(|sy| mentions(&sy.kind, ti)) {
                    alt.cfg.push(p.clone());
                }
            }
        }
    }
    let mut feats = std::collections::BTreeSet::new();
    for f in FEATURES {
        if t.chance(128) {
            feats.insert(f.to_string());
        }
    }
    (s, feats)
}

// -------------------------------------------------------- recovery (C16)

/// Table-driven grammars with `!` at several depths: statement lists,
/// bracketed items, `!` after a prefix, bare `!`; every alternative renders
/// all of its symbols (`<>`), error alternatives are `@L ! @R`.
pub fn gen_recovery(t: &mut Tape) -> GSpec {
    let terms: Vec<TermSpec> = (0..6u32).map(|k| extern_term(k, false)).collect();
    let mut spec = GSpec { lexer: Lexer::Extern { loc: LocTy::Usize }, terms, nts: vec![], declare_error: true, cx_name: "cx".into(), lt_name: "cx".into(), extra: None };
    // a random assignment of roles to the six unit tokens
    let mut roles: Vec<usize> = (0..6).collect();
    for i in (1..6).rev() {
        let j = t.below(i + 1);
        roles.swap(i, j);
    }
    let (t_atom, t_plus, t_semi, t_lp, t_rp, t_kw) = (roles[0], roles[1], roles[2], roles[3], roles[4], roles[5]);
    let tm = |i: usize| SymKind::T(i);
    let user = |syms: Vec<SymKind>| AltSpec::new(syms.into_iter().map(SymSpec::plain).collect(), Act::User { fallible: false, style: Style::Angle });
    let nt = |name: &str, public: bool, alts: Vec<AltSpec>| NtSpec { name: name.into(), public, inline: false, ty: Some(Ty::Str), alts, cfg: vec![], params: vec![] };
    let err = || vec![SymKind::L, SymKind::Err, SymKind::R];
    // indices: 0 S, 1 Stmt, 2 E, 3 T
    let list_op = *t.pick(&[RepOp::Star, RepOp::Plus]);
    let s_alts = match t.below(3) {
        0 => vec![user(vec![SymKind::N(1)])],
        _ => vec![user(vec![SymKind::Rep(Box::new(SymKind::N(1)), list_op)])],
    };
    let mut stmt_alts = vec![user(vec![SymKind::N(2), tm(t_semi)])];
    if t.chance(70) {
        stmt_alts.push(user(vec![tm(t_kw), SymKind::N(2), tm(t_semi)]));
    }
    let mut any_err = false;
    if t.chance(170) {
        let mut v = err();
        v.push(tm(t_semi));
        stmt_alts.push(user(v));
        any_err = true;
    }
    if t.chance(80) {
        let mut v = vec![tm(t_kw)];
        v.extend(err());
        v.push(tm(t_semi));
        stmt_alts.push(user(v));
        any_err = true;
    }
    if t.chance(40) {
        stmt_alts.push(user(err()));
        any_err = true;
    }
    if t.chance(110) {
        // `!` after a nonterminal: the states that complete an expression get a
        // reduce action on the error pseudo-terminal
        let mut v = vec![SymKind::N(2)];
        v.extend(err());
        v.push(tm(t_semi));
        stmt_alts.push(user(v));
        any_err = true;
    }
    let mut t_alts = vec![user(vec![tm(t_atom)]), user(vec![tm(t_lp), SymKind::N(2), tm(t_rp)])];
    if t.chance(130) || !any_err {
        let mut v = vec![tm(t_lp)];
        v.extend(err());
        v.push(tm(t_rp));
        t_alts.push(user(v));
    }
    // right recursion: the state after a complete `T` both shifts the operator and
    // reduces `E = T` (also on the error pseudo-terminal when `E !` exists), so the
    // continuations of that state differ from those of the state reached by the reduction
    let e_alts = if t.chance(100) {
        vec![user(vec![SymKind::N(3)]), user(vec![SymKind::N(3), tm(t_plus), SymKind::N(2)])]
    } else {
        vec![user(vec![SymKind::N(3)]), user(vec![SymKind::N(2), tm(t_plus), SymKind::N(3)])]
    };
    spec.nts.push(nt("S", true, s_alts));
    spec.nts.push(nt("Stmt", false, stmt_alts));
    spec.nts.push(nt("E", false, e_alts));
    spec.nts.push(nt("T", false, t_alts));
    spec
}

// -------------------------------------------------- inlining focus (C14)

/// LR-friendly grammars built for C14: small non-recursive helper
/// nonterminals with user (partly fallible, partly empty) actions, used
/// several times and side by side in the alternatives of the start symbol,
/// with nesting among the helpers. Every helper is an inlining candidate.
pub fn gen_inline_focus(t: &mut Tape) -> GSpec {
    let terms: Vec<TermSpec> = (0..8u32).map(|k| extern_term(k, false)).collect();
    let nterms = terms.len();
    let mut spec = GSpec { lexer: Lexer::Extern { loc: LocTy::Usize }, terms, nts: vec![], declare_error: true, cx_name: "cx".into(), lt_name: "cx".into(), extra: None };
    let n_helpers = 2 + t.below(3);
    // index 0 = N0, helpers at 1..=n_helpers
    spec.nts.push(NtSpec { name: "N0".into(), public: true, inline: false, ty: Some(Ty::Str), alts: vec![], cfg: vec![], params: vec![] });
    let mut var = 0usize;
    for h in 0..n_helpers {
        let hi = 1 + h;
        let n_alts = 1 + t.below(3);
        let mut alts = vec![];
        for ai in 0..n_alts {
            let lead = SymKind::T((2 * h + ai) % nterms);
            let kinds: Vec<SymKind> = match t.weighted(&[70, 40, if h > 0 { 40 } else { 0 }, 12]) {
                1 => vec![lead, SymKind::T(t.below(nterms))],
                2 => vec![lead, SymKind::N(1 + t.below(h))],
                3 if ai > 0 => vec![],
                _ => vec![lead],
            };
            let fallible = t.chance(90);
            let mut syms: Vec<SymSpec> = kinds.into_iter().map(SymSpec::plain).collect();
            let mut style = Style::Angle;
            if !syms.is_empty() && t.chance(90) {
                for s in syms.iter_mut() {
                    var += 1;
                    let letter = *t.pick(&["v", "a", "z", "m", "b"]);
                    s.bind = Bind::Name(format!("{letter}{var}"), false);
                }
                style = if t.chance(128) { Style::Names } else { Style::Angle };
            }
            alts.push(AltSpec::new(syms, Act::User { fallible, style }));
        }
        spec.nts.push(NtSpec { name: format!("H{hi}"), public: false, inline: false, ty: Some(Ty::Str), alts, cfg: vec![], params: vec![] });
    }
    let n_alts = 2 + t.below(3);
    for ai in 0..n_alts {
        let lead = SymKind::T((7 + nterms - ai) % nterms);
        let mut kinds = vec![lead];
        let n_refs = 1 + t.below(3);
        for _ in 0..n_refs {
            kinds.push(SymKind::N(1 + t.below(n_helpers)));
            if t.chance(50) {
                kinds.push(SymKind::T(t.below(nterms)));
            }
        }
        let fallible = t.chance(50);
        let mut syms: Vec<SymSpec> = kinds.into_iter().map(SymSpec::plain).collect();
        let mut style = Style::Angle;
        if t.chance(110) {
            for s in syms.iter_mut() {
                if t.chance(200) {
                    var += 1;
                    let letter = *t.pick(&["v", "a", "z", "m", "b"]);
                    s.bind = Bind::Name(format!("{letter}{var}"), false);
                }
            }
            if !syms.iter().any(|s| matches!(s.bind, Bind::Name(..))) {
                var += 1;
                syms[0].bind = Bind::Name(format!("v{var}"), false);
            }
            style = if t.chance(128) { Style::Names } else { Style::Angle };
        }
        spec.nts[0].alts.push(AltSpec::new(syms, Act::User { fallible, style }));
    }
    spec
}
