//! E3: textbook canonical LR(1) and LALR(1) constructions with conflict
//! detection (the C03 oracle and the grammar classifier).

use super::cfg::{Flat, Sym};
use std::collections::{BTreeMap, BTreeSet, HashMap};

type ItemCore = (usize, usize); // (production index, dot); production usize::MAX-free: augmented prod is index 0
type State = BTreeMap<ItemCore, BTreeSet<usize>>; // item -> lookahead terminals (eof = nterms)

pub struct Lr<'g> {
    g: &'g Flat,
    /// productions with the augmented one at index 0
    prods: Vec<(usize, Vec<Sym>)>,
    by_lhs: Vec<Vec<usize>>,
    first: Vec<BTreeSet<usize>>,
    nullable: Vec<bool>,
    eof: usize,
    /// variant (b): keep closure items whose lookahead set is empty
    keep_empty: bool,
}

#[derive(Clone, Debug, Default)]
pub struct Verdict {
    pub lr1_conflict: bool,
    pub lalr_conflict: bool,
    pub lr0_conflict: bool,
    pub lr1_states: usize,
    pub lalr_states: usize,
    /// construction aborted (too many states) - verdict unknown
    pub aborted: bool,
}

impl<'g> Lr<'g> {
    pub fn new(g: &'g Flat, start: usize, keep_empty: bool) -> Self {
        let aug = g.nnts; // augmented start nonterminal index
        let mut prods = vec![(aug, vec![Sym::N(start)])];
        prods.extend(g.prods.iter().cloned());
        let mut by_lhs = vec![vec![]; g.nnts + 1];
        for (i, p) in prods.iter().enumerate() {
            by_lhs[p.0].push(i);
        }
        let mut nullable = vec![false; g.nnts + 1];
        let mut first: Vec<BTreeSet<usize>> = vec![BTreeSet::new(); g.nnts + 1];
        loop {
            let mut ch = false;
            for (lhs, rhs) in &prods {
                let mut all_null = true;
                for s in rhs {
                    match s {
                        Sym::T(t) => {
                            if first[*lhs].insert(*t) {
                                ch = true;
                            }
                            all_null = false;
                            break;
                        }
                        Sym::N(b) => {
                            let add: Vec<usize> = first[*b].iter().copied().collect();
                            for t in add {
                                if first[*lhs].insert(t) {
                                    ch = true;
                                }
                            }
                            if !nullable[*b] {
                                all_null = false;
                                break;
                            }
                        }
                    }
                }
                if all_null && !nullable[*lhs] {
                    nullable[*lhs] = true;
                    ch = true;
                }
            }
            if !ch {
                break;
            }
        }
        Lr { g, prods, by_lhs, first, nullable, eof: g.nterms, keep_empty }
    }

    fn first_of_seq(&self, seq: &[Sym], la: &BTreeSet<usize>) -> BTreeSet<usize> {
        let mut out = BTreeSet::new();
        for s in seq {
            match s {
                Sym::T(t) => {
                    out.insert(*t);
                    return out;
                }
                Sym::N(b) => {
                    out.extend(self.first[*b].iter().copied());
                    if !self.nullable[*b] {
                        return out;
                    }
                }
            }
        }
        out.extend(la.iter().copied());
        out
    }

    fn closure(&self, kernel: &State) -> State {
        let mut st = kernel.clone();
        let mut work: Vec<ItemCore> = st.keys().copied().collect();
        while let Some(item) = work.pop() {
            let (p, dot) = item;
            let rhs = &self.prods[p].1;
            if dot >= rhs.len() {
                continue;
            }
            if let Sym::N(b) = rhs[dot] {
                let la = st[&item].clone();
                let new_la = self.first_of_seq(&rhs[dot + 1..], &la);
                if new_la.is_empty() && !self.keep_empty {
                    continue;
                }
                for &bp in &self.by_lhs[b] {
                    let key = (bp, 0);
                    let existed = st.contains_key(&key);
                    let e = st.entry(key).or_default();
                    let before = e.len();
                    e.extend(new_la.iter().copied());
                    if !existed || e.len() != before {
                        work.push(key);
                    }
                }
            }
        }
        st
    }

    fn gotos(&self, st: &State) -> BTreeMap<Sym, State> {
        let mut out: BTreeMap<Sym, State> = BTreeMap::new();
        for (&(p, dot), la) in st {
            let rhs = &self.prods[p].1;
            if dot < rhs.len() {
                out.entry(rhs[dot]).or_default().entry((p, dot + 1)).or_default().extend(la.iter().copied());
            }
        }
        out
    }

    fn state_conflict(&self, st: &State, use_la: bool) -> bool {
        // shift terminals
        let mut shifts: BTreeSet<usize> = BTreeSet::new();
        let mut reduces: Vec<(usize, &BTreeSet<usize>)> = vec![];
        let mut any_shift_or_goto = false;
        for (&(p, dot), la) in st {
            let rhs = &self.prods[p].1;
            if dot < rhs.len() {
                any_shift_or_goto = true;
                if let Sym::T(t) = rhs[dot] {
                    shifts.insert(t);
                }
            } else {
                reduces.push((p, la));
            }
        }
        if !use_la {
            // LR(0): a completed item must be alone (the accept item of the
            // augmented production is not an action on a token)
            let real: Vec<_> = reduces.iter().filter(|(p, _)| *p != 0).collect();
            let _ = any_shift_or_goto;
            return real.len() > 1 || (!real.is_empty() && !shifts.is_empty());
        }
        for i in 0..reduces.len() {
            if reduces[i].1.iter().any(|t| shifts.contains(t)) {
                return true;
            }
            for j in i + 1..reduces.len() {
                if reduces[i].1.iter().any(|t| reduces[j].1.contains(t)) {
                    return true;
                }
            }
        }
        false
    }

    pub fn verdict(&self, max_states: usize) -> Verdict {
        let mut v = Verdict::default();
        let mut kernel0 = State::new();
        kernel0.insert((0, 0), [self.eof].into_iter().collect());
        let s0 = self.closure(&kernel0);
        let mut index: HashMap<State, usize> = HashMap::new();
        let mut states: Vec<State> = vec![];
        index.insert(kernel0.clone(), 0);
        states.push(s0);
        let mut kernels = vec![kernel0];
        let mut i = 0;
        while i < states.len() {
            let g = self.gotos(&states[i]);
            for (_, kern) in g {
                if !index.contains_key(&kern) {
                    if states.len() >= max_states {
                        v.aborted = true;
                        return v;
                    }
                    index.insert(kern.clone(), states.len());
                    states.push(self.closure(&kern));
                    kernels.push(kern);
                }
            }
            i += 1;
        }
        v.lr1_states = states.len();
        v.lr1_conflict = states.iter().any(|s| self.state_conflict(s, true));
        // LALR: merge by core
        let mut merged: BTreeMap<Vec<ItemCore>, State> = BTreeMap::new();
        for s in &states {
            let core: Vec<ItemCore> = s.keys().copied().collect();
            let e = merged.entry(core).or_default();
            for (k, la) in s {
                e.entry(*k).or_default().extend(la.iter().copied());
            }
        }
        v.lalr_states = merged.len();
        v.lalr_conflict = merged.values().any(|s| self.state_conflict(s, true));
        v.lr0_conflict = merged.values().any(|s| self.state_conflict(s, false));
        let _ = self.g;
        v
    }
}

/// Classification of a grammar for one start symbol.
#[derive(Clone, Copy, Debug, PartialEq, Eq, Hash, PartialOrd, Ord)]
pub enum Class {
    Lr0,
    Lalr,
    Lr1NotLalr,
    NotLr1,
    Unknown,
}

impl Class {
    pub fn name(self) -> &'static str {
        match self {
            Class::Lr0 => "LR(0)",
            Class::Lalr => "LALR(1)-not-LR(0)",
            Class::Lr1NotLalr => "LR(1)-not-LALR(1)",
            Class::NotLr1 => "not-LR(1)",
            Class::Unknown => "unknown",
        }
    }
}

pub fn classify(v: &Verdict) -> Class {
    if v.aborted {
        Class::Unknown
    } else if v.lr1_conflict {
        Class::NotLr1
    } else if v.lalr_conflict {
        Class::Lr1NotLalr
    } else if v.lr0_conflict {
        Class::Lalr
    } else {
        Class::Lr0
    }
}
