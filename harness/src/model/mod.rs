pub mod cfg;
pub mod eval;
pub mod lr;
