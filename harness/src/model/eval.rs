//! E3: bottom-up evaluation of a derivation tree: canonical value rendering,
//! action log in the documented order, spans and `@L`/`@R` values (exact and
//! bounded layers of C06), first-failure semantics of fallible actions (C17).

use super::cfg::{Arg, Core, Sem, Tree};

pub const POISON: u32 = 1 << 30;
pub const POISON2: u32 = 1 << 29;
pub const IDX: u32 = (1 << 29) - 1;

#[derive(Clone, Debug, PartialEq, Eq, Hash, serde::Serialize, serde::Deserialize)]
pub struct InTok {
    /// core terminal index
    pub term: usize,
    /// rt::Tok kind (extern) - 0..8
    pub kind: u32,
    /// index with poison flags (extern)
    pub idx: u32,
    pub lo: usize,
    pub hi: usize,
    /// built-in lexer: the token text
    pub text: String,
    pub builtin: bool,
}

pub fn ridx(i: u32) -> String {
    let mut s = format!("{}", i & IDX);
    if i & POISON != 0 {
        s.push('!');
    }
    if i & POISON2 != 0 {
        s.push('?');
    }
    s
}

#[derive(Clone, Debug, PartialEq, Eq)]
pub enum Val {
    S(String),
    Tup(Vec<Val>),
    List(Vec<Val>),
    Opt(Option<Box<Val>>),
    Unit,
    /// exact location
    Loc(usize),
    /// location the statement only bounds: lo..=hi
    LocBetween(usize, usize),
}

impl Val {
    pub fn render(&self) -> String {
        match self {
            Val::S(s) => s.clone(),
            Val::Tup(v) => format!("({})", v.iter().map(|x| x.render()).collect::<Vec<_>>().join(",")),
            Val::List(v) => format!("[{}]", v.iter().map(|x| x.render()).collect::<Vec<_>>().join(",")),
            Val::Opt(None) => "None".into(),
            Val::Opt(Some(x)) => format!("Some({})", x.render()),
            Val::Unit => "()".into(),
            Val::Loc(p) => format!("@{p}"),
            Val::LocBetween(a, b) => format!("@[{a}..{b}]"),
        }
    }
}

/// Compare an expected rendering that may contain `@[a..b]` wildcards with an
/// observed rendering containing `@n`.
pub fn render_matches(expected: &str, observed: &str) -> bool {
    let e = expected.as_bytes();
    let o = observed.as_bytes();
    let (mut i, mut j) = (0, 0);
    while i < e.len() {
        if e[i] == b'@' && i + 1 < e.len() && e[i + 1] == b'[' {
            // parse a..b]
            let close = match expected[i..].find(']') {
                Some(c) => i + c,
                None => return false,
            };
            let inner = &expected[i + 2..close];
            let Some((a, b)) = inner.split_once("..") else { return false };
            let (Ok(a), Ok(b)) = (a.parse::<usize>(), b.parse::<usize>()) else { return false };
            if j >= o.len() || o[j] != b'@' {
                return false;
            }
            let mut k = j + 1;
            while k < o.len() && o[k].is_ascii_digit() {
                k += 1;
            }
            let Ok(v) = observed[j + 1..k].parse::<usize>() else { return false };
            if v < a.min(b) || v > a.max(b) {
                return false;
            }
            i = close + 1;
            j = k;
        } else {
            if j >= o.len() || e[i] != o[j] {
                return false;
            }
            i += 1;
            j += 1;
        }
    }
    j == o.len()
}

#[derive(Clone, Debug, PartialEq, Eq)]
pub enum Failure {
    /// `ParseError::User { error }`
    User(String),
    /// the non-User variant `rf!` produces: UnrecognizedEof{location:777, expected:[Qid]}
    Other(String),
}

#[derive(Clone, Debug, Default)]
pub struct Stats {
    pub markers_exact: usize,
    pub markers_bounded: usize,
    /// empty non-inlined reductions evaluated with a non-default position
    pub empty_nodes: usize,
    pub empty_at_start: usize,
    pub empty_at_eof: usize,
    pub markers_in_empty_inline: usize,
    pub inline_actions: usize,
    pub hosts_with_distinct_inlined: usize,
    pub hosts_with_repeated_inlined: usize,
}

pub struct EvalOut {
    pub value: Result<Val, Failure>,
    pub log: Vec<u32>,
    /// per log entry: end token index (= lookahead index) of the reduction it ran in
    pub log_hi: Vec<usize>,
    /// end token index (= lookahead index) of the reduction whose action failed
    pub fail_hi: Option<usize>,
    pub stats: Stats,
    /// log grouped per host reduction: (non-inlined host action id or 0, inlined ids that ran before it)
    pub host_groups: Vec<(u32, Vec<(usize, u32)>)>,
}

pub struct Evaluator<'a> {
    pub g: &'a Core,
    pub toks: &'a [InTok],
    pub default_loc: usize,
    log: Vec<u32>,
    log_hi: Vec<usize>,
    fail_hi: Option<usize>,
    stats: Stats,
    host_groups: Vec<(u32, Vec<(usize, u32)>)>,
}

#[derive(Clone, Copy, Debug)]
struct Span {
    lo: usize,
    hi: usize,
}

impl<'a> Evaluator<'a> {
    pub fn new(g: &'a Core, toks: &'a [InTok]) -> Self {
        Evaluator { g, toks, default_loc: 0, log: vec![], log_hi: vec![], fail_hi: None, stats: Stats::default(), host_groups: vec![] }
    }

    pub fn run(mut self, tree: &Tree) -> EvalOut {
        let value = self.eval_host(tree);
        EvalOut { value, log: self.log, log_hi: self.log_hi, fail_hi: self.fail_hi, stats: self.stats, host_groups: self.host_groups }
    }

    fn is_inline(&self, t: &Tree) -> bool {
        match t {
            Tree::Leaf { .. } => false,
            Tree::Node { prod, .. } => self.g.nts[self.g.prods[*prod].lhs].inline,
        }
    }

    /// zero-width position of an empty reduction whose lookahead is token `at`
    fn empty_pos(&self, at: usize) -> usize {
        if at < self.toks.len() {
            self.toks[at].lo
        } else if at > 0 {
            self.toks[at - 1].hi
        } else {
            self.default_loc
        }
    }

    /// location span of a solid tree (leaf or non-inlined node)
    fn span(&self, t: &Tree) -> Span {
        match t {
            Tree::Leaf { pos, .. } => Span { lo: self.toks[*pos].lo, hi: self.toks[*pos].hi },
            Tree::Node { lo, kids, .. } => {
                let mut flat = vec![];
                self.flat_solids(kids, &mut flat);
                match (flat.first(), flat.last()) {
                    (Some(a), Some(b)) => Span { lo: self.span(a).lo, hi: self.span(b).hi },
                    _ => {
                        let p = self.empty_pos(*lo);
                        Span { lo: p, hi: p }
                    }
                }
            }
        }
    }

    fn flat_solids<'t>(&self, kids: &'t [Tree], out: &mut Vec<&'t Tree>) {
        for k in kids {
            if self.is_inline(k) {
                if let Tree::Node { kids, .. } = k {
                    self.flat_solids(kids, out);
                }
            } else {
                out.push(k);
            }
        }
    }

    fn first_solid<'t>(&self, t: &'t Tree) -> Option<&'t Tree> {
        if !self.is_inline(t) {
            return Some(t);
        }
        if let Tree::Node { kids, .. } = t {
            for k in kids {
                if let Some(s) = self.first_solid(k) {
                    return Some(s);
                }
            }
        }
        None
    }
    fn last_solid<'t>(&self, t: &'t Tree) -> Option<&'t Tree> {
        if !self.is_inline(t) {
            return Some(t);
        }
        if let Tree::Node { kids, .. } = t {
            for k in kids.iter().rev() {
                if let Some(s) = self.last_solid(k) {
                    return Some(s);
                }
            }
        }
        None
    }

    /// Evaluate a non-inlined node (or the root): children first, then the
    /// deferred inlined actions left to right / inner first, then its own.
    fn eval_host(&mut self, t: &Tree) -> Result<Val, Failure> {
        match t {
            Tree::Leaf { .. } => Ok(self.leaf_val(t)),
            Tree::Node { .. } => {
                // phase 1: reduce every non-inlined descendant reachable
                // through inlined nodes, in input order
                let mut solid_vals: Vec<(*const Tree, Val)> = vec![];
                self.phase1(t, true, &mut solid_vals)?;
                // host-level statistics
                let Tree::Node { kids, lo, hi, .. } = t else { unreachable!() };
                let mut flat = vec![];
                self.flat_solids(kids, &mut flat);
                if flat.is_empty() {
                    self.stats.empty_nodes += 1;
                    if *lo == 0 {
                        self.stats.empty_at_start += 1;
                    }
                    if *lo >= self.toks.len() {
                        self.stats.empty_at_eof += 1;
                    }
                }
                let host_span = self.span(t);
                let mut group: Vec<(usize, u32)> = vec![];
                // chain of (node, index-in-parent) from the host down, for marker lookups
                let r = self.phase2(t, &[], host_span, flat.is_empty(), &solid_vals, *hi, &mut group, true);
                // record the group
                let host_id = match &self.g.prods[match t {
                    Tree::Node { prod, .. } => *prod,
                    _ => unreachable!(),
                }]
                .sem
                {
                    Sem::User { id, .. } | Sem::UnitUser { id } => *id,
                    _ => 0,
                };
                if !group.is_empty() {
                    let mut nts: Vec<usize> = group.iter().map(|(n, _)| *n).collect();
                    nts.sort();
                    let total = nts.len();
                    nts.dedup();
                    if nts.len() >= 2 {
                        self.stats.hosts_with_distinct_inlined += 1;
                    }
                    if total > nts.len() {
                        self.stats.hosts_with_repeated_inlined += 1;
                    }
                }
                self.host_groups.push((host_id, group));
                r
            }
        }
    }

    fn phase1(&mut self, t: &Tree, is_host: bool, out: &mut Vec<(*const Tree, Val)>) -> Result<(), Failure> {
        let Tree::Node { kids, .. } = t else { return Ok(()) };
        let _ = is_host;
        for k in kids {
            match k {
                Tree::Leaf { .. } => {}
                Tree::Node { .. } => {
                    if self.is_inline(k) {
                        self.phase1(k, false, out)?;
                    } else {
                        let v = self.eval_host(k)?;
                        out.push((k as *const Tree, v));
                    }
                }
            }
        }
        Ok(())
    }

    /// `path`: the inline ancestors between the host and this node:
    /// (parent node, index of the child we descended into)
    #[allow(clippy::too_many_arguments)]
    fn phase2(
        &mut self,
        t: &Tree,
        path: &[(&Tree, usize)],
        host_span: Span,
        host_empty: bool,
        solid_vals: &[(*const Tree, Val)],
        host_hi: usize,
        group: &mut Vec<(usize, u32)>,
        is_host: bool,
    ) -> Result<Val, Failure> {
        let Tree::Node { prod, kids, .. } = t else { unreachable!() };
        let p = &self.g.prods[*prod];
        let mut vals: Vec<Val> = Vec::with_capacity(kids.len());
        for (i, k) in kids.iter().enumerate() {
            match k {
                Tree::Leaf { .. } => vals.push(self.leaf_val(k)),
                Tree::Node { .. } if !self.is_inline(k) => {
                    let v = solid_vals.iter().find(|(p, _)| *p == k as *const Tree).map(|(_, v)| v.clone()).expect("phase1 value");
                    vals.push(v);
                }
                Tree::Node { .. } => {
                    let mut np: Vec<(&Tree, usize)> = path.to_vec();
                    np.push((t, i));
                    let v = self.phase2(k, &np, host_span, host_empty, solid_vals, host_hi, group, false)?;
                    vals.push(v);
                }
            }
        }
        // now this node's own action
        let sem = p.sem.clone();
        let lhs = p.lhs;
        match sem {
            Sem::Lookahead | Sem::Lookbehind => {
                let v = self.marker(matches!(sem, Sem::Lookahead), path, host_span, host_empty);
                Ok(v)
            }
            Sem::Tuple(sel) => Ok(if sel.len() == 1 {
                vals[sel[0]].clone()
            } else {
                Val::Tup(sel.iter().map(|&i| vals[i].clone()).collect())
            }),
            Sem::Unit => Ok(Val::Unit),
            Sem::UnitUser { id } => {
                self.log.push(id);
                self.log_hi.push(host_hi);
                if !is_host {
                    group.push((lhs, id));
                    self.stats.inline_actions += 1;
                }
                Ok(Val::Unit)
            }
            Sem::VecNew => Ok(Val::List(vec![])),
            Sem::VecOne(i) => Ok(Val::List(vec![vals[i].clone()])),
            Sem::VecPush(l, e) => {
                let mut v = match &vals[l] {
                    Val::List(v) => v.clone(),
                    other => vec![other.clone()],
                };
                v.push(vals[e].clone());
                Ok(Val::List(v))
            }
            Sem::OptSome(i) => Ok(Val::Opt(Some(Box::new(vals[i].clone())))),
            Sem::OptNone => Ok(Val::Opt(None)),
            Sem::User { id, name, fallible, args } => {
                self.log.push(id);
                self.log_hi.push(host_hi);
                if !is_host {
                    group.push((lhs, id));
                    self.stats.inline_actions += 1;
                }
                let mut parts = vec![];
                for a in &args {
                    match a {
                        Arg::Child(i) => parts.push(vals[*i].render()),
                        Arg::MutChild(i) => parts.push(format!("{}m", vals[*i].render())),
                        Arg::Field(i, path) => {
                            let mut v = &vals[*i];
                            for &j in path {
                                v = match v {
                                    Val::Tup(items) => &items[j],
                                    other => other,
                                };
                            }
                            parts.push(v.render());
                        }
                    }
                }
                let s = format!("{}({})", name, parts.join(","));
                if fallible {
                    if s.contains('!') {
                        self.fail_hi = Some(host_hi);
                        return Err(Failure::User(format!("E{id}:{s}")));
                    }
                    if s.contains('?') {
                        self.fail_hi = Some(host_hi);
                        return Err(Failure::Other(format!("Q{id}")));
                    }
                }
                Ok(Val::S(s))
            }
        }
    }

    fn leaf_val(&self, t: &Tree) -> Val {
        let Tree::Leaf { pos, .. } = t else { unreachable!() };
        let tok = &self.toks[*pos];
        if tok.builtin {
            return Val::S(format!("{:?}", tok.text));
        }
        match tok.kind {
            6 => Val::S(ridx(tok.idx)),
            7 => Val::Tup(vec![Val::S(ridx(tok.idx)), Val::S(ridx(tok.idx.wrapping_add(100) & IDX))]),
            k => Val::S(format!("{}{}", ["a", "b", "c", "d", "e", "f"][k as usize], ridx(tok.idx))),
        }
    }

    /// Value of an `@L` (ahead = true) / `@R` marker. `path` ends with the
    /// (parent, index) where the marker nonterminal sits.
    fn marker(&mut self, ahead: bool, path: &[(&Tree, usize)], host_span: Span, host_empty: bool) -> Val {
        if host_empty {
            // non-inlined production deriving nothing: everything is its position
            self.stats.markers_exact += 1;
            if path.len() > 1 {
                self.stats.markers_in_empty_inline += 1;
            }
            return Val::Loc(host_span.lo);
        }
        // walk outwards while the marker (or its enclosing inline item) has no sibling
        let mut level = path.len();
        while level > 0 {
            let (parent, idx) = path[level - 1];
            let Tree::Node { kids, .. } = parent else { unreachable!() };
            let pick = |me: &Self, sib: &Tree, want_start: bool| -> Option<usize> {
                if want_start {
                    me.first_solid(sib).map(|s| me.span(s).lo)
                } else {
                    me.last_solid(sib).map(|s| me.span(s).hi)
                }
            };
            // preferred neighbour, then the other one
            let order: [(Option<usize>, bool); 2] = if ahead {
                [(if idx + 1 < kids.len() { Some(idx + 1) } else { None }, true), (idx.checked_sub(1), false)]
            } else {
                [(idx.checked_sub(1), false), (if idx + 1 < kids.len() { Some(idx + 1) } else { None }, true)]
            };
            for (sib, want_start) in order {
                if let Some(si) = sib {
                    return match pick(self, &kids[si], want_start) {
                        Some(p) => {
                            self.stats.markers_exact += 1;
                            Val::Loc(p)
                        }
                        None => {
                            // neighbour is an inlined item deriving nothing:
                            // the statement only bounds the value
                            self.stats.markers_bounded += 1;
                            if level < path.len() {
                                self.stats.markers_in_empty_inline += 1;
                            }
                            self.bounded(path, host_span)
                        }
                    };
                }
            }
            // no sibling at this level: the enclosing item is itself an empty
            // inlined item (or the host, handled by host_empty) - go up
            level -= 1;
        }
        // reached the host with no siblings anywhere: host is effectively empty
        self.stats.markers_exact += 1;
        Val::Loc(host_span.lo)
    }

    /// [end of the last solid before the marker, start of the first solid after]
    fn bounded(&self, path: &[(&Tree, usize)], host_span: Span) -> Val {
        let mut before: Option<usize> = None;
        let mut after: Option<usize> = None;
        // innermost first
        for &(parent, idx) in path.iter().rev() {
            let Tree::Node { kids, .. } = parent else { unreachable!() };
            if before.is_none() {
                for k in kids[..idx].iter().rev() {
                    if let Some(s) = self.last_solid(k) {
                        before = Some(self.span(s).hi);
                        break;
                    }
                }
            }
            if after.is_none() {
                for k in &kids[idx + 1..] {
                    if let Some(s) = self.first_solid(k) {
                        after = Some(self.span(s).lo);
                        break;
                    }
                }
            }
        }
        let (lo, hi) = match (before, after) {
            (Some(b), Some(a)) => (b, a),
            (Some(b), None) => (b, b),
            (None, Some(a)) => (a, a),
            (None, None) => (host_span.lo, host_span.hi),
        };
        if lo == hi {
            Val::Loc(lo)
        } else {
            Val::LocBetween(lo.min(hi), lo.max(hi))
        }
    }
}
