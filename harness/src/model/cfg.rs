//! E3 core: the harness's own context-free grammar representation and the
//! plain-CFG algorithms of the reference model. Nothing here calls LALRPOP.

use crate::tape::Tape;
use std::collections::{BTreeSet, HashMap, HashSet};

#[derive(Clone, Copy, PartialEq, Eq, Hash, Debug, PartialOrd, Ord)]
pub enum Sym {
    T(usize),
    N(usize),
}

/// How a production computes its value from its children (see model/eval.rs).
#[derive(Clone, Debug, PartialEq, Eq, Hash)]
pub enum Sem {
    /// user action: `Name(arg, ...)`, logged under `id`
    User { id: u32, name: String, fallible: bool, args: Vec<Arg> },
    /// default action: the single selected child or the tuple of them
    Tuple(Vec<usize>),
    /// default action of a unit-typed nonterminal
    Unit,
    /// user action of a unit-typed nonterminal: logs `id`, value `()`
    UnitUser { id: u32 },
    VecNew,
    VecOne(usize),
    VecPush(usize, usize),
    OptSome(usize),
    OptNone,
    Lookahead,
    Lookbehind,
}

#[derive(Clone, Debug, PartialEq, Eq, Hash)]
pub enum Arg {
    Child(usize),
    /// `<mut x:X>` + `x.push('m')` in the action
    MutChild(usize),
    /// `<(a,(b,c)):X>`: field of a tuple-valued child, by path
    Field(usize, Vec<usize>),
}

#[derive(Clone, Debug)]
pub struct CoreProd {
    pub lhs: usize,
    pub rhs: Vec<Sym>,
    pub sem: Sem,
}

#[derive(Clone, Debug, Default)]
pub struct CoreNt {
    pub name: String,
    pub prods: Vec<usize>,
    pub inline: bool,
    /// created by the harness from a surface nonterminal (not a macro /
    /// repetition / group / lookaround helper)
    pub user: bool,
}

/// The model-expanded grammar: macros, repetitions, groups, precedence tiers
/// and cfg attributes are gone; `inline` flags remain.
#[derive(Clone, Debug, Default)]
pub struct Core {
    /// display form of each terminal as LALRPOP prints it in `expected`
    pub term_names: Vec<String>,
    pub nts: Vec<CoreNt>,
    pub prods: Vec<CoreProd>,
    /// `pub` nonterminals
    pub starts: Vec<usize>,
    /// index of the error-recovery pseudo terminal `!`, if used
    pub error_term: Option<usize>,
}

impl Core {
    pub fn add_nt(&mut self, name: &str, inline: bool, user: bool) -> usize {
        self.nts.push(CoreNt { name: name.to_string(), prods: vec![], inline, user });
        self.nts.len() - 1
    }
    pub fn add_prod(&mut self, lhs: usize, rhs: Vec<Sym>, sem: Sem) -> usize {
        self.prods.push(CoreProd { lhs, rhs, sem });
        let i = self.prods.len() - 1;
        self.nts[lhs].prods.push(i);
        i
    }
    pub fn nterms(&self) -> usize {
        self.term_names.len()
    }

    pub fn nullable(&self) -> Vec<bool> {
        let mut n = vec![false; self.nts.len()];
        loop {
            let mut ch = false;
            for p in &self.prods {
                if !n[p.lhs] && p.rhs.iter().all(|s| matches!(s, Sym::N(x) if n[*x])) {
                    n[p.lhs] = true;
                    ch = true;
                }
            }
            if !ch {
                return n;
            }
        }
    }

    /// nonterminals that derive at least one terminal string
    pub fn productive(&self) -> Vec<bool> {
        let mut n = vec![false; self.nts.len()];
        loop {
            let mut ch = false;
            for p in &self.prods {
                if !n[p.lhs] && p.rhs.iter().all(|s| matches!(s, Sym::T(_)) || matches!(s, Sym::N(x) if n[*x])) {
                    n[p.lhs] = true;
                    ch = true;
                }
            }
            if !ch {
                return n;
            }
        }
    }

    pub fn reachable_from(&self, start: usize) -> Vec<bool> {
        let mut r = vec![false; self.nts.len()];
        let mut st = vec![start];
        r[start] = true;
        while let Some(a) = st.pop() {
            for &pi in &self.nts[a].prods {
                for s in &self.prods[pi].rhs {
                    if let Sym::N(b) = s {
                        if !r[*b] {
                            r[*b] = true;
                            st.push(*b);
                        }
                    }
                }
            }
        }
        r
    }

    /// every nonterminal reachable from `start` is productive
    pub fn is_reduced_from(&self, start: usize) -> bool {
        let p = self.productive();
        let r = self.reachable_from(start);
        (0..self.nts.len()).all(|i| !r[i] || p[i])
    }

    /// length of a shortest terminal string per nonterminal (usize::MAX if none)
    pub fn min_len(&self) -> Vec<usize> {
        let mut m = vec![usize::MAX; self.nts.len()];
        loop {
            let mut ch = false;
            for p in &self.prods {
                let mut tot = 0usize;
                for s in &p.rhs {
                    let l = match s {
                        Sym::T(_) => 1,
                        Sym::N(x) => m[*x],
                    };
                    if l == usize::MAX {
                        tot = usize::MAX;
                        break;
                    }
                    tot += l;
                }
                if tot < m[p.lhs] {
                    m[p.lhs] = tot;
                    ch = true;
                }
            }
            if !ch {
                return m;
            }
        }
    }

    fn prod_min_len(&self, m: &[usize], pi: usize) -> usize {
        let mut tot = 0usize;
        for s in &self.prods[pi].rhs {
            let l = match s {
                Sym::T(_) => 1,
                Sym::N(x) => m[*x],
            };
            if l == usize::MAX {
                return usize::MAX;
            }
            tot += l;
        }
        tot
    }

    /// minimal derivation-tree height per nonterminal (usize::MAX if unproductive)
    pub fn min_height(&self) -> Vec<usize> {
        let mut h = vec![usize::MAX; self.nts.len()];
        loop {
            let mut ch = false;
            for p in &self.prods {
                let mut worst = 0usize;
                for s in &p.rhs {
                    if let Sym::N(x) = s {
                        if h[*x] == usize::MAX {
                            worst = usize::MAX;
                            break;
                        }
                        worst = worst.max(h[*x]);
                    }
                }
                if worst != usize::MAX && worst + 1 < h[p.lhs] {
                    h[p.lhs] = worst + 1;
                    ch = true;
                }
            }
            if !ch {
                return h;
            }
        }
    }

    fn prod_height(&self, h: &[usize], pi: usize) -> usize {
        let mut worst = 0usize;
        for s in &self.prods[pi].rhs {
            if let Sym::N(x) = s {
                if h[*x] == usize::MAX {
                    return usize::MAX;
                }
                worst = worst.max(h[*x]);
            }
        }
        worst + 1
    }

    /// Random sentence of `start` (None if unproductive). `fuel` bounds the
    /// number of "free" expansions; afterwards productions of minimal
    /// derivation height are used, which is well-founded.
    pub fn sentence(&self, start: usize, t: &mut Tape, fuel: usize, max_len: usize) -> Option<Vec<usize>> {
        let m = self.min_len();
        let h = self.min_height();
        if h[start] == usize::MAX {
            return None;
        }
        let mut out = vec![];
        let mut fuel = fuel;
        let mut stack = vec![Sym::N(start)];
        while let Some(s) = stack.pop() {
            match s {
                Sym::T(x) => out.push(x),
                Sym::N(a) => {
                    let cands: Vec<usize> =
                        self.nts[a].prods.iter().copied().filter(|&pi| self.prod_height(&h, pi) != usize::MAX).collect();
                    let pending: usize = stack
                        .iter()
                        .map(|s| match s {
                            Sym::T(_) => 1,
                            Sym::N(x) => m[*x],
                        })
                        .sum();
                    let pick = if fuel > 0 && out.len() + pending < max_len {
                        fuel -= 1;
                        cands[t.below(cands.len())]
                    } else {
                        *cands.iter().min_by_key(|&&pi| (self.prod_height(&h, pi), self.prod_min_len(&m, pi))).unwrap()
                    };
                    for s in self.prods[pick].rhs.iter().rev() {
                        stack.push(*s);
                    }
                }
            }
            if out.len() > 4096 {
                return None;
            }
        }
        Some(out)
    }
}

// ------------------------------------------------------------------ Earley

/// Result of running the Earley recogniser of `start` over `input`.
pub struct Earley {
    pub accepted: bool,
    /// number of tokens after which the item set became empty (the shortest
    /// non-viable prefix has this length), or None if every prefix is viable.
    /// Only meaningful for grammars reduced from `start`.
    pub dead_at: Option<usize>,
    /// valid continuations after each viable prefix length k (terminals),
    /// and whether end-of-input is acceptable there
    pub next: Vec<(BTreeSet<usize>, bool)>,
}

pub fn earley(g: &Core, start: usize, input: &[usize]) -> Earley {
    // Work on the productive sub-grammar so that a non-empty item set means
    // "viable prefix".
    let productive = g.productive();
    let nullable = g.nullable();
    let ok_prod: Vec<bool> = g
        .prods
        .iter()
        .map(|p| p.rhs.iter().all(|s| match s {
            Sym::T(_) => true,
            Sym::N(x) => productive[*x],
        }))
        .collect();
    // item = (prod, dot, origin); prod == usize::MAX is the augmented S' -> start
    type Item = (usize, usize, usize);
    let n = input.len();
    let mut sets: Vec<Vec<Item>> = vec![vec![]; n + 1];
    let mut seen: Vec<HashSet<Item>> = vec![HashSet::new(); n + 1];
    let rhs_of = |p: usize| -> Vec<Sym> {
        if p == usize::MAX {
            vec![Sym::N(start)]
        } else {
            g.prods[p].rhs.clone()
        }
    };
    let lhs_of = |p: usize| -> usize {
        if p == usize::MAX {
            usize::MAX
        } else {
            g.prods[p].lhs
        }
    };
    let mut res = Earley { accepted: false, dead_at: None, next: vec![] };
    if !productive[start] {
        res.dead_at = Some(0);
        return res;
    }
    sets[0].push((usize::MAX, 0, 0));
    seen[0].insert((usize::MAX, 0, 0));
    for pos in 0..=n {
        let mut i = 0;
        while i < sets[pos].len() {
            let (p, dot, origin) = sets[pos][i];
            i += 1;
            let rhs = rhs_of(p);
            if dot < rhs.len() {
                match rhs[dot] {
                    Sym::N(b) => {
                        for &bp in &g.nts[b].prods {
                            if ok_prod[bp] {
                                let it = (bp, 0, pos);
                                if seen[pos].insert(it) {
                                    sets[pos].push(it);
                                }
                            }
                        }
                        if nullable[b] {
                            let it = (p, dot + 1, origin);
                            if seen[pos].insert(it) {
                                sets[pos].push(it);
                            }
                        }
                    }
                    Sym::T(t) => {
                        if pos < n && input[pos] == t {
                            let it = (p, dot + 1, origin);
                            if seen[pos + 1].insert(it) {
                                sets[pos + 1].push(it);
                            }
                        }
                    }
                }
            } else {
                // complete
                let a = lhs_of(p);
                if a == usize::MAX {
                    continue;
                }
                let mut k = 0;
                while k < sets[origin].len() {
                    let (q, qdot, qorig) = sets[origin][k];
                    k += 1;
                    let qrhs = rhs_of(q);
                    if qdot < qrhs.len() && qrhs[qdot] == Sym::N(a) {
                        let it = (q, qdot + 1, qorig);
                        if seen[pos].insert(it) {
                            sets[pos].push(it);
                        }
                    }
                }
            }
        }
        if sets[pos].is_empty() {
            res.dead_at = Some(pos);
            return res;
        }
        let mut conts = BTreeSet::new();
        let mut eof = false;
        for &(p, dot, _) in &sets[pos] {
            let rhs = rhs_of(p);
            if dot < rhs.len() {
                if let Sym::T(t) = rhs[dot] {
                    conts.insert(t);
                }
            } else if p == usize::MAX {
                eof = true;
            }
        }
        res.next.push((conts, eof));
    }
    res.accepted = res.next[n].1;
    res
}

// ------------------------------------------------------- span DP + trees

#[derive(Clone, Debug, PartialEq, Eq)]
pub enum Tree {
    /// terminal `t` at token position `pos`
    Leaf { t: usize, pos: usize },
    /// production `prod` over tokens [lo, hi)
    Node { prod: usize, lo: usize, hi: usize, kids: Vec<Tree> },
}

impl Tree {
    pub fn span(&self) -> (usize, usize) {
        match self {
            Tree::Leaf { pos, .. } => (*pos, *pos + 1),
            Tree::Node { lo, hi, .. } => (*lo, *hi),
        }
    }
    pub fn internal_nodes(&self) -> usize {
        match self {
            Tree::Leaf { .. } => 0,
            Tree::Node { kids, .. } => 1 + kids.iter().map(|k| k.internal_nodes()).sum::<usize>(),
        }
    }
}

pub struct SpanDp<'g> {
    g: &'g Core,
    input: Vec<usize>,
    n: usize,
    /// d[a][i][j]
    d: Vec<Vec<Vec<bool>>>,
}

impl<'g> SpanDp<'g> {
    pub fn new(g: &'g Core, input: &[usize]) -> Self {
        let n = input.len();
        let mut me = SpanDp { g, input: input.to_vec(), n, d: vec![vec![vec![false; n + 1]; n + 1]; g.nts.len()] };
        loop {
            let mut changed = false;
            for p in &g.prods {
                for i in 0..=n {
                    let ends = me.ends(&p.rhs, i);
                    for j in ends {
                        if !me.d[p.lhs][i][j] {
                            me.d[p.lhs][i][j] = true;
                            changed = true;
                        }
                    }
                }
            }
            if !changed {
                break;
            }
        }
        me
    }
    fn ends(&self, rhs: &[Sym], i: usize) -> Vec<usize> {
        let mut cur = vec![false; self.n + 1];
        cur[i] = true;
        for s in rhs {
            let mut nxt = vec![false; self.n + 1];
            for p in 0..=self.n {
                if !cur[p] {
                    continue;
                }
                match s {
                    Sym::T(t) => {
                        if p < self.n && self.input[p] == *t {
                            nxt[p + 1] = true;
                        }
                    }
                    Sym::N(a) => {
                        for q in p..=self.n {
                            if self.d[*a][p][q] {
                                nxt[q] = true;
                            }
                        }
                    }
                }
            }
            cur = nxt;
        }
        (0..=self.n).filter(|&j| cur[j]).collect()
    }
    pub fn member(&self, start: usize) -> bool {
        self.d[start][0][self.n]
    }
    /// number of distinct derivation trees of `start` over the whole input,
    /// capped at `cap` (cyclic derivations count as `cap`).
    pub fn count_trees(&self, start: usize, cap: u64) -> u64 {
        let mut memo: HashMap<(usize, usize, usize), u64> = HashMap::new();
        let mut on: HashSet<(usize, usize, usize)> = HashSet::new();
        self.count_nt(start, 0, self.n, cap, &mut memo, &mut on)
    }
    fn count_nt(
        &self,
        a: usize,
        i: usize,
        j: usize,
        cap: u64,
        memo: &mut HashMap<(usize, usize, usize), u64>,
        on: &mut HashSet<(usize, usize, usize)>,
    ) -> u64 {
        if !self.d[a][i][j] {
            return 0;
        }
        if let Some(v) = memo.get(&(a, i, j)) {
            return *v;
        }
        if !on.insert((a, i, j)) {
            return cap; // cycle: infinitely many trees
        }
        let mut tot = 0u64;
        for &pi in &self.g.nts[a].prods {
            tot = (tot + self.count_seq(&self.g.prods[pi].rhs, i, j, cap, memo, on)).min(cap);
        }
        on.remove(&(a, i, j));
        memo.insert((a, i, j), tot);
        tot
    }
    fn count_seq(
        &self,
        rhs: &[Sym],
        i: usize,
        j: usize,
        cap: u64,
        memo: &mut HashMap<(usize, usize, usize), u64>,
        on: &mut HashSet<(usize, usize, usize)>,
    ) -> u64 {
        if rhs.is_empty() {
            return (i == j) as u64;
        }
        match rhs[0] {
            Sym::T(t) => {
                if i < j && self.input[i] == t {
                    self.count_seq(&rhs[1..], i + 1, j, cap, memo, on)
                } else {
                    0
                }
            }
            Sym::N(a) => {
                let mut tot = 0u64;
                for k in i..=j {
                    if self.d[a][i][k] {
                        let rest = self.count_seq(&rhs[1..], k, j, cap, memo, on);
                        if rest > 0 {
                            let here = self.count_nt(a, i, k, cap, memo, on);
                            tot = (tot + here.saturating_mul(rest)).min(cap);
                        }
                    }
                }
                tot
            }
        }
    }

    /// A derivation tree of `start` over the whole input (the unique one when
    /// the grammar is unambiguous).
    pub fn tree(&self, start: usize) -> Option<Tree> {
        let mut on = HashSet::new();
        self.tree_nt(start, 0, self.n, &mut on)
    }
    fn tree_nt(&self, a: usize, i: usize, j: usize, on: &mut HashSet<(usize, usize, usize)>) -> Option<Tree> {
        if !self.d[a][i][j] || !on.insert((a, i, j)) {
            return None;
        }
        let mut out = None;
        for &pi in &self.g.nts[a].prods {
            let mut kids = vec![];
            if self.tree_seq(&self.g.prods[pi].rhs, i, j, on, &mut kids) {
                out = Some(Tree::Node { prod: pi, lo: i, hi: j, kids });
                break;
            }
        }
        on.remove(&(a, i, j));
        out
    }
    fn tree_seq(
        &self,
        rhs: &[Sym],
        i: usize,
        j: usize,
        on: &mut HashSet<(usize, usize, usize)>,
        kids: &mut Vec<Tree>,
    ) -> bool {
        if rhs.is_empty() {
            return i == j;
        }
        match rhs[0] {
            Sym::T(t) => {
                if i < j && self.input[i] == t {
                    kids.push(Tree::Leaf { t, pos: i });
                    if self.tree_seq(&rhs[1..], i + 1, j, on, kids) {
                        return true;
                    }
                    kids.pop();
                }
                false
            }
            Sym::N(a) => {
                for k in i..=j {
                    if !self.d[a][i][k] {
                        continue;
                    }
                    // cheap feasibility of the rest before building subtrees
                    if !self.seq_ok(&rhs[1..], k, j) {
                        continue;
                    }
                    if let Some(sub) = self.tree_nt(a, i, k, on) {
                        kids.push(sub);
                        if self.tree_seq(&rhs[1..], k, j, on, kids) {
                            return true;
                        }
                        kids.pop();
                    }
                }
                false
            }
        }
    }
    fn seq_ok(&self, rhs: &[Sym], i: usize, j: usize) -> bool {
        self.ends(rhs, i).contains(&j)
    }
}

// --------------------------------------------------------------- inlining

/// Plain grammar used for LR questions: the Core grammar with every `inline`
/// nonterminal expanded away by cartesian substitution (A.5) and restricted to
/// what is reachable from `start`; augmented later by the LR construction.
#[derive(Clone, Debug)]
pub struct Flat {
    pub nterms: usize,
    pub nnts: usize,
    /// (lhs, rhs)
    pub prods: Vec<(usize, Vec<Sym>)>,
    pub nt_names: Vec<String>,
}

pub fn inline_expand(g: &Core) -> Option<Flat> {
    // expand inline nonterminals bottom-up; recursion among inline nts -> None
    let n = g.nts.len();
    let mut expanded: Vec<Option<Vec<Vec<Sym>>>> = vec![None; n];
    fn expand_nt(g: &Core, a: usize, expanded: &mut Vec<Option<Vec<Vec<Sym>>>>, on: &mut Vec<bool>) -> Option<()> {
        if expanded[a].is_some() {
            return Some(());
        }
        if on[a] {
            return None;
        }
        on[a] = true;
        let mut alts = vec![];
        for &pi in &g.nts[a].prods {
            // cartesian product over inline symbols
            let mut partial: Vec<Vec<Sym>> = vec![vec![]];
            for s in &g.prods[pi].rhs {
                match s {
                    Sym::N(b) if g.nts[*b].inline => {
                        expand_nt(g, *b, expanded, on)?;
                        let subs = expanded[*b].clone().unwrap();
                        let mut next = vec![];
                        for p in &partial {
                            for sub in &subs {
                                let mut q = p.clone();
                                q.extend(sub.iter().copied());
                                next.push(q);
                            }
                        }
                        partial = next;
                        if partial.len() > 4096 {
                            return None;
                        }
                    }
                    other => {
                        for p in &mut partial {
                            p.push(*other);
                        }
                    }
                }
            }
            alts.extend(partial);
        }
        on[a] = false;
        expanded[a] = Some(alts);
        Some(())
    }
    let mut on = vec![false; n];
    for a in 0..n {
        expand_nt(g, a, &mut expanded, &mut on)?;
    }
    let mut prods = vec![];
    for a in 0..n {
        if g.nts[a].inline {
            continue;
        }
        for rhs in expanded[a].as_ref().unwrap() {
            prods.push((a, rhs.clone()));
        }
    }
    Some(Flat { nterms: g.nterms(), nnts: n, prods, nt_names: g.nts.iter().map(|x| x.name.clone()).collect() })
}
