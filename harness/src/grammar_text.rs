//! Grammar *text* utilities shared by C18 / C20 / C24 / C26:
//!
//! * the corpus loader (every `.lalrpop` file of the repository, reached
//!   through `<root>/repo_link`),
//! * a lightweight token splitter for `.lalrpop` text (good enough to mutate
//!   and re-lay-out grammars at token level; it is *not* LALRPOP's tokenizer
//!   and scans embedded Rust the way rustc does, e.g. raw strings),
//! * layout perturbation (whitespace / comments between tokens),
//! * a small template-based generator of *valid* grammars, decoded from a
//!   tape, as a string-level AST (`GGrammar`) that C18 can damage on purpose.
//!
//! Independent of the main grammar generator (gspec); deliberately simple.

use crate::tape::Tape;
use std::path::{Path, PathBuf};

// ---------------------------------------------------------------------------
// corpus

#[derive(Clone, Debug)]
pub struct CorpusFile {
    /// path relative to the repository root
    pub rel: String,
    pub text: String,
}

fn walk(dir: &Path, out: &mut Vec<PathBuf>) {
    let Ok(rd) = std::fs::read_dir(dir) else { return };
    let mut entries: Vec<PathBuf> = rd.filter_map(|e| e.ok().map(|e| e.path())).collect();
    entries.sort();
    for p in entries {
        let name = p.file_name().and_then(|s| s.to_str()).unwrap_or("").to_string();
        if p.is_dir() {
            if name == "target" || name == ".git" {
                continue;
            }
            walk(&p, out);
        } else if name.ends_with(".lalrpop") {
            out.push(p);
        }
    }
}

/// All `.lalrpop` files of the repository (sorted by relative path).
pub fn corpus(root: &Path) -> Vec<CorpusFile> {
    let repo = root.join("repo_link");
    let mut files = vec![];
    walk(&repo, &mut files);
    let mut out = vec![];
    for f in files {
        if let Ok(text) = std::fs::read_to_string(&f) {
            let rel = f.strip_prefix(&repo).unwrap_or(&f).to_string_lossy().into_owned();
            out.push(CorpusFile { rel, text });
        }
    }
    out.sort_by(|a, b| a.rel.cmp(&b.rel));
    out
}

// ---------------------------------------------------------------------------
// token splitter

#[derive(Clone, Copy, PartialEq, Eq, Debug, Hash)]
pub enum TK {
    Ident,
    Str,
    Regex,
    Char,
    Lifetime,
    Escape,
    Punct,
    /// the uninterpreted text after `=>`, `=>?` or `use`, up to (not including) the terminator
    Code,
    /// `#![...]`
    Shebang,
    /// anything the splitter does not understand (kept verbatim)
    Other,
}

#[derive(Clone, Debug, PartialEq, Eq, Hash)]
pub struct GTok {
    pub kind: TK,
    pub text: String,
    /// no whitespace / comment between this token and the next one in the source
    pub glued: bool,
}

impl GTok {
    pub fn new(kind: TK, text: &str) -> GTok {
        GTok { kind, text: text.to_string(), glued: false }
    }
}

struct Cur<'a> {
    s: &'a str,
    cs: Vec<(usize, char)>,
    i: usize,
}

impl<'a> Cur<'a> {
    fn new(s: &'a str) -> Self {
        Cur { s, cs: s.char_indices().collect(), i: 0 }
    }
    fn peek(&self) -> Option<char> {
        self.cs.get(self.i).map(|p| p.1)
    }
    fn peek_at(&self, k: usize) -> Option<char> {
        self.cs.get(self.i + k).map(|p| p.1)
    }
    fn pos(&self) -> usize {
        self.cs.get(self.i).map(|p| p.0).unwrap_or(self.s.len())
    }
    fn bump(&mut self) -> Option<char> {
        let c = self.peek();
        if c.is_some() {
            self.i += 1;
        }
        c
    }
    fn eof(&self) -> bool {
        self.i >= self.cs.len()
    }
}

fn is_id_start(c: char) -> bool {
    c == '_' || c.is_alphabetic()
}
fn is_id_cont(c: char) -> bool {
    c == '_' || c.is_alphanumeric()
}

/// skip a `"`-string body (opening quote already consumed); true if terminated
fn skip_string(c: &mut Cur) -> bool {
    while let Some(ch) = c.bump() {
        match ch {
            '\\' => {
                c.bump();
            }
            '"' => return true,
            _ => {}
        }
    }
    false
}

/// at `r`/`br` prefix consumed; cursor at `#` or `"`. Skips a raw string
/// (`#`* `"` ... `"` `#`*), rustc rules. Returns false if it is not a raw
/// string start (cursor restored) or unterminated (cursor at EOF).
fn skip_raw_string(c: &mut Cur) -> bool {
    let save = c.i;
    let mut hashes = 0;
    while c.peek() == Some('#') {
        c.bump();
        hashes += 1;
    }
    if c.peek() != Some('"') {
        c.i = save;
        return false;
    }
    c.bump();
    loop {
        match c.bump() {
            None => return false,
            Some('"') => {
                let mut k = 0;
                while k < hashes && c.peek() == Some('#') {
                    c.bump();
                    k += 1;
                }
                if k == hashes {
                    return true;
                }
            }
            _ => {}
        }
    }
}

/// `'` consumed. Lifetime / label or char literal, rustc-like.
fn skip_quote(c: &mut Cur) {
    match c.peek() {
        Some('\\') => {
            c.bump();
            c.bump();
            // up to closing quote (covers \u{..}, \x..)
            while let Some(ch) = c.bump() {
                if ch == '\'' {
                    break;
                }
            }
        }
        Some(ch) if is_id_start(ch) => {
            // 'a' (char) or 'abc (lifetime)
            if c.peek_at(1) == Some('\'') {
                c.bump();
                c.bump();
            } else {
                while c.peek().map_or(false, is_id_cont) {
                    c.bump();
                }
            }
        }
        Some(_) => {
            c.bump();
            if c.peek() == Some('\'') {
                c.bump();
            }
        }
        None => {}
    }
}

/// skip a block comment, `/*` consumed; nested
fn skip_block_comment(c: &mut Cur) -> bool {
    let mut depth = 1;
    while let Some(ch) = c.bump() {
        if ch == '/' && c.peek() == Some('*') {
            c.bump();
            depth += 1;
        } else if ch == '*' && c.peek() == Some('/') {
            c.bump();
            depth -= 1;
            if depth == 0 {
                return true;
            }
        }
    }
    false
}

/// Scan embedded Rust up to the terminator (`,` `;` or a closing delimiter at
/// depth 0). Returns the byte range (untrimmed).
fn scan_code(c: &mut Cur) -> (usize, usize) {
    let start = c.pos();
    let mut depth = 0usize;
    loop {
        let Some(ch) = c.peek() else { return (start, c.s.len()) };
        match ch {
            '"' => {
                c.bump();
                skip_string(c);
            }
            '\'' => {
                c.bump();
                skip_quote(c);
            }
            '/' if c.peek_at(1) == Some('/') => {
                while let Some(x) = c.peek() {
                    if x == '\n' {
                        break;
                    }
                    c.bump();
                }
            }
            '/' if c.peek_at(1) == Some('*') => {
                c.bump();
                c.bump();
                skip_block_comment(c);
            }
            ch if is_id_start(ch) => {
                let w0 = c.i;
                while c.peek().map_or(false, is_id_cont) {
                    c.bump();
                }
                let word: String = c.cs[w0..c.i].iter().map(|p| p.1).collect();
                if matches!(word.as_str(), "r" | "br" | "cr") && matches!(c.peek(), Some('"') | Some('#')) {
                    skip_raw_string(c);
                } else if matches!(word.as_str(), "b" | "c") && c.peek() == Some('"') {
                    c.bump();
                    skip_string(c);
                } else if word == "b" && c.peek() == Some('\'') {
                    c.bump();
                    skip_quote(c);
                }
            }
            '(' | '[' | '{' => {
                depth += 1;
                c.bump();
            }
            ')' | ']' | '}' => {
                if depth == 0 {
                    return (start, c.pos());
                }
                depth -= 1;
                c.bump();
            }
            ',' | ';' if depth == 0 => return (start, c.pos()),
            _ => {
                c.bump();
            }
        }
    }
}

/// Split `.lalrpop` text into tokens. Never fails; what it does not understand
/// becomes `TK::Other`.
pub fn split(text: &str) -> Vec<GTok> {
    let mut c = Cur::new(text);
    let mut out: Vec<GTok> = vec![];
    // position just after the previous token, to compute `glued`
    let mut last_end: Option<usize> = None;
    macro_rules! push {
        ($kind:expr, $lo:expr, $hi:expr) => {{
            let lo: usize = $lo;
            let hi: usize = $hi;
            if let (Some(le), Some(prev)) = (last_end, out.last_mut()) {
                prev.glued = le == lo;
            }
            out.push(GTok { kind: $kind, text: text[lo..hi].to_string(), glued: false });
            last_end = Some(hi);
        }};
    }
    // after `=>`, `=>?`, `use`: a code token
    macro_rules! code {
        () => {{
            let (lo, hi) = scan_code(&mut c);
            let raw = &text[lo..hi];
            let t = raw.trim();
            let off = raw.len() - raw.trim_start().len();
            let (tlo, thi) = if t.is_empty() { (lo, lo) } else { (lo + off, lo + off + t.len()) };
            push!(TK::Code, tlo, thi);
            // the terminator follows the code region directly unless whitespace was trimmed
            last_end = Some(if t.is_empty() { hi } else { thi });
            if !t.is_empty() && thi != hi {
                last_end = Some(usize::MAX - 1); // never glued
            }
        }};
    }
    while !c.eof() {
        let lo = c.pos();
        let ch = c.peek().unwrap();
        if ch.is_whitespace() {
            c.bump();
            continue;
        }
        if ch == '/' && c.peek_at(1) == Some('/') {
            while let Some(x) = c.peek() {
                if x == '\n' {
                    break;
                }
                c.bump();
            }
            continue;
        }
        if ch == '/' && c.peek_at(1) == Some('*') {
            c.bump();
            c.bump();
            if !skip_block_comment(&mut c) {
                push!(TK::Other, lo, text.len());
            }
            continue;
        }
        if is_id_start(ch) {
            if ch == 'r' && matches!(c.peek_at(1), Some('"') | Some('#')) {
                c.bump();
                let save = c.i;
                if skip_raw_string(&mut c) || c.eof() {
                    push!(TK::Regex, lo, c.pos());
                    continue;
                }
                c.i = save;
                // r#ident or stray: fall through as identifier-ish
                while c.peek().map_or(false, |x| is_id_cont(x) || x == '#') {
                    c.bump();
                }
                push!(TK::Ident, lo, c.pos());
                continue;
            }
            while c.peek().map_or(false, is_id_cont) {
                c.bump();
            }
            let hi = c.pos();
            push!(TK::Ident, lo, hi);
            if &text[lo..hi] == "use" {
                code!();
            }
            continue;
        }
        match ch {
            '"' => {
                c.bump();
                skip_string(&mut c);
                push!(TK::Str, lo, c.pos());
            }
            '\'' => {
                c.bump();
                // LALRPOP's own rule: 'ident' is a char literal, 'ident a lifetime
                if c.peek().map_or(false, is_id_start) {
                    while c.peek().map_or(false, is_id_cont) {
                        c.bump();
                    }
                    if c.peek() == Some('\'') {
                        c.bump();
                        push!(TK::Char, lo, c.pos());
                    } else {
                        push!(TK::Lifetime, lo, c.pos());
                    }
                } else {
                    let mut esc = false;
                    let mut closed = false;
                    while let Some(x) = c.bump() {
                        if esc {
                            esc = false;
                        } else if x == '\\' {
                            esc = true;
                        } else if x == '\'' {
                            closed = true;
                            break;
                        }
                    }
                    push!(if closed { TK::Char } else { TK::Other }, lo, c.pos());
                }
            }
            '`' => {
                c.bump();
                while let Some(x) = c.bump() {
                    if x == '`' {
                        break;
                    }
                }
                push!(TK::Escape, lo, c.pos());
            }
            '#' => {
                if c.peek_at(1) == Some('!') && c.peek_at(2) == Some('[') {
                    // #![ ... ] with nested brackets and strings, on one line
                    let save = c.i;
                    c.bump();
                    c.bump();
                    c.bump();
                    let mut depth = 1;
                    let mut ok = false;
                    while let Some(x) = c.peek() {
                        match x {
                            '[' => {
                                depth += 1;
                                c.bump();
                            }
                            ']' => {
                                depth -= 1;
                                c.bump();
                                if depth == 0 {
                                    ok = true;
                                    break;
                                }
                            }
                            '"' => {
                                c.bump();
                                skip_string(&mut c);
                            }
                            '\n' => break,
                            _ => {
                                c.bump();
                            }
                        }
                    }
                    if ok {
                        push!(TK::Shebang, lo, c.pos());
                    } else {
                        c.i = save;
                        c.bump();
                        push!(TK::Punct, lo, c.pos());
                    }
                } else {
                    c.bump();
                    push!(TK::Punct, lo, c.pos());
                }
            }
            '=' => {
                c.bump();
                match c.peek() {
                    Some('=') => {
                        c.bump();
                        push!(TK::Punct, lo, c.pos());
                    }
                    Some('>') => {
                        c.bump();
                        if c.peek() == Some('@') && matches!(c.peek_at(1), Some('L') | Some('R')) {
                            c.bump();
                            c.bump();
                            push!(TK::Punct, lo, c.pos());
                        } else {
                            if c.peek() == Some('?') {
                                c.bump();
                            }
                            push!(TK::Punct, lo, c.pos());
                            code!();
                        }
                    }
                    _ => push!(TK::Punct, lo, c.pos()),
                }
            }
            ':' | '.' | '~' => {
                c.bump();
                if c.peek() == Some(ch) {
                    c.bump();
                }
                push!(TK::Punct, lo, c.pos());
            }
            '!' => {
                c.bump();
                if matches!(c.peek(), Some('=') | Some('~')) {
                    c.bump();
                }
                push!(TK::Punct, lo, c.pos());
            }
            '-' => {
                c.bump();
                if c.peek() == Some('>') {
                    c.bump();
                }
                push!(TK::Punct, lo, c.pos());
            }
            '@' => {
                c.bump();
                if matches!(c.peek(), Some('L') | Some('R')) {
                    c.bump();
                }
                push!(TK::Punct, lo, c.pos());
            }
            '&' | ',' | '>' | '<' | '{' | '}' | '[' | ']' | '(' | ')' | '+' | '?' | ';' | '*' => {
                c.bump();
                push!(TK::Punct, lo, c.pos());
            }
            _ => {
                c.bump();
                push!(TK::Other, lo, c.pos());
            }
        }
    }
    out
}

/// Canonical re-emission: one space between tokens, a newline after code that
/// contains a line comment and after `;` / `#![..]`.
pub fn join(toks: &[GTok]) -> String {
    let mut s = String::new();
    for (i, t) in toks.iter().enumerate() {
        s.push_str(&t.text);
        if i + 1 == toks.len() {
            break;
        }
        let next = &toks[i + 1];
        let needs_nl = (t.kind == TK::Code && t.text.contains("//")) || t.kind == TK::Shebang;
        if needs_nl || (t.kind == TK::Punct && t.text == ";") {
            s.push('\n');
        } else if t.kind == TK::Ident && next.text == "<" && t.glued {
            // macro identifier: `Name<` must stay adjacent
        } else {
            s.push(' ');
        }
    }
    s.push('\n');
    s
}

// ---------------------------------------------------------------------------
// layout perturbation (C26a)

const COMMENT_WORDS: &[&str] = &[
    "c", "x y", "=> ;", "}", "{", ")", "\"", "'", "r#\"", "grammar;", "pub X = Y;", "*", "/", "#![a]", "use foo;", "'a", "é",
    "match { _ }", ",", "(", "[", "]", "=>@L", "\\", "`",
];

fn comment_body(t: &mut Tape, code_adjacent: bool) -> String {
    let n = t.range(0, 2);
    let mut s = String::new();
    for i in 0..=n {
        if i > 0 {
            s.push(' ');
        }
        let w = *t.pick(COMMENT_WORDS);
        // a comment next to a code block becomes part of the embedded Rust, where LALRPOP looks
        // for `<>` with a textual heuristic that counts double quotes: keep quotes out of those
        s.push_str(if code_adjacent && w.contains('"') { "q" } else { w });
    }
    s
}

/// a random non-empty separator: whitespace and comments. `//` comments are
/// always closed by a newline.
fn separator(t: &mut Tape, mode: u8) -> String {
    // mode 0: anywhere; 1: next to a code block (no quotes in comments); 2: whitespace only
    let mut s = String::new();
    let parts = t.range(1, 3);
    for _ in 0..parts {
        let ws_only: [u32; 8] = [6, 3, 2, 2, 0, 0, 0, 0];
        match t.weighted(if mode == 2 { &ws_only } else { &[6, 3, 2, 2, 3, 2, 1, 1] }) {
            0 => s.push(' '),
            1 => s.push('\n'),
            2 => s.push_str("\t "),
            3 => s.push_str("\r\n"),
            4 => {
                s.push_str("/* ");
                s.push_str(&comment_body(t, mode == 1).replace("*/", "* /").replace("/*", "/ *"));
                s.push_str(" */");
            }
            5 => {
                s.push_str("// ");
                s.push_str(&comment_body(t, mode == 1));
                s.push('\n');
            }
            6 => {
                // nested block comment
                s.push_str("/* a /* ");
                s.push_str(&comment_body(t, mode == 1).replace("*/", "* /").replace("/*", "/ *"));
                s.push_str(" */ b */");
            }
            _ => s.push_str("/**/"),
        }
    }
    // a block comment directly followed by `/`... cannot happen: tokens never start with `/`.
    s
}

/// May two tokens be written without anything in between, without changing
/// the token sequence? Conservative.
fn can_glue(a: &GTok, b: &GTok) -> bool {
    if a.kind == TK::Shebang || (a.kind == TK::Code && a.text.contains("//")) {
        return false;
    }
    if a.kind == TK::Code && a.text.is_empty() {
        // `=>` glued to its terminator is fine, but handled by the caller
        return true;
    }
    let la = a.text.chars().last().unwrap_or(' ');
    let fb = b.text.chars().next().unwrap_or(' ');
    if a.kind == TK::Code || a.kind == TK::Other || b.kind == TK::Other {
        // code followed by its terminator
        return a.kind == TK::Code && matches!(fb, ',' | ';' | ')' | ']' | '}');
    }
    let safe_end = matches!(la, ';' | ',' | '(' | ')' | '{' | '}' | '[' | ']');
    let safe_start = matches!(fb, ';' | ',' | '(' | ')' | '{' | '}' | '[' | ']');
    safe_end || safe_start
}

/// Re-emit a token list with random layout. Identifier followed by `<` keeps
/// its original adjacency (LALRPOP's `MacroId` token is "identifier
/// immediately followed by `<`" - the one place where the grammar's lexical
/// structure is defined in terms of adjacency).
pub fn layout(toks: &[GTok], t: &mut Tape) -> String {
    let mut s = String::new();
    if t.chance(96) {
        s.push_str(&separator(t, 0));
    }
    for (i, tok) in toks.iter().enumerate() {
        s.push_str(&tok.text);
        if i + 1 == toks.len() {
            break;
        }
        let next = &toks[i + 1];
        // separator vocabulary: next to a code block comments become part of the embedded Rust;
        // next to the code `()` (which LALRPOP elides from the action body) only whitespace
        let unit = |k: &GTok| k.kind == TK::Code && k.text == "()";
        let mode: u8 = if unit(tok) || unit(next) {
            2
        } else if tok.kind == TK::Code || next.kind == TK::Code {
            1
        } else {
            0
        };
        if tok.kind == TK::Ident && next.text == "<" {
            if !tok.glued {
                s.push_str(&separator(t, mode));
            }
            continue;
        }
        let arrow_code = next.kind == TK::Code
            && !next
                .text
                .chars()
                .next()
                .map_or(true, |c| c.is_alphanumeric() || matches!(c, '(' | '{' | '[' | '"' | '_'));
        let must_sep = !can_glue(tok, next) || arrow_code || (tok.kind == TK::Ident && next.kind == TK::Code);
        let needs_nl = (tok.kind == TK::Code && tok.text.contains("//")) || tok.kind == TK::Shebang;
        if needs_nl {
            s.push('\n');
        }
        if must_sep && !needs_nl {
            s.push_str(&separator(t, mode));
        } else {
            match t.weighted(&[3, 5]) {
                0 => {}
                _ => s.push_str(&separator(t, mode)),
            }
        }
    }
    if t.chance(128) {
        s.push_str(&separator(t, 0));
    }
    s
}

// ---------------------------------------------------------------------------
// string-level grammar AST + printer

#[derive(Clone, Debug, Default)]
pub struct GAlt {
    pub attrs: Vec<String>,
    pub syms: Vec<String>,
    /// `X == "y"` (without the `if`)
    pub cond: Option<String>,
    /// including the arrow: `=> code`, `=>? code`, `=>@L`
    pub action: Option<String>,
}

impl GAlt {
    pub fn new(syms: &[&str], action: Option<&str>) -> GAlt {
        GAlt { attrs: vec![], syms: syms.iter().map(|s| s.to_string()).collect(), cond: None, action: action.map(|s| s.to_string()) }
    }
    pub fn attr(mut self, a: &str) -> GAlt {
        self.attrs.push(a.to_string());
        self
    }
    pub fn cond(mut self, c: &str) -> GAlt {
        self.cond = Some(c.to_string());
        self
    }
    fn print(&self, out: &mut String) {
        for a in &self.attrs {
            out.push_str(a);
            out.push(' ');
        }
        out.push_str(&self.syms.join(" "));
        if let Some(c) = &self.cond {
            out.push_str(" if ");
            out.push_str(c);
        }
        if let Some(a) = &self.action {
            out.push(' ');
            out.push_str(a);
        }
    }
}

#[derive(Clone, Debug, Default)]
pub struct GNt {
    pub attrs: Vec<String>,
    /// "", "pub", "pub(crate)"
    pub vis: String,
    pub name: String,
    pub params: Vec<String>,
    pub ty: Option<String>,
    pub alts: Vec<GAlt>,
    /// force `{ .. }` even for a single alternative
    pub braces: bool,
}

impl GNt {
    pub fn new(name: &str, ty: Option<&str>, alts: Vec<GAlt>) -> GNt {
        GNt { attrs: vec![], vis: String::new(), name: name.to_string(), params: vec![], ty: ty.map(|s| s.to_string()), alts, braces: false }
    }
    pub fn params(mut self, ps: &[&str]) -> GNt {
        self.params = ps.iter().map(|s| s.to_string()).collect();
        self
    }
    pub fn attr(mut self, a: &str) -> GNt {
        self.attrs.push(a.to_string());
        self
    }
    pub fn vis(mut self, v: &str) -> GNt {
        self.vis = v.to_string();
        self
    }
    fn print(&self, out: &mut String) {
        for a in &self.attrs {
            out.push_str(a);
            out.push('\n');
        }
        if !self.vis.is_empty() {
            out.push_str(&self.vis);
            out.push(' ');
        }
        out.push_str(&self.name);
        if !self.params.is_empty() {
            out.push('<');
            out.push_str(&self.params.join(", "));
            out.push('>');
        }
        if let Some(t) = &self.ty {
            out.push_str(": ");
            out.push_str(t);
        }
        out.push_str(" = ");
        if self.alts.len() == 1 && !self.braces {
            self.alts[0].print(out);
            out.push_str(";\n");
        } else {
            out.push_str("{\n");
            for a in &self.alts {
                out.push_str("    ");
                a.print(out);
                out.push_str(",\n");
            }
            out.push_str("};\n");
        }
    }
}

#[derive(Clone, Debug)]
pub struct GConv {
    pub attrs: Vec<String>,
    pub from: String,
    pub to: String,
}

#[derive(Clone, Debug)]
pub enum GLexer {
    /// built-in lexer; `rungs` non-empty = a `match { } else { }` block
    Builtin { rungs: Vec<Vec<String>> },
    Extern { assoc: Vec<String>, enum_ty: Option<String>, convs: Vec<GConv> },
}

#[derive(Clone, Debug)]
pub enum GItem {
    Nt(GNt),
    /// verbatim item text (`use x;`, a second `extern`/`match` block, ...)
    Raw(String),
}

#[derive(Clone, Debug)]
pub struct GGrammar {
    pub mod_attrs: Vec<String>,
    pub uses: Vec<String>,
    pub attrs: Vec<String>,
    pub type_params: Vec<String>,
    pub params: Vec<String>,
    pub wheres: Vec<String>,
    pub items: Vec<GItem>,
    pub lexer: GLexer,
    /// lexer section printed before (false) or after (true) the nonterminals
    pub lexer_last: bool,
    /// `--features` to pass
    pub features: Vec<String>,
    // statistics for non-trivial rules
    pub macro_uses: usize,
    pub fragments: Vec<&'static str>,
}

impl GGrammar {
    pub fn nts(&self) -> Vec<usize> {
        self.items.iter().enumerate().filter(|(_, i)| matches!(i, GItem::Nt(_))).map(|(i, _)| i).collect()
    }
    pub fn nt_mut(&mut self, idx: usize) -> &mut GNt {
        match &mut self.items[idx] {
            GItem::Nt(n) => n,
            _ => panic!("not a nonterminal"),
        }
    }
    pub fn nt(&self, idx: usize) -> &GNt {
        match &self.items[idx] {
            GItem::Nt(n) => n,
            _ => panic!("not a nonterminal"),
        }
    }
    pub fn inferred_types(&self) -> usize {
        self.items.iter().filter(|i| matches!(i, GItem::Nt(n) if n.ty.is_none())).count()
    }

    pub fn print_lexer(&self, out: &mut String) {
        match &self.lexer {
            GLexer::Builtin { rungs } => {
                if rungs.is_empty() {
                    return;
                }
                for (i, r) in rungs.iter().enumerate() {
                    out.push_str(if i == 0 { "match {\n" } else { " else {\n" });
                    for e in r {
                        out.push_str("    ");
                        out.push_str(e);
                        out.push_str(",\n");
                    }
                    out.push('}');
                }
                out.push('\n');
            }
            GLexer::Extern { assoc, enum_ty, convs } => {
                out.push_str("extern {\n");
                for a in assoc {
                    out.push_str("    ");
                    out.push_str(a);
                    out.push('\n');
                }
                if let Some(e) = enum_ty {
                    out.push_str("    enum ");
                    out.push_str(e);
                    out.push_str(" {\n");
                    for c in convs {
                        out.push_str("        ");
                        for a in &c.attrs {
                            out.push_str(a);
                            out.push(' ');
                        }
                        out.push_str(&c.from);
                        out.push_str(" => ");
                        out.push_str(&c.to);
                        out.push_str(",\n");
                    }
                    out.push_str("    }\n");
                }
                out.push_str("}\n");
            }
        }
    }

    pub fn print(&self) -> String {
        let mut out = String::new();
        for a in &self.mod_attrs {
            out.push_str(a);
            out.push('\n');
        }
        for u in &self.uses {
            out.push_str("use ");
            out.push_str(u);
            out.push_str(";\n");
        }
        for a in &self.attrs {
            out.push_str(a);
            out.push('\n');
        }
        out.push_str("grammar");
        if !self.type_params.is_empty() {
            out.push('<');
            out.push_str(&self.type_params.join(", "));
            out.push('>');
        }
        if !self.params.is_empty() {
            out.push('(');
            out.push_str(&self.params.join(", "));
            out.push(')');
        }
        if !self.wheres.is_empty() {
            out.push_str(" where ");
            out.push_str(&self.wheres.join(", "));
        }
        out.push_str(";\n\n");
        if !self.lexer_last {
            self.print_lexer(&mut out);
            out.push('\n');
        }
        for it in &self.items {
            match it {
                GItem::Nt(n) => n.print(&mut out),
                GItem::Raw(s) => {
                    out.push_str(s);
                    out.push('\n');
                }
            }
            out.push('\n');
        }
        if self.lexer_last {
            self.print_lexer(&mut out);
        }
        out
    }
}

// ---------------------------------------------------------------------------
// template-based generator of valid grammars

/// Terminal manager: hands out the spelling of a terminal for the grammar
/// body and records what the lexer section has to declare.
struct Terms {
    ext: bool,
    use_match: bool,
    /// (from, to) conversions for extern mode
    convs: Vec<(String, String)>,
    /// entries of the match block, rung 0 and rung 1
    rung0: Vec<String>,
    rung1: Vec<String>,
    n: usize,
}

impl Terms {
    fn add_conv(&mut self, from: &str, to: String) {
        if !self.convs.iter().any(|c| c.0 == from) {
            self.convs.push((from.to_string(), to));
        }
    }
    /// a keyword / punctuation terminal
    fn lit(&mut self, s: &str) -> String {
        let q = format!("\"{}\"", s);
        if self.ext {
            if !self.convs.iter().any(|c| c.0 == q) {
                self.n += 1;
                let v = format!("Tok::P{}", self.n);
                self.add_conv(&q, v);
            }
        } else if self.use_match && !self.rung0.contains(&q) && s.chars().all(|c| c.is_ascii_alphabetic()) {
            // keywords are listed explicitly in the first rung (they win over ID)
            self.rung0.push(q.clone());
        }
        q
    }
    fn num(&mut self) -> String {
        if self.ext {
            self.add_conv("\"num\"", "Tok::Num(<i32>)".into());
            "\"num\"".into()
        } else if self.use_match {
            let e = "r\"[0-9]+\" => NUM".to_string();
            if !self.rung1.contains(&e) {
                self.rung1.push(e);
            }
            "NUM".into()
        } else {
            "r\"[0-9]+\"".into()
        }
    }
    fn id(&mut self) -> String {
        if self.ext {
            self.add_conv("Id", "Tok::Id(<&'input str>)".into());
            "Id".into()
        } else if self.use_match {
            let e = "r\"[a-z][a-z0-9_]*\" => ID".to_string();
            if !self.rung1.contains(&e) {
                self.rung1.push(e);
            }
            "ID".into()
        } else {
            "r\"[a-z][a-z0-9_]*\"".into()
        }
    }
    fn strlit(&mut self) -> String {
        if self.ext {
            self.add_conv("\"str\"", "Tok::Str { value: <String>, .. }".into());
            "\"str\"".into()
        } else {
            "r#\"\"[^\"]*\"\"#".into()
        }
    }
}

struct Builder<'t, 'a> {
    t: &'t mut Tape<'a>,
    tm: Terms,
    items: Vec<GItem>,
    macros: Vec<&'static str>,
    macro_uses: usize,
    features: Vec<String>,
    uses_recovery: bool,
    uses_loc: bool,
    frags: Vec<&'static str>,
}

const STR_TY: &str = "String";

impl<'t, 'a> Builder<'t, 'a> {
    fn push(&mut self, n: GNt) {
        self.items.push(GItem::Nt(n));
    }
    fn str_ref(&self) -> &'static str {
        "&'input str"
    }

    fn need_macro(&mut self, name: &'static str) {
        if self.macros.contains(&name) {
            return;
        }
        self.macros.push(name);
        let n = match name {
            "Comma" => GNt::new(
                "Comma",
                Some("Vec<T>"),
                vec![GAlt::new(
                    &["<mut v:(<T> \",\")*>", "<e:T?>"],
                    Some("=> match e { None => v, Some(e) => { v.push(e); v } }"),
                )],
            )
            .params(&["T"]),
            "Sep" => GNt::new(
                "Sep",
                Some("Vec<T>"),
                vec![
                    GAlt::new(&["<e:T>"], Some("=> vec![e]")),
                    GAlt::new(&["<mut v:Sep<T, S>>", "S", "<e:T>"], Some("=> { v.push(e); v }")),
                ],
            )
            .params(&["T", "S"]),
            "Opt" => GNt::new(
                "Opt",
                Some("Option<T>"),
                vec![
                    GAlt::new(&["<T>"], Some("=> Some(<>)")).cond("Flag == \"yes\""),
                    GAlt::new(&["<x:T>", "\"!\""], Some("=> Some(x)")).cond("Flag != \"yes\""),
                    GAlt::new(&[], Some("=> None")).cond("Flag ~~ \"^(yes|no)$\""),
                ],
            )
            .params(&["T", "Flag"]),
            "Pair" => GNt::new("Pair", Some("(A, B)"), vec![GAlt::new(&["<A>", "\"=\"", "<B>"], Some("=> (<>)"))]).params(&["A", "B"]),
            "Boxed" => GNt::new("Boxed", Some("Box<T>"), vec![GAlt::new(&["<T>"], Some("=> Box::new(<>)"))]).params(&["T"]),
            "Tier" => GNt::new(
                "Tier",
                Some("i64"),
                vec![
                    GAlt::new(&["<l:Tier<Op, Next>>", "<o:Op>", "<r:Next>"], Some("=> apply(o, l, r)")),
                    GAlt::new(&["Next"], None),
                ],
            )
            .params(&["Op", "Next"]),
            "Spanned" => GNt::new("Spanned", Some("(usize, T, usize)"), vec![GAlt::new(&["<@L>", "<T>", "<@R>"], None)]).params(&["T"]),
            _ => unreachable!(),
        };
        // the literals used inside macro bodies
        match name {
            "Comma" => {
                self.tm.lit(",");
            }
            "Opt" => {
                self.tm.lit("!");
            }
            "Pair" => {
                self.tm.lit("=");
            }
            "Spanned" => self.uses_loc = true,
            _ => {}
        }
        self.push(n);
    }

    // ---- fragments: each returns (entry nonterminal, its type) ----

    /// expression grammar with precedence / associativity attributes
    fn frag_expr(&mut self, p: &str) -> (String, String) {
        self.frags.push("precedence");
        let e = format!("{p}Expr");
        let atom = format!("{p}Atom");
        let ops: [&[&str]; 4] = [&["*", "/", "%"], &["+", "-"], &["<<", ">>"], &["==", "<"]];
        let levels = self.t.range(1, 4);
        let mut alts = vec![GAlt::new(&[&atom], None).attr("#[precedence(level=\"0\")]")];
        if self.t.chance(96) {
            // unary prefix at the lowest level (assoc all)
            let m = self.tm.lit("~");
            alts.push(GAlt::new(&[&m, &format!("<e:{e}>")], Some("=> -e")));
        }
        let step = self.t.range(1, 3);
        for l in 0..levels {
            let lvl = (l + 1) * step;
            let nops = self.t.range(1, ops[l].len().min(2));
            // one associativity per level (mixing sides inside a level is ambiguous)
            let side = if l == 3 { "none" } else { *self.t.pick(&["left", "right", "left", "none"]) };
            for k in 0..nops {
                let op = self.tm.lit(ops[l][k]);
                let mut a = GAlt::new(&[&format!("<l:{e}>"), &op, &format!("<r:{e}>")], Some(&format!("=> binop(\"{}\", l, r)", ops[l][k])));
                if k == 0 {
                    a = a.attr(&format!("#[precedence(level=\"{lvl}\")]"));
                    a = a.attr(&format!("#[assoc(side=\"{side}\")]"));
                } else if self.t.chance(64) {
                    a = a.attr(&format!("#[assoc(side=\"{side}\")]"));
                }
                alts.push(a);
            }
        }
        if self.t.chance(64) {
            // right-associative ternary on its own highest level
            let q = self.tm.lit("?");
            let c = self.tm.lit(":");
            alts.push(
                GAlt::new(&[&format!("<c:{e}>"), &q, &format!("<a:{e}>"), &c, &format!("<b:{e}>")], Some("=> if c != 0 { a } else { b }"))
                    .attr(&format!("#[precedence(level=\"{}\")]", 5 * step))
                    .attr("#[assoc(side=\"right\")]"),
            );
        }
        let mut n = GNt::new(&e, Some("i64"), alts);
        n.braces = true;
        self.push(n);
        let num = self.tm.num();
        let (lp, rp) = (self.tm.lit("("), self.tm.lit(")"));
        let mut aalts = vec![GAlt::new(&[&num], Some("=> <>.parse::<i64>().unwrap_or(0)")), GAlt::new(&[&lp, &format!("<{e}>"), &rp], None)];
        if self.t.chance(96) {
            self.need_macro("Comma");
            self.macro_uses += 1;
            let id = self.tm.id();
            aalts.push(GAlt::new(&[&format!("<f:{id}>"), &lp, &format!("<args:Comma<{e}>>"), &rp], Some("=> call(f, args)")));
        }
        self.push(GNt::new(&atom, Some("i64"), aalts));
        (e, "i64".into())
    }

    /// lists through macros, conditional alternatives, nested macro uses
    fn frag_list(&mut self, p: &str) -> (String, String) {
        self.frags.push("macros");
        let item = format!("{p}Item");
        let list = format!("{p}List");
        let id = self.tm.id();
        let num = self.tm.num();
        let inferred = self.t.chance(128);
        self.push(GNt::new(
            &item,
            if inferred { None } else { Some(self.str_ref()) },
            if inferred { vec![GAlt::new(&[&id], None)] } else { vec![GAlt::new(&[&id], None), GAlt::new(&[&num], None)] },
        ));
        let (lb, rb) = (self.tm.lit("["), self.tm.lit("]"));
        let mut syms = vec![lb.clone()];
        let mut tys = vec![];
        match self.t.below(4) {
            0 => {
                self.need_macro("Comma");
                syms.push(format!("<Comma<{item}>>"));
                tys.push("Vec");
            }
            1 => {
                self.need_macro("Sep");
                let semi = self.tm.lit("|");
                syms.push(format!("<Sep<{item}, {semi}>>"));
                tys.push("Vec");
            }
            2 => {
                self.need_macro("Comma");
                self.need_macro("Pair");
                self.macro_uses += 1;
                syms.push(format!("<Comma<Pair<{item}, {num}>>>"));
                tys.push("Vec");
            }
            _ => {
                self.need_macro("Sep");
                self.need_macro("Boxed");
                self.macro_uses += 1;
                let semi = self.tm.lit("|");
                syms.push(format!("<Sep<Boxed<{item}>, {semi}>>"));
                tys.push("Vec");
            }
        }
        self.macro_uses += 1;
        syms.push(rb);
        if self.t.chance(128) {
            self.need_macro("Opt");
            self.macro_uses += 1;
            let flag = *self.t.pick(&["\"yes\"", "\"no\""]);
            syms.push(format!("<Opt<{num}, {flag}>>"));
            tys.push("Opt");
        }
        let s: Vec<&str> = syms.iter().map(|s| s.as_str()).collect();
        // inferred type (macro-heavy inference) unless a second selected symbol makes a tuple
        self.push(GNt::new(&list, None, vec![GAlt::new(&s, None)]));
        (list, "_".into())
    }

    /// `#[inline]` operators and a tiered expression built from a macro
    fn frag_inline(&mut self, p: &str) -> (String, String) {
        self.frags.push("inline");
        let op = format!("{p}Op");
        let bin = format!("{p}Bin");
        let leaf = format!("{p}Leaf");
        let plus = self.tm.lit("+");
        let minus = self.tm.lit("-");
        let star = self.tm.lit("*");
        self.push(GNt::new(&op, Some("char"), vec![GAlt::new(&[&plus], Some("=> '+'")), GAlt::new(&[&minus], Some("=> '-'"))]).attr("#[inline]"));
        let num = self.tm.num();
        self.push(GNt::new(&leaf, Some("i64"), vec![GAlt::new(&[&num], Some("=> <>.len() as i64"))]));
        if self.t.chance(128) {
            self.need_macro("Tier");
            self.macro_uses += 2;
            let mul = format!("{p}MulOp");
            self.push(GNt::new(&mul, Some("char"), vec![GAlt::new(&[&star], Some("=> '*'"))]));
            self.push(GNt::new(&bin, Some("i64"), vec![GAlt::new(&[&format!("Tier<{op}, Tier<{mul}, {leaf}>>")], None)]));
        } else {
            self.push(GNt::new(
                &bin,
                Some("i64"),
                vec![GAlt::new(&[&format!("<l:{bin}>"), &format!("<o:{op}>"), &format!("<r:{leaf}>")], Some("=> apply(o, l, r)")), GAlt::new(&[&leaf], None)],
            ));
        }
        (bin, "i64".into())
    }

    /// `@L` / `@R`, `=>@L`, spanned macro
    fn frag_spans(&mut self, p: &str) -> (String, String) {
        self.frags.push("spans");
        self.uses_loc = true;
        let sp = format!("{p}Span");
        let id = self.tm.id();
        match self.t.below(3) {
            0 => {
                self.push(GNt::new(&sp, Some("(usize, String, usize)"), vec![GAlt::new(&["<l:@L>", &format!("<s:{id}>"), "<r:@R>"], Some("=> (l, s.to_string(), r)"))]));
                (sp, "(usize, String, usize)".into())
            }
            1 => {
                self.need_macro("Spanned");
                self.macro_uses += 1;
                self.push(GNt::new(&sp, None, vec![GAlt::new(&[&format!("Spanned<{id}>")], None)]));
                (sp, "_".into())
            }
            _ => {
                let here = format!("{p}Here");
                self.push(GNt::new(&here, Some("usize"), vec![GAlt::new(&[], Some("=>@L"))]));
                let end = format!("{p}End");
                self.push(GNt::new(&end, Some("usize"), vec![GAlt::new(&[], Some("=>@R"))]));
                self.push(GNt::new(&sp, Some("(usize, usize)"), vec![GAlt::new(&[&format!("<{here}>"), &id, &format!("<{end}>")], None)]));
                (sp, "(usize, usize)".into())
            }
        }
    }

    /// error recovery with `!`
    fn frag_recover(&mut self, p: &str) -> (String, String) {
        self.frags.push("recovery");
        self.uses_recovery = true;
        let st = format!("{p}Stmt");
        let sts = format!("{p}Stmts");
        let num = self.tm.num();
        let semi = self.tm.lit(";");
        self.push(GNt::new(
            &st,
            Some("Option<i64>"),
            vec![GAlt::new(&[&format!("<n:{num}>"), &semi], Some("=> n.parse().ok()")), GAlt::new(&["<e:!>", &semi], Some("=> { errors.push(e.error); None }"))],
        ));
        self.push(GNt::new(&sts, Some("Vec<Option<i64>>"), vec![GAlt::new(&[&format!("{st}+")], None)]));
        (sts, "Vec<Option<i64>>".into())
    }

    /// type annotations with generics, references, dyn, tuples + tuple patterns
    fn frag_types(&mut self, p: &str) -> (String, String) {
        self.frags.push("types");
        let pair = format!("{p}Pair");
        let user = format!("{p}Use");
        let id = self.tm.id();
        let num = self.tm.num();
        let colon = self.tm.lit(":");
        let sr = self.str_ref();
        let nested = self.t.chance(128);
        if nested {
            self.push(GNt::new(
                &pair,
                Some(&format!("({sr}, (Vec<Option<{sr}>>, ::std::collections::HashMap<String, Box<dyn Fn(i32) -> i32>>))")),
                vec![GAlt::new(&[&format!("<k:{id}>"), &colon, &format!("<v:{num}?>")], Some("=> (k, (vec![v], Default::default()))"))],
            ));
            self.push(GNt::new(&user, Some(STR_TY), vec![GAlt::new(&[&format!("<(k, (mut vs, _m)):{pair}>")], Some("=> { vs.clear(); k.to_string() }"))]));
        } else {
            self.push(GNt::new(
                &pair,
                Some(&format!("({sr}, &'static [u8], core::option::Option<(i8, u8)>)")),
                vec![GAlt::new(&[&format!("<k:{id}>"), &colon, &num], Some("=> (k, b\"x\", None)"))],
            ));
            self.push(GNt::new(&user, Some(STR_TY), vec![GAlt::new(&[&format!("<(a, b, mut c):{pair}>")], Some("=> { c = None; format!(\"{}{:?}{:?}\", a, b, c) }"))]));
        }
        (user, STR_TY.into())
    }

    /// repetition operators and groups, inferred types
    fn frag_repeat(&mut self, p: &str) -> (String, String) {
        self.frags.push("repeat");
        let r = format!("{p}Rep");
        let id = self.tm.id();
        let num = self.tm.num();
        let at = self.tm.lit("@");
        let dot = self.tm.lit(".");
        self.macro_uses += 2;
        let variant = self.t.below(4);
        let syms: Vec<String> = match variant {
            0 => vec![format!("<{id}+>"), at.clone(), format!("<({dot} <{num}>)*>")],
            1 => vec![format!("<({id} {dot})+>"), format!("<{num}?>")],
            2 => vec![format!("({at} {at})?"), format!("<(<{id}> {dot} <{num}>)+>")],
            _ => vec![format!("<{id}?>"), at.clone(), format!("<({num}+ {dot})*>"), format!("{at}?")],
        };
        let s: Vec<&str> = syms.iter().map(|s| s.as_str()).collect();
        self.push(GNt::new(&r, None, vec![GAlt::new(&s, None)]));
        (r, "_".into())
    }

    /// cfg attributes on nonterminals and alternatives
    fn frag_cfg(&mut self, p: &str) -> (String, String) {
        self.frags.push("cfg");
        let c = format!("{p}Cfg");
        let off = format!("{p}Off");
        let on_kw = self.tm.lit("on");
        let off_kw = self.tm.lit("off");
        let both = self.tm.lit("both");
        if self.t.chance(128) && !self.features.contains(&"fa".to_string()) {
            self.features.push("fa".into());
        }
        let fa_on = self.features.contains(&"fa".to_string());
        let _ = fa_on;
        self.push(GNt::new(
            &c,
            Some("u8"),
            vec![
                GAlt::new(&[&both], Some("=> 0")),
                GAlt::new(&[&on_kw], Some("=> 1")).attr("#[cfg(feature = \"fa\")]"),
                GAlt::new(&[&off_kw], Some("=> 2")).attr("#[cfg(not(feature = \"fa\"))]"),
                GAlt::new(&[&on_kw, &off_kw], Some("=> 3")).attr("#[cfg(any(feature = \"fa\", all(feature = \"fb\", not(feature = \"fc\"))))]"),
            ],
        ));
        // a disabled, unreferenced nonterminal (mentions an undefined name: must vanish before resolution)
        self.push(GNt::new(&off, Some("u8"), vec![GAlt::new(&[&both, &format!("{p}Undefined")], Some("=> 9"))]).attr("#[cfg(feature = \"never_enabled\")]"));
        (c, "u8".into())
    }

    /// fallible actions, `<>` forms, `mut` bindings, strings
    fn frag_actions(&mut self, p: &str) -> (String, String) {
        self.frags.push("actions");
        let a = format!("{p}Act");
        let num = self.tm.num();
        let s = self.tm.strlit();
        let hash = self.tm.lit("#");
        let bang = self.tm.lit("$");
        self.push(GNt::new(
            &a,
            Some("Node"),
            vec![
                GAlt::new(&[&format!("<{num}>")], Some("=>? <>.parse::<i64>().map(Node::Num).map_err(|_| ParseError::User { error: \"bad number\" })")),
                GAlt::new(&[&hash, &format!("<{s}>"), &format!("<{num}>")], Some("=> Node::Pair(<>)")),
                GAlt::new(&[&bang, &format!("<name:{s}>"), &format!("<mut value:{num}>")], Some("=> { value = value.trim(); Node::Named { <> } }")),
                GAlt::new(&[&bang, &hash, &format!("<{s}>"), &format!("<{s}>")], Some("=> Node::Two(<>.into(), <>.into())")),
            ],
        ));
        (a, "Node".into())
    }
}

/// Decode a small valid grammar from the tape. Zero tape = a one-fragment
/// grammar with the built-in lexer.
pub fn gen_valid(t: &mut Tape) -> GGrammar {
    let ext = t.chance(56);
    let use_match = !ext && t.chance(72);
    let mut b = Builder {
        t,
        tm: Terms { ext, use_match, convs: vec![], rung0: vec![], rung1: vec![], n: 0 },
        items: vec![],
        macros: vec![],
        macro_uses: 0,
        features: vec![],
        uses_recovery: false,
        uses_loc: false,
        frags: vec![],
    };
    let nfrag = b.t.range(1, 4);
    let mut entries: Vec<(String, String)> = vec![];
    let mut used = [false; 9];
    for i in 0..nfrag {
        let p = format!("{}", (b'A' + i as u8) as char);
        let mut k = b.t.weighted(&[4, 4, 2, 2, 2, 2, 3, 2, 2]);
        if used[k] {
            // prefer variety: next unused
            k = (0..9).map(|d| (k + d) % 9).find(|&j| !used[j]).unwrap_or(k);
        }
        used[k] = true;
        let e = match k {
            0 => b.frag_expr(&p),
            1 => b.frag_list(&p),
            2 => b.frag_inline(&p),
            3 => b.frag_spans(&p),
            4 => b.frag_recover(&p),
            5 => b.frag_types(&p),
            6 => b.frag_repeat(&p),
            7 => b.frag_cfg(&p),
            _ => b.frag_actions(&p),
        };
        entries.push(e);
    }
    // start symbol(s)
    let mut top_alts = vec![];
    for (i, (name, _)) in entries.iter().enumerate() {
        if entries.len() == 1 && b.t.chance(128) {
            top_alts.push(GAlt::new(&[name], Some("=> ()")));
        } else {
            let kw = b.tm.lit(&format!("k{i}"));
            top_alts.push(GAlt::new(&[&kw, name], Some("=> ()")));
        }
    }
    let mut top = GNt::new("Top", Some("()"), top_alts).vis("pub");
    top.braces = b.t.chance(128);
    let mut items = vec![GItem::Nt(top)];
    if b.t.chance(64) {
        // a second start symbol that reuses a fragment, with an inferred type
        let (name, _) = entries[0].clone();
        items.push(GItem::Nt(GNt::new("Second", None, vec![GAlt::new(&[&format!("<{name}>")], None)]).vis(*b.t.pick(&["pub", "pub(crate)"]))));
    }
    items.extend(b.items.drain(..));

    // grammar header
    let mut type_params: Vec<String> = vec![];
    let mut params: Vec<String> = vec![];
    let mut wheres: Vec<String> = vec![];
    let mut attrs: Vec<String> = vec![];
    let mut uses: Vec<String> = vec![];
    let mut mod_attrs: Vec<String> = vec![];
    if b.t.chance(96) {
        mod_attrs.push("#![allow(unused_parens, clippy::all)]".into());
    }
    if b.t.chance(160) {
        uses.push("std::str::FromStr".into());
        if b.t.chance(128) {
            uses.push("super::ast::{self, Node, apply, call}".into());
        }
        if b.t.chance(64) {
            uses.push("lalrpop_util::{ErrorRecovery, ParseError}".into());
        }
    }
    if ext {
        type_params.push("'input".into());
    }
    if b.uses_recovery {
        type_params.push("'err".into());
        params.push(format!("errors: &'err mut Vec<ErrorRecovery<usize, {}, &'static str>>", if ext { "Tok<'input>" } else { "Token<'input>" }));
    }
    if b.t.chance(64) {
        type_params.push("T".into());
        params.push("scale: &T".into());
        wheres.push("T: Clone + ::std::fmt::Debug".into());
        if b.t.chance(128) {
            type_params.push("F".into());
            params.push("hook: F".into());
            wheres.push("F: for<'x> Fn(&'x str) -> T".into());
        }
    }
    let ascent_ok = !b.uses_recovery;
    match b.t.weighted(&[6, 2, 2, 1]) {
        1 => attrs.push("#[LALR]".into()),
        2 if ascent_ok => attrs.push("#[recursive_ascent]".into()),
        3 if ascent_ok => {
            attrs.push("#[LALR]".into());
            attrs.push("#[recursive_ascent]".into());
        }
        _ => {}
    }
    let lexer = if ext {
        let mut assoc = vec![];
        if b.uses_loc || b.uses_recovery || b.t.chance(160) {
            assoc.push("type Location = usize;".to_string());
        }
        if b.uses_recovery || b.frags.contains(&"actions") || b.t.chance(96) {
            assoc.push("type Error = &'static str;".to_string());
        }
        let convs = b.tm.convs.iter().map(|(f, to)| GConv { attrs: vec![], from: f.clone(), to: to.clone() }).collect();
        GLexer::Extern { assoc, enum_ty: Some("Tok<'input>".into()), convs }
    } else if use_match {
        let mut rungs = vec![];
        let mut r0 = b.tm.rung0.clone();
        if b.t.chance(96) {
            r0.push("r\"\\s+\" => { }".into());
            r0.push("r\"//[^\\n]*\" => { }".into());
        }
        if r0.is_empty() {
            r0.push("\"unused_kw\"".into());
        }
        rungs.push(r0);
        let mut r1 = b.tm.rung1.clone();
        r1.push("_".into());
        rungs.push(r1);
        GLexer::Builtin { rungs }
    } else {
        GLexer::Builtin { rungs: vec![] }
    };
    let lexer_last = b.t.chance(96);
    GGrammar {
        mod_attrs,
        uses,
        attrs,
        type_params,
        params,
        wheres,
        items,
        lexer,
        lexer_last,
        features: b.features,
        macro_uses: b.macro_uses,
        fragments: b.frags,
    }
}

/// CLI arguments selecting the features of a generated grammar.
pub fn feature_args(g: &GGrammar) -> Vec<String> {
    if g.features.is_empty() {
        vec![]
    } else {
        vec!["--features".to_string(), g.features.join(",")]
    }
}

// ---------------------------------------------------------------------------
// text-level delta debugging (token granularity, then characters of a token)

/// Minimise `text` while `still_fails(slot, text)` holds. Token-level ddmin
/// over the splitter's tokens; all candidates of one chunk size are evaluated
/// in parallel (`slot` = worker-private index for scratch directories), then
/// the successful deletions are combined. `budget` bounds the predicate calls.
pub fn shrink_text<F>(text: &str, budget: usize, threads: usize, still_fails: F) -> String
where
    F: Fn(usize, &str) -> bool + Sync,
{
    let mut toks = split(text);
    let mut spent = 1usize;
    if !still_fails(0, &join(&toks)) {
        return shrink_lines(text, budget, |s| still_fails(0, s));
    }
    let without = |toks: &[GTok], dead: &[(usize, usize)]| -> Vec<GTok> {
        toks.iter().enumerate().filter(|(i, _)| !dead.iter().any(|(lo, hi)| i >= lo && i < hi)).map(|(_, t)| t.clone()).collect()
    };
    let mut progress = true;
    while progress && spent < budget {
        progress = false;
        let mut span = (toks.len() / 2).max(1);
        loop {
            let chunks: Vec<(usize, usize)> = (0..toks.len()).step_by(span).map(|i| (i, (i + span).min(toks.len()))).collect();
            spent += chunks.len();
            let ok = crate::core::par_map(&chunks, threads, |slot, c| still_fails(1 + slot, &join(&without(&toks, &[*c]))));
            let good: Vec<(usize, usize)> = chunks.iter().zip(&ok).filter(|(_, o)| **o).map(|(c, _)| *c).collect();
            if !good.is_empty() {
                spent += 1;
                let all = without(&toks, &good);
                if good.len() == 1 || still_fails(0, &join(&all)) {
                    toks = all;
                } else {
                    // combine greedily, from the back so that indices stay valid
                    let mut cur = without(&toks, &[good[good.len() - 1]]);
                    for c in good.iter().rev().skip(1) {
                        let cand = without(&cur, &[*c]);
                        spent += 1;
                        if still_fails(0, &join(&cand)) {
                            cur = cand;
                        }
                    }
                    toks = cur;
                }
                progress = true;
            }
            if span == 1 || spent >= budget {
                break;
            }
            span = (span / 2).max(1);
        }
    }
    join(&toks)
}

fn shrink_lines<F>(text: &str, budget: usize, mut still_fails: F) -> String
where
    F: FnMut(&str) -> bool,
{
    let mut lines: Vec<String> = text.split_inclusive('\n').map(|s| s.to_string()).collect();
    let mut spent = 1usize;
    let mut progress = true;
    while progress && spent < budget {
        progress = false;
        let mut span = (lines.len() / 2).max(1);
        loop {
            let mut i = 0;
            while i + span <= lines.len() && spent < budget {
                let mut cand = lines.clone();
                cand.drain(i..i + span);
                spent += 1;
                if still_fails(&cand.concat()) {
                    lines = cand;
                    progress = true;
                } else {
                    i += span;
                }
            }
            if span == 1 || spent >= budget {
                break;
            }
            span /= 2;
        }
    }
    lines.concat()
}

/// Byte-level ddmin for inputs that are not UTF-8.
pub fn shrink_bytes<F>(data: &[u8], budget: usize, mut still_fails: F) -> Vec<u8>
where
    F: FnMut(&[u8]) -> bool,
{
    let mut cur = data.to_vec();
    let mut spent = 0usize;
    let mut progress = true;
    while progress && spent < budget {
        progress = false;
        let mut span = (cur.len() / 2).max(1);
        loop {
            let mut i = 0;
            while i + span <= cur.len() && spent < budget {
                let mut cand = cur.clone();
                cand.drain(i..i + span);
                spent += 1;
                if still_fails(&cand) {
                    cur = cand;
                    progress = true;
                } else {
                    i += span;
                }
            }
            if span == 1 || spent >= budget {
                break;
            }
            span /= 2;
        }
    }
    cur
}

// ---------------------------------------------------------------------------
// Rust token streams (oracle side of C24 / C26)

/// Flatten a Rust source text into a sequence of token strings using
/// proc_macro2's lexer (comments and whitespace vanish; groups are
/// recursed into; puncts are taken one character at a time so spacing does
/// not matter). `Err` if the text is not lexable Rust.
pub fn rust_tokens(src: &str) -> Result<Vec<String>, String> {
    use std::str::FromStr;
    let ts = proc_macro2::TokenStream::from_str(src).map_err(|e| e.to_string())?;
    let mut out = Vec::new();
    flatten(ts, &mut out);
    Ok(out)
}

pub fn flatten(ts: proc_macro2::TokenStream, out: &mut Vec<String>) {
    use proc_macro2::{Delimiter, TokenTree};
    for tt in ts {
        match tt {
            TokenTree::Group(g) => {
                let (o, c) = match g.delimiter() {
                    Delimiter::Parenthesis => ("(", ")"),
                    Delimiter::Brace => ("{", "}"),
                    Delimiter::Bracket => ("[", "]"),
                    Delimiter::None => ("", ""),
                };
                if !o.is_empty() {
                    out.push(o.to_string());
                }
                flatten(g.stream(), out);
                if !c.is_empty() {
                    out.push(c.to_string());
                }
            }
            TokenTree::Ident(i) => out.push(i.to_string()),
            TokenTree::Punct(p) => out.push(p.as_char().to_string()),
            TokenTree::Literal(l) => out.push(l.to_string()),
        }
    }
}

/// The generated file minus its two header lines (version, sha3).
pub fn strip_header(rs: &str) -> &str {
    let mut it = rs.splitn(3, '\n');
    let _ = it.next();
    let _ = it.next();
    it.next().unwrap_or("")
}

// ---------------------------------------------------------------------------
// running the CLI under an address-space limit

/// Address-space limit (KiB) for one `lalrpop` process. Normal runs need well
/// under 100 MiB; the limit turns runaway expansion (which would otherwise eat
/// the machine) into an abort that the oracle can observe.
pub const MEM_LIMIT_KIB: u64 = 1024 * 1024;

/// `lalrpop <args>` through `/bin/sh -c 'ulimit -v ..; exec ..'` so that the
/// exit status / signal is the CLI's own.
pub fn cli_cmd(cli: &Path, args: &[String], timeout_s: u64) -> crate::run::Cmd {
    let script = format!("ulimit -v {MEM_LIMIT_KIB}; exec \"$0\" \"$@\"");
    crate::run::Cmd::new("/bin/sh")
        .arg("-c")
        .arg(script)
        .arg(cli.as_os_str().to_os_string())
        .args(args.iter().cloned())
        .timeout_s(timeout_s)
}

/// sha3-256 header line LALRPOP writes for a grammar file with these bytes.
pub fn sha3_line(bytes: &[u8]) -> String {
    use sha3::{Digest, Sha3_256};
    let mut h = Sha3_256::new();
    h.update(bytes);
    let out = h.finalize();
    let hex: String = out.iter().map(|b| format!("{b:02x}")).collect();
    format!("// sha3: {hex}")
}

/// `lv __gtdump <seed> <n> <dir>`: write `n` template grammars (and their
/// feature flags) for inspection.
pub fn dump_main(args: &[String]) -> i32 {
    let seed: u64 = args.first().and_then(|s| s.parse().ok()).unwrap_or(0);
    let n: usize = args.get(1).and_then(|s| s.parse().ok()).unwrap_or(10);
    let dir = PathBuf::from(args.get(2).cloned().unwrap_or_else(|| ".".into()));
    let _ = std::fs::create_dir_all(&dir);
    for (i, tp) in crate::tape::sample_tapes(seed, n, 0, 160).iter().enumerate() {
        let g = gen_valid(&mut Tape::new(tp));
        let _ = std::fs::write(dir.join(format!("g{i}.lalrpop")), g.print());
        let _ = std::fs::write(dir.join(format!("g{i}.flags")), feature_args(&g).join(" "));
    }
    0
}
