//! Shared lexer model for C08(i), C09, C10, C11 (DESIGN E3 "reference lexer",
//! Appendix A.2).
//!
//! * `LexSpec`: the harness's own description of a built-in-lexer section
//!   (terminals, `match` rungs, renamings, skip rules, `_`) and its printer.
//! * `extract`: reads the generated lexer back out of LALRPOP's `.rs` output
//!   (pattern table, `__token_to_integer` arms, `__TERMINAL`) the way rustc
//!   reads it (proc_macro2 tokens + Rust literal unescaping).
//! * `RealLexer`: the real `lalrpop_util::lexer::MatcherBuilder` driven in
//!   process on the extracted patterns.
//! * `RefLexer`: the reference lexer written from the documentation.
//! * `progress_check`: C08(i).
//!
//! Regex generation / sampling lives in `lexgen.rs`, the overlap oracle in
//! `lexoverlap.rs`.

use lalrpop_util::lexer::{MatcherBuilder, Token};
use lalrpop_util::ParseError;
use proc_macro2::{Delimiter, TokenStream, TokenTree};
use regex_automata::meta;
use regex_automata::{Anchored, Input};
use regex_syntax::hir::{Hir, Look};
use serde_json::{json, Value};
use std::cell::RefCell;
use std::collections::HashMap;
use std::str::FromStr;

// ---------------------------------------------------------------------------
// spec

/// Pattern side of a lexer entry: what is matched against the input.
#[derive(Clone, Debug, PartialEq, Eq, Hash, PartialOrd, Ord)]
pub enum Pat {
    Lit(String),
    Re(String),
}

/// User-facing terminal name (what the grammar writes).
#[derive(Clone, Debug, PartialEq, Eq, Hash, PartialOrd, Ord)]
pub enum Term {
    Lit(String),
    Re(String),
    Bare(String),
}

#[derive(Clone, Debug, PartialEq, Eq, Hash)]
pub enum Mapping {
    /// `"x"` / `r"x"` listed as is
    Id,
    /// `pat => NAME`, `pat => "lit"`, `pat => r"name"`
    To(Term),
    /// `pat => { }`
    Skip,
}

#[derive(Clone, Debug, PartialEq, Eq, Hash)]
pub enum Item {
    Entry { pat: Pat, map: Mapping },
    CatchAll,
}

#[derive(Clone, Debug, PartialEq, Eq, Hash)]
pub struct LexSpec {
    /// `match { rung0 } else { rung1 } ...`; None = no match block
    pub rungs: Option<Vec<Vec<Item>>>,
    /// terminals written directly in the grammar and not listed in `match`
    pub extra: Vec<Pat>,
    /// match-entry terminals deliberately *not* referenced by the grammar
    pub unused: Vec<Term>,
    /// selects among equivalent spellings (escapes, hashes)
    pub style: u64,
}

impl Pat {
    pub fn as_term(&self) -> Term {
        match self {
            Pat::Lit(s) => Term::Lit(s.clone()),
            Pat::Re(s) => Term::Re(s.clone()),
        }
    }
    pub fn is_lit(&self) -> bool {
        matches!(self, Pat::Lit(_))
    }
    pub fn text(&self) -> &str {
        match self {
            Pat::Lit(s) | Pat::Re(s) => s,
        }
    }
    pub fn show(&self) -> String {
        self.as_term().display()
    }
}

impl Term {
    /// The display string of a terminal (DESIGN A.7): quoted literal ->
    /// Rust-debug-quoted text; regex -> r#"..."# around the debug-escaped
    /// text; bare name -> the name.
    pub fn display(&self) -> String {
        match self {
            Term::Lit(s) => format!("{s:?}"),
            Term::Re(s) => format!("r#{s:?}#"),
            Term::Bare(s) => s.clone(),
        }
    }
}

fn mix(a: u64, b: u64, c: u64) -> u64 {
    let mut x = a ^ b.wrapping_mul(0x9e3779b97f4a7c15) ^ c.wrapping_mul(0xc2b2ae3d27d4eb4f);
    x ^= x >> 29;
    x = x.wrapping_mul(0xbf58476d1ce4e5b9);
    x ^= x >> 32;
    x
}

/// A quoted literal in `.lalrpop` syntax. Escapes accepted by the grammar
/// tokenizer: `\\ \" \n \r \t \0 \xNN` (N <= 7F). `style` picks among
/// equivalent spellings.
pub fn print_lit(s: &str, style: u64) -> String {
    let mut out = String::from("\"");
    for (i, c) in s.chars().enumerate() {
        let h = mix(style, i as u64, c as u64) % 8;
        let hex = |c: char, upper: bool| {
            if upper {
                format!("\\x{:02X}", c as u32)
            } else {
                format!("\\x{:02x}", c as u32)
            }
        };
        match c {
            '"' => out.push_str(&if style != 0 && h == 7 { hex(c, false) } else { "\\\"".into() }),
            '\\' => out.push_str(&if style != 0 && h == 7 { hex(c, true) } else { "\\\\".into() }),
            '\n' => out.push_str(&match (style != 0, h) {
                (true, 5) | (true, 6) => "\n".to_string(),
                (true, 7) => hex(c, true),
                _ => "\\n".into(),
            }),
            '\t' => out.push_str(&match (style != 0, h) {
                (true, 5) | (true, 6) => "\t".to_string(),
                (true, 7) => hex(c, false),
                _ => "\\t".into(),
            }),
            '\r' => out.push_str(&if style != 0 && h >= 6 { hex(c, false) } else { "\\r".into() }),
            '\0' => out.push_str(&if style != 0 && h >= 6 { hex(c, false) } else { "\\0".into() }),
            c if (c as u32) < 0x20 || c as u32 == 0x7f => out.push_str(&hex(c, h & 1 == 1)),
            c if c.is_ascii() => {
                if style != 0 && h == 7 {
                    out.push_str(&hex(c, h & 1 == 0))
                } else {
                    out.push(c)
                }
            }
            c => out.push(c),
        }
    }
    out.push('"');
    out
}

/// A regex literal `r"..."` / `r#"..."#` with enough hashes.
pub fn print_re(s: &str, style: u64) -> String {
    let mut n = 0usize;
    if s.contains('"') {
        n = 1;
        loop {
            let closer = format!("\"{}", "#".repeat(n));
            if !s.contains(&closer) {
                break;
            }
            n += 1;
        }
    }
    if style != 0 && mix(style, s.len() as u64, 77) % 8 == 0 {
        n += 1;
    }
    format!("r{h}\"{s}\"{h}", h = "#".repeat(n))
}

pub fn print_pat(p: &Pat, style: u64) -> String {
    match p {
        Pat::Lit(s) => print_lit(s, style),
        Pat::Re(s) => print_re(s, style),
    }
}

pub fn print_term(t: &Term, style: u64) -> String {
    match t {
        Term::Lit(s) => print_lit(s, style),
        Term::Re(s) => print_re(s, style),
        Term::Bare(s) => s.clone(),
    }
}

/// One entry of the lexer as the documentation describes it.
#[derive(Clone, Debug)]
pub struct Entry {
    pub pat: Pat,
    /// 0 = first (highest) rung
    pub rung: usize,
    /// None = skip rule
    pub term: Option<Term>,
}

impl LexSpec {
    /// All lexer entries per the documentation: the `match` entries in their
    /// rungs, then the terminals that only appear in the grammar, which join
    /// the rung containing `_` (no `match` block = one rung).
    pub fn entries(&self) -> Vec<Entry> {
        let mut out = vec![];
        let mut catch_rung = 0usize;
        if let Some(rungs) = &self.rungs {
            for (r, items) in rungs.iter().enumerate() {
                for it in items {
                    match it {
                        Item::CatchAll => catch_rung = r,
                        Item::Entry { pat, map } => out.push(Entry {
                            pat: pat.clone(),
                            rung: r,
                            term: match map {
                                Mapping::Id => Some(pat.as_term()),
                                Mapping::To(t) => Some(t.clone()),
                                Mapping::Skip => None,
                            },
                        }),
                    }
                }
            }
        }
        for p in &self.extra {
            out.push(Entry { pat: p.clone(), rung: catch_rung, term: Some(p.as_term()) });
        }
        out
    }

    pub fn has_skip_rule(&self) -> bool {
        self.entries().iter().any(|e| e.term.is_none())
    }

    /// Terminals referenced by the grammar's `T` nonterminal.
    pub fn used_terms(&self) -> Vec<Term> {
        self.entries()
            .into_iter()
            .filter_map(|e| e.term)
            .filter(|t| !self.unused.contains(t))
            .collect()
    }

    /// `.lalrpop` text: `pub S = T*`, one alternative of `T` per terminal.
    pub fn to_lalrpop(&self) -> String {
        let mut s = String::from("grammar;\n\npub S: () = { T* => () };\n\nT: () = {\n");
        for t in self.used_terms() {
            s.push_str(&format!("    {} => (),\n", print_term(&t, self.style)));
        }
        s.push_str("};\n");
        if let Some(rungs) = &self.rungs {
            s.push('\n');
            for (r, items) in rungs.iter().enumerate() {
                s.push_str(if r == 0 { "match {\n" } else { "} else {\n" });
                for it in items {
                    match it {
                        Item::CatchAll => s.push_str("    _,\n"),
                        Item::Entry { pat, map } => {
                            let p = print_pat(pat, self.style);
                            match map {
                                Mapping::Id => s.push_str(&format!("    {p},\n")),
                                // name side sits in a code region: plain spelling
                                Mapping::To(t) => s.push_str(&format!("    {p} => {},\n", print_term(t, 0))),
                                Mapping::Skip => s.push_str(&format!("    {p} => {{ }},\n")),
                            }
                        }
                    }
                }
            }
            s.push_str("}\n");
        }
        s
    }

    /// Self-contained description of the documented semantics of this spec
    /// (stored in replay files so that `--replay` needs no tape).
    pub fn model_json(&self) -> Value {
        model_json(&self.entries())
    }
}

pub fn model_json(entries: &[Entry]) -> Value {
    Value::Array(
        entries
            .iter()
            .map(|e| {
                json!({
                    "kind": if e.pat.is_lit() { "lit" } else { "re" },
                    "text": e.pat.text(),
                    "rung": e.rung,
                    "term": e.term.as_ref().map(|t| t.display()),
                })
            })
            .collect(),
    )
}

// ---------------------------------------------------------------------------
// reading the generated lexer out of LALRPOP's output

#[derive(Clone, Debug, Default)]
pub struct Extracted {
    /// `__strs`: (regex text after Rust unescaping, skip flag)
    pub strs: Vec<(String, bool)>,
    /// `Token(k, _) => Some(i)` arms of `__token_to_integer`: (k, i)
    pub tok2int: Vec<(usize, usize)>,
    /// `__TERMINAL`
    pub terminals: Vec<String>,
}

/// Value of a Rust string literal token (cooked or raw), as rustc reads it.
pub fn unescape_rust_str(lit: &str) -> Result<String, String> {
    if let Some(rest) = lit.strip_prefix('r') {
        let hashes = rest.chars().take_while(|c| *c == '#').count();
        let body = &rest[hashes..];
        if !body.starts_with('"') || body.len() < 2 + hashes {
            return Err(format!("not a string literal: {lit}"));
        }
        let inner = &body[1..body.len() - 1 - hashes];
        if inner.contains('\r') {
            return Err("bare CR in raw string".into());
        }
        return Ok(inner.to_string());
    }
    if !lit.starts_with('"') || !lit.ends_with('"') || lit.len() < 2 {
        return Err(format!("not a string literal: {lit}"));
    }
    let inner = &lit[1..lit.len() - 1];
    let mut out = String::new();
    let mut it = inner.chars().peekable();
    while let Some(c) = it.next() {
        if c != '\\' {
            if c == '\r' {
                return Err("bare CR in string".into());
            }
            out.push(c);
            continue;
        }
        match it.next() {
            Some('n') => out.push('\n'),
            Some('r') => out.push('\r'),
            Some('t') => out.push('\t'),
            Some('\\') => out.push('\\'),
            Some('0') => out.push('\0'),
            Some('\'') => out.push('\''),
            Some('"') => out.push('"'),
            Some('x') => {
                let h: String = it.by_ref().take(2).collect();
                let v = u32::from_str_radix(&h, 16).map_err(|_| format!("bad \\x escape `\\x{h}`"))?;
                if h.len() != 2 || v > 0x7f {
                    return Err(format!("bad \\x escape `\\x{h}`"));
                }
                out.push(v as u8 as char);
            }
            Some('u') => {
                if it.next() != Some('{') {
                    return Err("bad \\u escape".into());
                }
                let mut h = String::new();
                loop {
                    match it.next() {
                        Some('}') => break,
                        Some('_') => {}
                        Some(d) if d.is_ascii_hexdigit() => h.push(d),
                        _ => return Err("bad \\u escape".into()),
                    }
                }
                let v = u32::from_str_radix(&h, 16).map_err(|_| "bad \\u escape".to_string())?;
                out.push(char::from_u32(v).ok_or("bad \\u escape (not a scalar value)")?);
            }
            Some('\n') => {
                while it.peek().map_or(false, |c| c.is_whitespace()) {
                    it.next();
                }
            }
            Some(other) => return Err(format!("unknown character escape `\\{other}`")),
            None => return Err("trailing backslash".into()),
        }
    }
    Ok(out)
}

fn lit_usize(tt: &TokenTree) -> Option<usize> {
    if let TokenTree::Literal(l) = tt {
        let s = l.to_string();
        let digits: String = s.chars().take_while(|c| c.is_ascii_digit()).collect();
        digits.parse().ok()
    } else {
        None
    }
}

fn is_ident(tt: &TokenTree, name: &str) -> bool {
    matches!(tt, TokenTree::Ident(i) if i == name)
}
/// `__name` under LALRPOP's prefix, which is `__` plus as many extra
/// underscores as needed to avoid clashing with the grammar text.
fn is_prefixed(tt: &TokenTree, name: &str) -> bool {
    if let TokenTree::Ident(i) = tt {
        let s = i.to_string();
        s.starts_with("__") && s.trim_start_matches('_') == name
    } else {
        false
    }
}
fn is_punct(tt: &TokenTree, ch: char) -> bool {
    matches!(tt, TokenTree::Punct(p) if p.as_char() == ch)
}

fn group_after_eq(toks: &[TokenTree], from: usize, delim: Delimiter) -> Option<Vec<TokenTree>> {
    let mut j = from;
    while j < toks.len() && !is_punct(&toks[j], '=') {
        if is_punct(&toks[j], ';') {
            return None;
        }
        j += 1;
    }
    while j < toks.len() {
        if let TokenTree::Group(g) = &toks[j] {
            if g.delimiter() == delim {
                return Some(g.stream().into_iter().collect());
            }
        }
        if is_punct(&toks[j], ';') {
            return None;
        }
        j += 1;
    }
    None
}

fn walk(ts: TokenStream, ex: &mut Extracted, seen: &mut [bool; 3]) -> Result<(), String> {
    let toks: Vec<TokenTree> = ts.into_iter().collect();
    for i in 0..toks.len() {
        if i > 0 && is_prefixed(&toks[i], "strs") && is_ident(&toks[i - 1], "let") && !seen[0] {
            let items = group_after_eq(&toks, i, Delimiter::Bracket).ok_or("`__strs` table not found")?;
            seen[0] = true;
            for it in items {
                if let TokenTree::Group(g) = it {
                    let inner: Vec<TokenTree> = g.stream().into_iter().collect();
                    if inner.len() != 3 {
                        return Err(format!("unexpected __strs entry `{g}`"));
                    }
                    let TokenTree::Literal(l) = &inner[0] else {
                        return Err(format!("unexpected __strs entry `{g}`"));
                    };
                    let s = unescape_rust_str(&l.to_string())
                        .map_err(|e| format!("pattern literal {l} is not a valid Rust string: {e}"))?;
                    let skip = if is_ident(&inner[2], "true") {
                        true
                    } else if is_ident(&inner[2], "false") {
                        false
                    } else {
                        return Err(format!("unexpected __strs entry `{g}`"));
                    };
                    ex.strs.push((s, skip));
                }
            }
        } else if i > 0 && is_prefixed(&toks[i], "TERMINAL") && is_ident(&toks[i - 1], "const") && !seen[1] {
            let items = group_after_eq(&toks, i, Delimiter::Bracket).ok_or("`__TERMINAL` table not found")?;
            seen[1] = true;
            for it in items {
                if let TokenTree::Literal(l) = it {
                    ex.terminals.push(
                        unescape_rust_str(&l.to_string()).map_err(|e| format!("__TERMINAL entry {l}: {e}"))?,
                    );
                }
            }
        } else if i > 0 && is_prefixed(&toks[i], "token_to_integer") && is_ident(&toks[i - 1], "fn") && !seen[2] {
            // fn body = next brace group
            let body = toks[i..].iter().find_map(|t| match t {
                TokenTree::Group(g) if g.delimiter() == Delimiter::Brace => Some(g.stream()),
                _ => None,
            });
            let body: Vec<TokenTree> = body.ok_or("__token_to_integer has no body")?.into_iter().collect();
            let mpos = body.iter().position(|t| is_ident(t, "match")).ok_or("__token_to_integer: no match")?;
            let arms = body[mpos..]
                .iter()
                .find_map(|t| match t {
                    TokenTree::Group(g) if g.delimiter() == Delimiter::Brace => Some(g.stream()),
                    _ => None,
                })
                .ok_or("__token_to_integer: no arms")?;
            let arms: Vec<TokenTree> = arms.into_iter().collect();
            seen[2] = true;
            let mut ks: Vec<usize> = vec![];
            let mut j = 0;
            while j < arms.len() {
                if is_ident(&arms[j], "Token") {
                    if let Some(TokenTree::Group(g)) = arms.get(j + 1) {
                        let inner: Vec<TokenTree> = g.stream().into_iter().collect();
                        let k = inner.first().and_then(lit_usize).ok_or("Token(..) arm without index")?;
                        ks.push(k);
                        j += 2;
                        continue;
                    }
                }
                if is_ident(&arms[j], "Some") {
                    if let Some(TokenTree::Group(g)) = arms.get(j + 1) {
                        let inner: Vec<TokenTree> = g.stream().into_iter().collect();
                        let i2 = inner.first().and_then(lit_usize).ok_or("Some(..) without integer")?;
                        for k in ks.drain(..) {
                            ex.tok2int.push((k, i2));
                        }
                        j += 2;
                        continue;
                    }
                }
                j += 1;
            }
        }
        if let TokenTree::Group(g) = &toks[i] {
            walk(g.stream(), ex, seen)?;
        }
    }
    Ok(())
}

/// Read the lexer tables from the generated source text.
pub fn extract(rs: &str) -> Result<Extracted, String> {
    let ts = TokenStream::from_str(rs).map_err(|e| format!("generated source does not tokenize: {e}"))?;
    let mut ex = Extracted::default();
    let mut seen = [false; 3];
    walk(ts, &mut ex, &mut seen)?;
    if !seen[0] {
        return Err("no `let __strs` pattern table in the generated source".into());
    }
    if !seen[1] {
        return Err("no `__TERMINAL` table in the generated source".into());
    }
    if !seen[2] {
        return Err("no `__token_to_integer` in the generated source".into());
    }
    Ok(ex)
}

impl Extracted {
    /// Terminal display name for a pattern index, through
    /// `__token_to_integer` and `__TERMINAL`.
    pub fn terminal_of(&self, k: usize) -> Option<&str> {
        let (_, i) = self.tok2int.iter().find(|(kk, _)| *kk == k)?;
        self.terminals.get(*i).map(|s| s.as_str())
    }
    /// Pattern indices mapped to the terminal with this display name.
    pub fn patterns_of(&self, term: &str) -> Vec<usize> {
        let Some(i) = self.terminals.iter().position(|t| t == term) else { return vec![] };
        self.tok2int.iter().filter(|(_, ii)| *ii == i).map(|(k, _)| *k).collect()
    }
    pub fn to_json(&self) -> Value {
        json!({"strs": self.strs, "tok2int": self.tok2int, "terminals": self.terminals})
    }
}

// ---------------------------------------------------------------------------
// the real runtime lexer

pub struct RealLexer {
    pub ex: Extracted,
    builder: MatcherBuilder,
}

#[derive(Clone, Debug, PartialEq, Eq)]
pub enum RealEnd {
    Eof,
    Invalid(usize),
    /// the same empty token was returned twice in a row at this offset: the
    /// iterator state (remaining text, offset) did not change, so it will be
    /// returned forever (deterministic evidence of divergence)
    EmptyLoop(usize),
    /// iteration cap hit without the evidence above
    Cap,
    /// token text is not the input slice of its span
    BadSpan(usize, usize),
    Panic(String),
    OtherErr(String),
}

#[derive(Clone, Debug)]
pub struct RealRun {
    /// (pattern index, lo, hi)
    pub toks: Vec<(usize, usize, usize)>,
    pub end: RealEnd,
    pub calls: usize,
}

impl RealLexer {
    pub fn new(ex: Extracted) -> Result<RealLexer, String> {
        let builder = MatcherBuilder::new(ex.strs.iter().map(|(s, b)| (s.as_str(), *b)))
            .map_err(|e| format!("MatcherBuilder::new failed on the generated pattern table: {e}"))?;
        Ok(RealLexer { ex, builder })
    }

    /// Single-pattern lexer made of entry `k` only (C10).
    pub fn single(pattern: &str) -> Result<RealLexer, String> {
        let ex = Extracted { strs: vec![(pattern.to_string(), false)], tok2int: vec![(0, 0)], terminals: vec!["T".into()] };
        RealLexer::new(ex)
    }

    /// Drive `matcher(input)` to the end, the first error, or deterministic
    /// evidence of divergence. Never loops: at most `len + 3` calls.
    pub fn run(&self, input: &str) -> RealRun {
        let res = std::panic::catch_unwind(std::panic::AssertUnwindSafe(|| self.run_inner(input)));
        match res {
            Ok(r) => r,
            Err(p) => {
                let msg = p
                    .downcast_ref::<String>()
                    .cloned()
                    .or_else(|| p.downcast_ref::<&str>().map(|s| s.to_string()))
                    .unwrap_or_else(|| "panic".into());
                RealRun { toks: vec![], end: RealEnd::Panic(msg), calls: 0 }
            }
        }
    }

    fn run_inner(&self, input: &str) -> RealRun {
        let mut m = self.builder.matcher::<()>(input);
        let mut toks = vec![];
        let cap = input.len() + 3;
        let mut calls = 0;
        loop {
            if calls >= cap {
                return RealRun { toks, end: RealEnd::Cap, calls };
            }
            calls += 1;
            // arms the cfg(lalrpop_verif) hook of lalrpop-util/src/lexer.rs for this call: a loop
            // iteration inside `next` that starts where the previous one started panics
            lalrpop_util::lexer::verif_reset();
            match m.next() {
                None => return RealRun { toks, end: RealEnd::Eof, calls },
                Some(Err(ParseError::InvalidToken { location })) => {
                    return RealRun { toks, end: RealEnd::Invalid(location), calls }
                }
                Some(Err(e)) => return RealRun { toks, end: RealEnd::OtherErr(format!("{e:?}")), calls },
                Some(Ok((lo, Token(k, text), hi))) => {
                    if lo > hi || hi > input.len() || !input.is_char_boundary(lo) || !input.is_char_boundary(hi) || &input[lo..hi] != text {
                        toks.push((k, lo, hi));
                        return RealRun { toks, end: RealEnd::BadSpan(lo, hi), calls };
                    }
                    if lo == hi {
                        // empty token: is the very same token returned again?
                        calls += 1;
                        lalrpop_util::lexer::verif_reset();
                        match m.next() {
                            Some(Ok((lo2, Token(k2, _), hi2))) if lo2 == lo && hi2 == hi && k2 == k => {
                                toks.push((k, lo, hi));
                                return RealRun { toks, end: RealEnd::EmptyLoop(lo), calls };
                            }
                            other => {
                                // progress after an empty token: record and go on
                                toks.push((k, lo, hi));
                                match other {
                                    None => return RealRun { toks, end: RealEnd::Eof, calls },
                                    Some(Err(ParseError::InvalidToken { location })) => {
                                        return RealRun { toks, end: RealEnd::Invalid(location), calls }
                                    }
                                    Some(Err(e)) => {
                                        return RealRun { toks, end: RealEnd::OtherErr(format!("{e:?}")), calls }
                                    }
                                    Some(Ok((lo2, Token(k2, _), hi2))) => toks.push((k2, lo2, hi2)),
                                }
                            }
                        }
                        continue;
                    }
                    toks.push((k, lo, hi));
                }
            }
        }
    }
}

// ---------------------------------------------------------------------------
// C08(i): progress invariant

#[derive(Clone, Debug, Default)]
pub struct Progress {
    pub tokens: usize,
    pub calls: usize,
    pub ended_invalid: bool,
}

/// DESIGN C08(i): every `next()` returns None/Err or a token with
/// `end > start`, or - for an empty token - is not followed by another token
/// at the same offset; total tokens <= len + 1; spans are increasing; no
/// panic. Deterministic (iteration cap = len + 3, and a repeated empty token
/// proves divergence because the iterator state did not change).
pub fn progress_check(real: &RealLexer, input: &str) -> Result<Progress, (String, String)> {
    let run = real.run(input);
    match &run.end {
        RealEnd::EmptyLoop(at) => {
            return Err((
                "C08/lexer/empty-token-loop".into(),
                format!(
                    "lexer returned the same empty token twice at offset {at} of {input:?} (pattern #{} {:?}); its state is unchanged, so it yields empty tokens forever",
                    run.toks.last().map(|t| t.0).unwrap_or(0),
                    run.toks.last().and_then(|t| real.ex.strs.get(t.0)).map(|s| s.0.clone()).unwrap_or_default()
                ),
            ))
        }
        RealEnd::Cap => {
            return Err((
                "C08/lexer/no-progress".into(),
                format!("lexer made {} calls on an input of {} bytes without finishing", run.calls, input.len()),
            ))
        }
        RealEnd::Panic(m) if m.contains("lalrpop_verif: lexer loop made no progress") => {
            return Err((
                "C08/lexer/spins-inside-next".into(),
                format!("one call of the built-in lexer's next() never returns on {input:?}: two iterations of its loop started at the same offset ({m}); the lexer state is (text, offset) only"),
            ))
        }
        RealEnd::Panic(m) => {
            return Err((format!("C08/lexer/panic/{}", crate::run::normalise_msg(m)), format!("lexer panicked on {input:?}: {m}")))
        }
        RealEnd::BadSpan(lo, hi) => {
            return Err(("C08/lexer/bad-span".into(), format!("token span {lo}..{hi} is not a slice of {input:?} equal to the token text")))
        }
        RealEnd::OtherErr(e) => return Err(("C08/lexer/unexpected-error".into(), format!("lexer returned {e} on {input:?}"))),
        RealEnd::Eof | RealEnd::Invalid(_) => {}
    }
    if run.toks.len() > input.len() + 1 {
        return Err(("C08/lexer/too-many-tokens".into(), format!("{} tokens for {} bytes", run.toks.len(), input.len())));
    }
    let mut prev_hi = 0usize;
    for (i, (_, lo, hi)) in run.toks.iter().enumerate() {
        if *lo < prev_hi || hi < lo {
            return Err(("C08/lexer/non-monotone-spans".into(), format!("token {i} spans {lo}..{hi} after offset {prev_hi}")));
        }
        prev_hi = *hi;
    }
    Ok(Progress { tokens: run.toks.len(), calls: run.calls, ended_invalid: matches!(run.end, RealEnd::Invalid(_)) })
}

// ---------------------------------------------------------------------------
// reference matcher for one regex: an independently configured engine
// (regex meta engine without lazy/dense DFAs) built from the ORIGINAL text,
// anchored at both ends; the longest match is found by trying every end.

pub fn parse_hir(re: &str) -> Result<Hir, String> {
    regex_syntax::ParserBuilder::new().unicode(true).utf8(true).build().parse(re).map_err(|e| e.to_string())
}

/// A repetition whose operand is itself a repetition, e.g. `(?:a{2})?`
/// (finding F15: regex-syntax prints it without the group).
pub fn has_nested_repetition(h: &Hir) -> bool {
    use regex_syntax::hir::HirKind;
    match h.kind() {
        HirKind::Empty | HirKind::Literal(_) | HirKind::Class(_) | HirKind::Look(_) => false,
        HirKind::Repetition(r) => matches!(r.sub.kind(), HirKind::Repetition(_)) || has_nested_repetition(&r.sub),
        HirKind::Capture(c) => has_nested_repetition(&c.sub),
        HirKind::Concat(v) | HirKind::Alternation(v) => v.iter().any(has_nested_repetition),
    }
}

/// The regex as regex-syntax prints its HIR, if the original has a nested
/// repetition (None otherwise): the reading that explains finding F15.
pub fn printed_if_nested(re: &str) -> Option<String> {
    let h = parse_hir(re).ok()?;
    has_nested_repetition(&h).then(|| h.to_string())
}

pub struct FullMatcher {
    full: meta::Regex,
    prefix: meta::Regex,
}

impl FullMatcher {
    pub fn from_hir(hir: &Hir) -> Result<FullMatcher, String> {
        let cfg = meta::Config::new().hybrid(false).dfa(false);
        let full_hir = Hir::concat(vec![hir.clone(), Hir::look(Look::End)]);
        let full = meta::Regex::builder().configure(cfg.clone()).build_from_hir(&full_hir).map_err(|e| e.to_string())?;
        let prefix = meta::Regex::builder().configure(cfg).build_from_hir(hir).map_err(|e| e.to_string())?;
        Ok(FullMatcher { full, prefix })
    }
    pub fn new(re: &str) -> Result<FullMatcher, String> {
        FullMatcher::from_hir(&parse_hir(re)?)
    }
    /// does the regex match exactly the whole of `w`?
    pub fn full_match(&self, w: &str) -> bool {
        self.full.is_match(Input::new(w).anchored(Anchored::Yes))
    }
    /// length of the longest prefix of `text` matched (None = no prefix).
    pub fn longest_prefix(&self, text: &str) -> Option<usize> {
        if !self.prefix.is_match(Input::new(text).anchored(Anchored::Yes)) {
            return None;
        }
        let mut ends: Vec<usize> = text.char_indices().map(|(i, _)| i).collect();
        ends.push(text.len());
        for &e in ends.iter().rev() {
            if self.full_match(&text[..e]) {
                return Some(e);
            }
        }
        None
    }
}

thread_local! {
    static FM_CACHE: RefCell<HashMap<String, Option<std::rc::Rc<FullMatcher>>>> = RefCell::new(HashMap::new());
}

pub fn full_matcher(re: &str) -> Option<std::rc::Rc<FullMatcher>> {
    FM_CACHE.with(|c| {
        let mut c = c.borrow_mut();
        if c.len() > 4000 {
            c.clear();
        }
        c.entry(re.to_string()).or_insert_with(|| FullMatcher::new(re).ok().map(std::rc::Rc::new)).clone()
    })
}

// ---------------------------------------------------------------------------
// the reference lexer (DESIGN A.2)

pub struct RefPat {
    pub pat: Pat,
    pub rung: usize,
    /// display name of the terminal; None = skipped
    pub term: Option<String>,
    /// the implicit whitespace skip (above everything)
    pub implicit_ws: bool,
    matcher: Option<std::rc::Rc<FullMatcher>>,
}

pub struct RefLexer {
    pub pats: Vec<RefPat>,
}

#[derive(Clone, Debug, PartialEq, Eq)]
pub enum RefEnd {
    Eof,
    Invalid(usize),
    /// two patterns of equal, maximal precedence match the same longest
    /// prefix here: the documentation does not say which wins (only possible
    /// if C11 is violated)
    Tie(usize, usize, usize),
    /// the longest match at this offset is empty (C08 / F3)
    Empty(usize),
}

#[derive(Clone, Debug, Default)]
pub struct RefStats {
    /// positions where >= 2 patterns matched the same (longest) length
    pub equal_len_ties: usize,
    /// positions where the winner has lower precedence than a shorter match
    pub longest_beats_prec: usize,
    /// ties decided by: rung order / literal-before-regex / implicit ws
    pub tie_by_rung: usize,
    pub tie_by_literal: usize,
    pub tie_by_ws: usize,
    pub skipped_segments: usize,
}

#[derive(Clone, Debug)]
pub struct RefRun {
    /// (terminal display name, lo, hi)
    pub toks: Vec<(String, usize, usize)>,
    /// per token: how the winner was decided ("unique", "rung", "literal")
    pub how: Vec<&'static str>,
    pub end: RefEnd,
    pub stats: RefStats,
}

impl RefPat {
    /// precedence key: larger = wins ties
    fn key(&self) -> (u8, i64, u8) {
        if self.implicit_ws {
            (1, 0, 0)
        } else {
            (0, -(self.rung as i64), self.pat.is_lit() as u8)
        }
    }
    fn longest(&self, text: &str) -> Option<usize> {
        match &self.pat {
            Pat::Lit(s) => text.starts_with(s.as_str()).then_some(s.len()),
            Pat::Re(_) => self.matcher.as_ref()?.longest_prefix(text),
        }
    }
}

impl RefLexer {
    pub fn new(entries: &[Entry]) -> Result<RefLexer, String> {
        let mut pats = vec![];
        for e in entries {
            let matcher = match &e.pat {
                Pat::Re(r) => Some(full_matcher(r).ok_or_else(|| format!("reference matcher cannot compile r\"{r}\""))?),
                Pat::Lit(_) => None,
            };
            pats.push(RefPat {
                pat: e.pat.clone(),
                rung: e.rung,
                term: e.term.as_ref().map(|t| t.display()),
                implicit_ws: false,
                matcher,
            });
        }
        // "if no skip rule is given, whitespace is skipped implicitly"
        if !entries.iter().any(|e| e.term.is_none()) {
            pats.push(RefPat {
                pat: Pat::Re(r"\s+".into()),
                rung: 0,
                term: None,
                implicit_ws: true,
                matcher: Some(full_matcher(r"\s+").ok_or("reference matcher cannot compile \\s+")?),
            });
        }
        Ok(RefLexer { pats })
    }

    pub fn from_json(v: &Value) -> Result<RefLexer, String> {
        let mut entries = vec![];
        for e in v.as_array().ok_or("model is not an array")? {
            let text = e["text"].as_str().ok_or("model entry without text")?.to_string();
            let pat = if e["kind"] == "lit" { Pat::Lit(text) } else { Pat::Re(text) };
            entries.push(Entry {
                pat,
                rung: e["rung"].as_u64().unwrap_or(0) as usize,
                // display name is stored verbatim: carry it in a Bare term
                term: e["term"].as_str().map(|s| Term::Bare(s.to_string())),
            });
        }
        RefLexer::new(&entries)
    }

    pub fn run(&self, input: &str) -> RefRun {
        let mut toks = vec![];
        let mut how = vec![];
        let mut stats = RefStats::default();
        let mut pos = 0;
        loop {
            if pos >= input.len() {
                return RefRun { toks, how, end: RefEnd::Eof, stats };
            }
            let rest = &input[pos..];
            let lens: Vec<Option<usize>> = self.pats.iter().map(|p| p.longest(rest)).collect();
            let Some(best) = lens.iter().flatten().copied().max() else {
                return RefRun { toks, how, end: RefEnd::Invalid(pos), stats };
            };
            if best == 0 {
                return RefRun { toks, how, end: RefEnd::Empty(pos), stats };
            }
            let mut cands: Vec<usize> = (0..self.pats.len()).filter(|&i| lens[i] == Some(best)).collect();
            cands.sort_by_key(|&i| std::cmp::Reverse(self.pats[i].key()));
            let w = cands[0];
            let mut decided = "unique";
            if cands.len() >= 2 {
                let (k0, k1) = (self.pats[w].key(), self.pats[cands[1]].key());
                if k0 == k1 {
                    return RefRun { toks, how, end: RefEnd::Tie(pos, w, cands[1]), stats };
                }
                stats.equal_len_ties += 1;
                if k0.0 != k1.0 {
                    stats.tie_by_ws += 1;
                    decided = "implicit-ws";
                } else if k0.1 != k1.1 {
                    stats.tie_by_rung += 1;
                    decided = "rung";
                } else {
                    stats.tie_by_literal += 1;
                    decided = "literal";
                }
            }
            if (0..self.pats.len()).any(|i| lens[i].is_some() && lens[i] != Some(best) && self.pats[i].key() > self.pats[w].key()) {
                stats.longest_beats_prec += 1;
            }
            match &self.pats[w].term {
                Some(t) => {
                    toks.push((t.clone(), pos, pos + best));
                    how.push(decided);
                }
                None => stats.skipped_segments += 1,
            }
            pos += best;
        }
    }
}

// ---------------------------------------------------------------------------
// per-case tallies (filled in worker threads, merged in tape order)

#[derive(Default)]
pub struct Tally {
    pub evals: u64,
    pub classes: std::collections::BTreeMap<String, u64>,
    pub skips: std::collections::BTreeMap<String, u64>,
    pub nontrivial: Vec<u64>,
    pub samples: Vec<Value>,
    /// (signature, what, replay json)
    pub violations: Vec<(String, String, Value)>,
    pub infra: Vec<String>,
    pub inconclusive: u64,
    pub notes: Vec<String>,
}

impl Tally {
    pub fn class(&mut self, name: &str) {
        *self.classes.entry(name.to_string()).or_insert(0) += 1;
    }
    pub fn class_n(&mut self, name: &str, n: u64) {
        if n > 0 {
            *self.classes.entry(name.to_string()).or_insert(0) += n;
        }
    }
    pub fn skip(&mut self, name: &str) {
        *self.skips.entry(name.to_string()).or_insert(0) += 1;
    }
    pub fn nontrivial<T: std::hash::Hash>(&mut self, case: &T) {
        self.nontrivial.push(crate::core::hash_of(case));
    }
    pub fn violation(&mut self, sig: &str, what: &str, replay: Value) {
        self.violations.push((sig.to_string(), what.to_string(), replay));
    }
    /// Merge into the checker; returns the signatures of *new* violations.
    pub fn merge(self, ck: &mut crate::core::Checker) -> Vec<String> {
        ck.evals(self.evals);
        for (k, v) in self.classes {
            ck.class_n(&k, v);
        }
        for (k, v) in self.skips {
            for _ in 0..v {
                ck.skip(&k);
            }
        }
        for h in self.nontrivial {
            ck.nontrivial(&h);
        }
        for s in self.samples {
            ck.sample(s);
        }
        for m in self.infra {
            ck.infra(m);
        }
        ck.inconclusive += self.inconclusive;
        let mut new = vec![];
        for (sig, what, replay) in self.violations {
            if ck.violation(&sig, &what, replay) {
                new.push(sig);
            }
        }
        new
    }
}

// ---------------------------------------------------------------------------
// running LALRPOP on a lexer spec

#[derive(Clone, Debug)]
pub enum LalrOut {
    /// exit 0: text of the generated `.rs`
    Accepted(String),
    Ambiguity(String),
    Unsupported(String),
    InvalidRegex(String),
    Panic(String),
    OtherError(String),
    Timeout,
    Infra(String),
}

impl LalrOut {
    pub fn name(&self) -> &'static str {
        match self {
            LalrOut::Accepted(_) => "accepted",
            LalrOut::Ambiguity(_) => "ambiguity",
            LalrOut::Unsupported(_) => "unsupported-feature",
            LalrOut::InvalidRegex(_) => "invalid-regex",
            LalrOut::Panic(_) => "panic",
            LalrOut::OtherError(_) => "other-error",
            LalrOut::Timeout => "timeout",
            LalrOut::Infra(_) => "infra",
        }
    }
    pub fn detail(&self) -> String {
        match self {
            LalrOut::Accepted(_) => "parser generated".into(),
            LalrOut::Ambiguity(m) | LalrOut::Unsupported(m) | LalrOut::InvalidRegex(m) | LalrOut::Panic(m) | LalrOut::OtherError(m) | LalrOut::Infra(m) => {
                m.clone()
            }
            LalrOut::Timeout => "timeout".into(),
        }
    }
}

/// Write `text` to `<dir>/g.lalrpop`, run the real CLI on it, classify.
pub fn run_lalrpop(cli: &std::path::Path, dir: &std::path::Path, text: &str) -> LalrOut {
    use crate::run::{lalrpop_file, Algo, Exit};
    if let Err(e) = std::fs::create_dir_all(dir) {
        return LalrOut::Infra(format!("mkdir {}: {e}", dir.display()));
    }
    let file = dir.join("g.lalrpop");
    let out_rs = dir.join("g.rs");
    let _ = std::fs::remove_file(&out_rs);
    if let Err(e) = std::fs::write(&file, text) {
        return LalrOut::Infra(format!("write {}: {e}", file.display()));
    }
    let out = lalrpop_file(cli, &file, Algo::Lane, &[]);
    let all = format!("{}{}", out.stdout, out.stderr);
    let first_error = || {
        all.lines().find(|l| l.contains("error:")).map(|l| l.to_string()).unwrap_or_else(|| all.lines().take(4).collect::<Vec<_>>().join(" / "))
    };
    match &out.exit {
        Exit::Timeout => LalrOut::Timeout,
        Exit::SpawnError(e) => LalrOut::Infra(format!("cannot run {}: {e}", cli.display())),
        _ if out.panicked() => LalrOut::Panic(out.panic_signature().unwrap_or_else(|| "panic".into())),
        Exit::Signal(s) => LalrOut::Panic(format!("killed by signal {s}")),
        Exit::Code(0) => match std::fs::read_to_string(&out_rs) {
            Ok(t) => LalrOut::Accepted(t),
            Err(e) => LalrOut::Infra(format!("exit 0 but no output {}: {e}", out_rs.display())),
        },
        Exit::Code(_) => {
            if all.contains("ambiguity detected between the terminal") {
                LalrOut::Ambiguity(first_error())
            } else if all.contains("are not supported in regular expressions") {
                LalrOut::Unsupported(first_error())
            } else if all.contains("invalid regular expression") {
                LalrOut::InvalidRegex(first_error())
            } else {
                LalrOut::OtherError(first_error())
            }
        }
    }
}
