//! E2: the harness's own grammar AST (`GSpec`), its printer to `.lalrpop`
//! text, and its elaboration into the model's `Core` grammar (cfg deletion,
//! precedence tiers, macro / repetition / group expansion by substitution).
//! The elaboration is written from the book and the property statements and
//! never calls LALRPOP.

use crate::model::cfg::{Arg, Core, Sem, Sym};
use serde::{Deserialize, Serialize};
use std::collections::{BTreeSet, HashMap};

#[derive(Clone, Debug, PartialEq, Eq, Hash, Serialize, Deserialize)]
pub enum Ty {
    Str,
    /// the extern token type
    Tok,
    U32,
    Unit,
    Loc,
    /// `&'input str` (built-in lexer terminals)
    StrRef,
    Recov,
    Tup(Vec<Ty>),
    Vec(Box<Ty>),
    Opt(Box<Ty>),
    /// unknown (macro parameter before substitution)
    Param(usize),
}

impl Ty {
    pub fn is_unit(&self) -> bool {
        matches!(self, Ty::Unit) || matches!(self, Ty::Tup(v) if v.is_empty())
    }
}

#[derive(Clone, Copy, Debug, PartialEq, Eq, Hash, Serialize, Deserialize)]
pub enum LocTy {
    Usize,
    /// `Loc` newtype (Copy)
    Newtype,
    /// `CLoc` newtype (Clone only)
    CloneOnly,
}

#[derive(Clone, Debug, PartialEq, Eq, Hash, Serialize, Deserialize)]
pub enum Lexer {
    Extern { loc: LocTy },
    Builtin,
}

#[derive(Clone, Debug, PartialEq, Eq, Hash, Serialize, Deserialize)]
pub struct TermSpec {
    /// spelling in the grammar: `"a"`, `TA`, `r"[0-9]+"`
    pub spell: String,
    /// how LALRPOP prints it in `expected`
    pub display: String,
    /// extern: token kind index (rt::Tok::make); builtin: unused
    pub kind: u32,
    pub ty: Ty,
    /// builtin lexer: texts that lex to this terminal
    pub texts: Vec<String>,
    pub cfg: Option<Pred>,
}

#[derive(Clone, Debug, PartialEq, Eq, Hash, Serialize, Deserialize)]
pub enum Pred {
    Feature(String),
    Not(Box<Pred>),
    All(Vec<Pred>),
    Any(Vec<Pred>),
}

impl Pred {
    pub fn eval(&self, feats: &BTreeSet<String>) -> bool {
        match self {
            Pred::Feature(f) => feats.contains(f),
            Pred::Not(p) => !p.eval(feats),
            Pred::All(ps) => ps.iter().all(|p| p.eval(feats)),
            Pred::Any(ps) => ps.iter().any(|p| p.eval(feats)),
        }
    }
    pub fn print(&self) -> String {
        match self {
            Pred::Feature(f) => format!("feature = \"{f}\""),
            Pred::Not(p) => format!("not({})", p.print()),
            Pred::All(ps) => format!("all({})", ps.iter().map(|p| p.print()).collect::<Vec<_>>().join(", ")),
            Pred::Any(ps) => format!("any({})", ps.iter().map(|p| p.print()).collect::<Vec<_>>().join(", ")),
        }
    }
    pub fn depth(&self) -> usize {
        match self {
            Pred::Feature(_) => 1,
            Pred::Not(p) => 1 + p.depth(),
            Pred::All(ps) | Pred::Any(ps) => 1 + ps.iter().map(|p| p.depth()).max().unwrap_or(0),
        }
    }
    pub fn features(&self, out: &mut BTreeSet<String>) {
        match self {
            Pred::Feature(f) => {
                out.insert(f.clone());
            }
            Pred::Not(p) => p.features(out),
            Pred::All(ps) | Pred::Any(ps) => ps.iter().for_each(|p| p.features(out)),
        }
    }
}

#[derive(Clone, Copy, Debug, PartialEq, Eq, Hash, Serialize, Deserialize)]
pub enum RepOp {
    Star,
    Plus,
    Question,
}

#[derive(Clone, Debug, PartialEq, Eq, Hash, Serialize, Deserialize)]
pub enum TupPat {
    Name(String),
    Tup(Vec<TupPat>),
}

#[derive(Clone, Debug, PartialEq, Eq, Hash, Serialize, Deserialize)]
pub enum Bind {
    None,
    /// `<X>`
    Choose,
    /// `<x:X>` / `<mut x:X>`
    Name(String, bool),
    /// `<(a,(b,c)):X>`
    Tuple(TupPat),
}

#[derive(Clone, Debug, PartialEq, Eq, Hash, Serialize, Deserialize)]
pub enum SymKind {
    T(usize),
    N(usize),
    /// macro parameter (inside a macro body)
    Param(usize),
    Macro(usize, Vec<SymKind>),
    Rep(Box<SymKind>, RepOp),
    Group(Vec<SymSpec>),
    L,
    R,
    Err,
}

#[derive(Clone, Debug, PartialEq, Eq, Hash, Serialize, Deserialize)]
pub struct SymSpec {
    pub bind: Bind,
    pub kind: SymKind,
}

impl SymSpec {
    pub fn plain(kind: SymKind) -> SymSpec {
        SymSpec { bind: Bind::None, kind }
    }
}

#[derive(Clone, Copy, Debug, PartialEq, Eq, Hash, Serialize, Deserialize)]
pub enum Style {
    /// `r!(..; <>)`
    Angle,
    /// `r!(..; <>, <>)` - one `<>` per selected symbol (needs >= 2 anonymous)
    AngleEach,
    /// `r!(..; a, b)` - names written out
    Names,
}

#[derive(Clone, Debug, PartialEq, Eq, Hash, Serialize, Deserialize)]
pub enum Act {
    /// no action code
    Default,
    /// `=> r!(..)` / `=>? rf!(..)`
    User { fallible: bool, style: Style },
    /// `=> cx.unit(id)` (unit-typed nonterminal)
    UnitUser,
    /// `=> ()` (unit-typed nonterminal, nothing logged)
    UnitLit,
}

#[derive(Clone, Copy, Debug, PartialEq, Eq, Hash, Serialize, Deserialize)]
pub enum Assoc {
    Left,
    Right,
    None,
    All,
}

#[derive(Clone, Copy, Debug, PartialEq, Eq, Hash, Serialize, Deserialize)]
pub enum CondOp {
    Eq,
    Ne,
    Match,
    NotMatch,
}

#[derive(Clone, Debug, PartialEq, Eq, Hash, Serialize, Deserialize)]
pub struct Cond {
    pub param: usize,
    pub op: CondOp,
    pub rhs: String,
}

#[derive(Clone, Debug, PartialEq, Eq, Hash, Serialize, Deserialize)]
pub struct AltSpec {
    pub syms: Vec<SymSpec>,
    pub act: Act,
    pub prec: Option<u32>,
    pub assoc: Option<Assoc>,
    pub cfg: Vec<Pred>,
    pub cond: Option<Cond>,
}

impl AltSpec {
    pub fn new(syms: Vec<SymSpec>, act: Act) -> AltSpec {
        AltSpec { syms, act, prec: None, assoc: None, cfg: vec![], cond: None }
    }
}

#[derive(Clone, Debug, PartialEq, Eq, Hash, Serialize, Deserialize)]
pub struct NtSpec {
    pub name: String,
    pub public: bool,
    pub inline: bool,
    /// declared type (printed as annotation)
    pub ty: Option<Ty>,
    pub alts: Vec<AltSpec>,
    pub cfg: Vec<Pred>,
    /// macro definition: parameter names (empty = ordinary nonterminal)
    pub params: Vec<String>,
}

#[derive(Clone, Debug, PartialEq, Eq, Hash, Serialize, Deserialize)]
pub struct GSpec {
    pub lexer: Lexer,
    pub terms: Vec<TermSpec>,
    /// ordinary nonterminals and macro definitions, in file order
    pub nts: Vec<NtSpec>,
    /// declare `type Error = String;` in the extern block
    pub declare_error: bool,
    /// name of the grammar parameter (default `cx`) and of its lifetime (default `cx`)
    #[serde(default = "default_cx")]
    pub cx_name: String,
    #[serde(default = "default_cx")]
    pub lt_name: String,
    /// C19: an extra generic grammar parameter with a where clause
    #[serde(default)]
    pub extra: Option<ExtraParam>,
}

#[derive(Clone, Copy, Debug, PartialEq, Eq, Hash, Serialize, Deserialize)]
pub enum ExtraParam {
    /// `grammar<'cx, T>(cx, extra: &T) where T: Clone`
    Simple,
    /// built-in lexer: `grammar<'cx, T>(cx, extra: &T) where T: 'input`
    OutlivesInput,
    /// `grammar<'cx, 's, T>(cx, extra: &'s T) where T: 's` plus a nonterminal of type `PhantomData<&'s ()>`
    OutlivesUsedLifetime,
    /// `grammar<'cx, T, U>(cx, extra: &T) where T: Into<U>, U: Clone` (U appears nowhere else)
    TwoTypeParams,
}

fn default_cx() -> String {
    "cx".to_string()
}

// ------------------------------------------------------------------ printing

#[derive(Clone, Copy, Debug, PartialEq, Eq, Hash)]
pub struct PrintCfg {
    pub lalr: bool,
    pub ascent: bool,
}

/// Printing mode for conditional compilation (C15)
#[derive(Clone, Debug, PartialEq, Eq, Hash)]
pub enum CfgMode {
    /// print `#[cfg(..)]` attributes as they are
    Keep,
    /// print the grammar with every item whose cfg is false under this
    /// feature set deleted and all cfg attributes removed (action ids and
    /// rendering names keep their original numbering)
    Deleted(BTreeSet<String>),
}

impl PrintCfg {
    pub fn new(lalr: bool, ascent: bool) -> PrintCfg {
        PrintCfg { lalr, ascent }
    }
}

impl GSpec {
    pub fn loc_ty(&self) -> LocTy {
        match self.lexer {
            Lexer::Extern { loc } => loc,
            Lexer::Builtin => LocTy::Usize,
        }
    }
    pub fn loc_ty_name(&self) -> &'static str {
        match self.loc_ty() {
            LocTy::Usize => "usize",
            LocTy::Newtype => "Loc",
            LocTy::CloneOnly => "CLoc",
        }
    }
    pub fn print_ty(&self, t: &Ty) -> String {
        match t {
            Ty::Str => "String".into(),
            Ty::Tok => "Tok".into(),
            Ty::U32 => "u32".into(),
            Ty::Unit => "()".into(),
            Ty::Loc => self.loc_ty_name().into(),
            Ty::StrRef => "&'input str".into(),
            Ty::Recov => match self.lexer {
                Lexer::Extern { .. } => format!("ErrorRecovery<{}, Tok, String>", self.loc_ty_name()),
                Lexer::Builtin => "ErrorRecovery<usize, lalrpop_util::lexer::Token<'input>, String>".into(),
            },
            Ty::Tup(v) => format!("({})", v.iter().map(|x| self.print_ty(x)).collect::<Vec<_>>().join(", ")),
            Ty::Vec(x) => format!("Vec<{}>", self.print_ty(x)),
            Ty::Opt(x) => format!("Option<{}>", self.print_ty(x)),
            Ty::Param(i) => format!("P{i}"),
        }
    }

    fn print_kind(&self, k: &SymKind, params: &[String]) -> String {
        match k {
            SymKind::T(t) => self.terms[*t].spell.clone(),
            SymKind::N(n) => self.nts[*n].name.clone(),
            SymKind::Param(i) => params[*i].clone(),
            SymKind::Macro(m, args) => format!(
                "{}<{}>",
                self.nts[*m].name,
                args.iter().map(|a| self.print_kind(a, params)).collect::<Vec<_>>().join(", ")
            ),
            SymKind::Rep(x, op) => format!(
                "{}{}",
                self.print_kind(x, params),
                match op {
                    RepOp::Star => "*",
                    RepOp::Plus => "+",
                    RepOp::Question => "?",
                }
            ),
            SymKind::Group(syms) => {
                format!("({})", syms.iter().map(|s| self.print_sym(s, params)).collect::<Vec<_>>().join(" "))
            }
            SymKind::L => "@L".into(),
            SymKind::R => "@R".into(),
            SymKind::Err => "!".into(),
        }
    }
    fn print_pat(p: &TupPat) -> String {
        match p {
            TupPat::Name(n) => n.clone(),
            TupPat::Tup(v) => {
                let inner: Vec<String> = v.iter().map(Self::print_pat).collect();
                if inner.len() == 1 {
                    format!("({},)", inner[0])
                } else {
                    format!("({})", inner.join(", "))
                }
            }
        }
    }
    pub fn print_sym(&self, s: &SymSpec, params: &[String]) -> String {
        let k = self.print_kind(&s.kind, params);
        match &s.bind {
            Bind::None => k,
            Bind::Choose => format!("<{k}>"),
            Bind::Name(n, false) => format!("<{n}:{k}>"),
            Bind::Name(n, true) => format!("<mut {n}:{k}>"),
            Bind::Tuple(p) => format!("<{}:{k}>", Self::print_pat(p)),
        }
    }

    /// Stable action id / rendering name of alternative `ai` of item `ni`.
    pub fn action_id(ni: usize, ai: usize) -> u32 {
        (ni * 32 + ai) as u32 + 1
    }
    pub fn action_name(&self, ni: usize, ai: usize) -> String {
        format!("{}_{}", if self.nts[ni].params.is_empty() { "N" } else { "M" }, ni * 32 + ai)
    }

    fn print_action(&self, ni: usize, ai: usize, alt: &AltSpec) -> String {
        match &alt.act {
            Act::Default => String::new(),
            Act::UnitUser => format!(" => {}.unit({})", self.cx_name, Self::action_id(ni, ai)),
            Act::UnitLit => " => ()".to_string(),
            Act::User { fallible, style } => {
                let id = Self::action_id(ni, ai);
                let name = self.action_name(ni, ai);
                let mac = if *fallible { "rf" } else { "r" };
                let arrow = if *fallible { "=>?" } else { "=>" };
                // names bound in this alternative, in order
                let mut names: Vec<String> = vec![];
                let mut muts: Vec<String> = vec![];
                let mut anon = 0usize;
                for s in &alt.syms {
                    match &s.bind {
                        Bind::Name(n, m) => {
                            names.push(n.clone());
                            if *m {
                                muts.push(n.clone());
                            }
                        }
                        Bind::Tuple(p) => {
                            fn leaves(p: &TupPat, out: &mut Vec<String>) {
                                match p {
                                    TupPat::Name(n) => out.push(n.clone()),
                                    TupPat::Tup(v) => v.iter().for_each(|x| leaves(x, out)),
                                }
                            }
                            leaves(p, &mut names);
                        }
                        Bind::Choose => anon += 1,
                        Bind::None => {}
                    }
                }
                let named = !names.is_empty();
                if !named && anon == 0 {
                    anon = alt.syms.len();
                }
                let args = match style {
                    Style::Names if named => names.join(", "),
                    Style::AngleEach if !named && anon >= 2 => vec!["<>"; anon].join(", "),
                    _ => "<>".to_string(),
                };
                let pre: String = muts.iter().map(|m| format!("{m}.push('m'); ")).collect();
                if pre.is_empty() {
                    format!(" {arrow} {mac}!({cx}, {id}, \"{name}\"; {args})", cx = self.cx_name)
                } else {
                    format!(" {arrow} {{ {pre}{mac}!({cx}, {id}, \"{name}\"; {args}) }}", cx = self.cx_name)
                }
            }
        }
    }

    pub fn print(&self, pc: PrintCfg) -> String {
        self.print_mode(pc, &CfgMode::Keep)
    }

    pub fn print_mode(&self, pc: PrintCfg, mode: &CfgMode) -> String {
        let keep = |preds: &[Pred]| -> bool {
            match mode {
                CfgMode::Keep => true,
                CfgMode::Deleted(f) => preds.iter().all(|p| p.eval(f)),
            }
        };
        let show_cfg = matches!(mode, CfgMode::Keep);
        let mut o = String::new();
        o.push_str("use crate::rt::*;\n");
        if pc.lalr {
            o.push_str("#[LALR]\n");
        }
        if pc.ascent {
            o.push_str("#[recursive_ascent]\n");
        }
        match self.extra {
            None => o.push_str(&format!("grammar<'{lt}>({cx}: &'{lt} Cx);\n\n", lt = self.lt_name, cx = self.cx_name)),
            Some(ExtraParam::Simple) => o.push_str(&format!(
                "grammar<'{lt}, XT>({cx}: &'{lt} Cx, extra: &XT) where XT: Clone;\n\n",
                lt = self.lt_name,
                cx = self.cx_name
            )),
            Some(ExtraParam::OutlivesInput) => o.push_str(&format!(
                "grammar<'{lt}, XT>({cx}: &'{lt} Cx, extra: &XT) where XT: 'input;\n\n",
                lt = self.lt_name,
                cx = self.cx_name
            )),
            Some(ExtraParam::OutlivesUsedLifetime) => o.push_str(&format!(
                "grammar<'{lt}, 'xs, XT>({cx}: &'{lt} Cx, extra: &'xs XT) where XT: 'xs;\n\nXPh: std::marker::PhantomData<&'xs ()> = {{\n    => std::marker::PhantomData,\n}};\n\n",
                lt = self.lt_name,
                cx = self.cx_name
            )),
            Some(ExtraParam::TwoTypeParams) => o.push_str(&format!(
                "grammar<'{lt}, XT, XU>({cx}: &'{lt} Cx, extra: &XT) where XT: Into<XU> + Clone, XU: Clone;\n\n",
                lt = self.lt_name,
                cx = self.cx_name
            )),
        }
        if let Lexer::Extern { .. } = self.lexer {
            o.push_str("extern {\n");
            o.push_str(&format!("    type Location = {};\n", self.loc_ty_name()));
            if self.declare_error {
                o.push_str("    type Error = String;\n");
            }
            o.push_str("    enum Tok {\n");
            for t in &self.terms {
                if let Some(p) = &t.cfg {
                    if !keep(std::slice::from_ref(p)) {
                        continue;
                    }
                    if show_cfg {
                        o.push_str(&format!("        #[cfg({})]\n", p.print()));
                    }
                }
                let variant = ["A", "B", "C", "D", "E", "F", "P", "Q"][t.kind as usize];
                let pat = match t.kind {
                    6 => "Tok::P(<u32>)".to_string(),
                    7 => "Tok::Q(<u32>, <u32>)".to_string(),
                    _ => format!("Tok::{variant}(_)"),
                };
                o.push_str(&format!("        {} => {},\n", t.spell, pat));
            }
            o.push_str("    }\n}\n\n");
        }
        for (ni, nt) in self.nts.iter().enumerate() {
            if !keep(&nt.cfg) {
                continue;
            }
            for p in &nt.cfg {
                if show_cfg {
                    o.push_str(&format!("#[cfg({})]\n", p.print()));
                }
            }
            if nt.inline {
                o.push_str("#[inline]\n");
            }
            if nt.public {
                o.push_str("pub ");
            }
            o.push_str(&nt.name);
            if !nt.params.is_empty() {
                o.push_str(&format!("<{}>", nt.params.join(", ")));
            }
            if let Some(t) = &nt.ty {
                o.push_str(&format!(": {}", self.print_ty(t)));
            }
            o.push_str(" = {\n");
            for (ai, alt) in nt.alts.iter().enumerate() {
                if !keep(&alt.cfg) {
                    continue;
                }
                for p in &alt.cfg {
                    if show_cfg {
                        o.push_str(&format!("    #[cfg({})]\n", p.print()));
                    }
                }
                if let Some(l) = alt.prec {
                    o.push_str(&format!("    #[precedence(level=\"{l}\")]"));
                    if alt.assoc.is_none() {
                        o.push('\n');
                    }
                }
                if let Some(a) = alt.assoc {
                    o.push_str(&format!(
                        " #[assoc(side=\"{}\")]\n",
                        match a {
                            Assoc::Left => "left",
                            Assoc::Right => "right",
                            Assoc::None => "none",
                            Assoc::All => "all",
                        }
                    ));
                }
                o.push_str("    ");
                let syms: Vec<String> = alt.syms.iter().map(|s| self.print_sym(s, &nt.params)).collect();
                o.push_str(&syms.join(" "));
                if let Some(c) = &alt.cond {
                    o.push_str(&format!(
                        " if {} {} \"{}\"",
                        nt.params[c.param],
                        match c.op {
                            CondOp::Eq => "==",
                            CondOp::Ne => "!=",
                            CondOp::Match => "~~",
                            CondOp::NotMatch => "!~",
                        },
                        c.rhs
                    ));
                }
                o.push_str(&self.print_action(ni, ai, alt));
                o.push_str(",\n");
            }
            o.push_str("};\n\n");
        }
        o
    }
}

// -------------------------------------------------------------- elaboration

#[derive(Debug)]
pub enum ElabError {
    /// the harness's own type discipline was violated by the generator
    Type(String),
    /// construct outside what the model handles
    Unsupported(String),
}

/// Structural key of an expanded helper nonterminal.
#[derive(Clone, Debug, PartialEq, Eq, Hash)]
enum Key {
    Macro(usize, Vec<RKind>),
    Rep(Box<RKind>, RepOp),
    Group(Vec<(BindTag, RKind)>),
    L,
    R,
}

#[derive(Clone, Debug, PartialEq, Eq, Hash)]
enum BindTag {
    None,
    Choose,
}

/// A resolved (parameter-free) symbol kind.
#[derive(Clone, Debug, PartialEq, Eq, Hash)]
pub enum RKind {
    T(usize),
    /// surface nonterminal by index, after precedence-tier resolution: (nt, tier)
    N(usize, Option<usize>),
    Macro(usize, Vec<RKind>),
    Rep(Box<RKind>, RepOp),
    Group(Vec<(Bind, RKind)>),
    L,
    R,
    Err,
}

pub struct Elab<'a> {
    pub g: &'a GSpec,
    pub feats: BTreeSet<String>,
    pub core: Core,
    /// surface nt index -> core nt per tier (last = loosest = the name itself)
    nt_map: HashMap<(usize, Option<usize>), usize>,
    helper: HashMap<Key, usize>,
    /// core nt -> value type
    pub tys: Vec<Option<Ty>>,
    /// sorted precedence levels of annotated nonterminals
    tiers: HashMap<usize, Vec<u32>>,
    active_nt: Vec<bool>,
    active_term: Vec<bool>,
    /// terminal index in core per surface terminal
    pub term_map: Vec<Option<usize>>,
    /// number of distinct instantiations per macro
    pub macro_insts: HashMap<usize, usize>,
    pub conds_removed: usize,
    pub cfg_deleted: usize,
    pub cfg_kept: usize,
    pending: Vec<(usize, Pending)>,
}

enum Pending {
    Nt(usize, Option<usize>),
    Macro(usize, Vec<RKind>),
    Rep(RKind, RepOp),
    Group(Vec<(Bind, RKind)>),
}

impl<'a> Elab<'a> {
    pub fn run(g: &'a GSpec, feats: &BTreeSet<String>) -> Result<Elab<'a>, ElabError> {
        let mut e = Elab {
            g,
            feats: feats.clone(),
            core: Core::default(),
            nt_map: HashMap::new(),
            helper: HashMap::new(),
            tys: vec![],
            tiers: HashMap::new(),
            active_nt: vec![],
            active_term: vec![],
            term_map: vec![],
            macro_insts: HashMap::new(),
            conds_removed: 0,
            cfg_deleted: 0,
            cfg_kept: 0,
            pending: vec![],
        };
        e.elaborate()?;
        Ok(e)
    }

    fn note_cfg(&mut self, preds: &[Pred], active: bool) {
        if preds.is_empty() {
            return;
        }
        if active {
            self.cfg_kept += 1;
        } else {
            self.cfg_deleted += 1;
        }
    }

    fn elaborate(&mut self) -> Result<(), ElabError> {
        let g = self.g;
        // terminals (cfg on extern conversions)
        for t in &g.terms {
            let active = t.cfg.as_ref().map_or(true, |p| p.eval(&self.feats));
            if let Some(p) = &t.cfg {
                self.note_cfg(std::slice::from_ref(p), active);
            }
            self.active_term.push(active);
            if active {
                self.core.term_names.push(t.display.clone());
                self.term_map.push(Some(self.core.term_names.len() - 1));
            } else {
                self.term_map.push(None);
            }
        }
        // nonterminals: cfg, tiers
        for (ni, nt) in g.nts.iter().enumerate() {
            let active = nt.cfg.iter().all(|p| p.eval(&self.feats));
            self.note_cfg(&nt.cfg, active);
            self.active_nt.push(active);
            if active {
                for a in &nt.alts {
                    if !a.cfg.is_empty() {
                        let on = a.cfg.iter().all(|p| p.eval(&self.feats));
                        self.note_cfg(&a.cfg, on);
                    }
                }
            }
            if !active || !nt.params.is_empty() {
                continue;
            }
            let alts = self.active_alts(ni);
            let has_prec = alts.first().map_or(false, |&ai| nt.alts[ai].prec.is_some());
            if has_prec {
                let mut lv: Vec<u32> = self.effective_levels(ni).into_iter().map(|(l, _)| l).collect();
                lv.sort_unstable();
                lv.dedup();
                self.tiers.insert(ni, lv);
            }
        }
        // create core nts for pub symbols first, then everything reachable lazily;
        // finally also the unreachable ones (they exist in the grammar LALRPOP sees)
        for ni in 0..g.nts.len() {
            if self.active_nt[ni] && g.nts[ni].params.is_empty() {
                let c = self.core_nt(ni, None);
                if g.nts[ni].public {
                    self.core.starts.push(c);
                }
            }
        }
        self.drain()?;
        Ok(())
    }

    fn active_alts(&mut self, ni: usize) -> Vec<usize> {
        let nt = &self.g.nts[ni];
        let mut out = vec![];
        for (ai, a) in nt.alts.iter().enumerate() {
            if a.cfg.iter().all(|p| p.eval(&self.feats)) {
                out.push(ai);
            }
        }
        out
    }

    /// (level, assoc) of every active alternative, with inheritance (A.3)
    fn effective_levels(&mut self, ni: usize) -> Vec<(u32, Assoc)> {
        let alts = self.active_alts(ni);
        let nt = &self.g.nts[ni];
        let mut out = vec![];
        let mut last = (0u32, Assoc::All);
        for ai in alts {
            let a = &nt.alts[ai];
            let (lvl, base_assoc) = match a.prec {
                Some(l) => (l, Assoc::All),
                None => last,
            };
            let assoc = a.assoc.unwrap_or(base_assoc);
            last = (lvl, assoc);
            out.push((lvl, assoc));
        }
        out
    }

    /// core nonterminal for surface nt `ni` at `tier` (None = the name itself
    /// = loosest tier for annotated nonterminals)
    fn core_nt(&mut self, ni: usize, tier: Option<usize>) -> usize {
        let tier = match (self.tiers.get(&ni), tier) {
            (Some(lv), Some(t)) if t + 1 == lv.len() => None,
            (Some(_), t) => t,
            (None, _) => None,
        };
        if let Some(&c) = self.nt_map.get(&(ni, tier)) {
            return c;
        }
        let nt = &self.g.nts[ni];
        let name = match (tier, self.tiers.get(&ni)) {
            (Some(t), Some(lv)) => format!("{}{}", nt.name, lv[t]),
            _ => nt.name.clone(),
        };
        let c = self.core.add_nt(&name, nt.inline, true);
        self.tys.push(None);
        self.nt_map.insert((ni, tier), c);
        self.pending.push((c, Pending::Nt(ni, tier)));
        c
    }

    fn drain(&mut self) -> Result<(), ElabError> {
        while let Some((c, p)) = self.pending.pop() {
            match p {
                Pending::Nt(ni, tier) => self.fill_nt(c, ni, tier)?,
                Pending::Macro(m, args) => self.fill_macro(c, m, &args)?,
                Pending::Rep(x, op) => self.fill_rep(c, &x, op)?,
                Pending::Group(items) => self.fill_group(c, &items)?,
            }
        }
        Ok(())
    }

    // ---- resolution of surface symbol kinds

    fn resolve(&self, k: &SymKind, args: &[RKind]) -> Result<RKind, ElabError> {
        Ok(match k {
            SymKind::T(t) => RKind::T(*t),
            SymKind::N(n) => RKind::N(*n, None),
            SymKind::Param(i) => args.get(*i).cloned().ok_or_else(|| ElabError::Type("param out of range".into()))?,
            SymKind::Macro(m, a) => {
                RKind::Macro(*m, a.iter().map(|x| self.resolve(x, args)).collect::<Result<Vec<_>, _>>()?)
            }
            SymKind::Rep(x, op) => RKind::Rep(Box::new(self.resolve(x, args)?), *op),
            SymKind::Group(items) => RKind::Group(
                items
                    .iter()
                    .map(|s| Ok((s.bind.clone(), self.resolve(&s.kind, args)?)))
                    .collect::<Result<Vec<_>, ElabError>>()?,
            ),
            SymKind::L => RKind::L,
            SymKind::R => RKind::R,
            SymKind::Err => RKind::Err,
        })
    }

    /// core symbol for a resolved kind (creating helper nonterminals on demand)
    fn sym_of(&mut self, k: &RKind) -> Result<Sym, ElabError> {
        Ok(match k {
            RKind::T(t) => match self.term_map[*t] {
                Some(ct) => Sym::T(ct),
                None => return Err(ElabError::Unsupported("use of a cfg-disabled terminal".into())),
            },
            RKind::N(n, tier) => {
                if !self.active_nt[*n] {
                    return Err(ElabError::Unsupported("use of a cfg-disabled nonterminal".into()));
                }
                Sym::N(self.core_nt(*n, *tier))
            }
            RKind::Err => {
                let t = match self.core.error_term {
                    Some(t) => t,
                    None => {
                        self.core.term_names.push("error".into());
                        let t = self.core.term_names.len() - 1;
                        self.core.error_term = Some(t);
                        t
                    }
                };
                Sym::T(t)
            }
            RKind::L | RKind::R => {
                let key = if *k == RKind::L { Key::L } else { Key::R };
                if let Some(&c) = self.helper.get(&key) {
                    return Ok(Sym::N(c));
                }
                let c = self.core.add_nt(if *k == RKind::L { "@L" } else { "@R" }, true, false);
                self.tys.push(Some(Ty::Loc));
                self.core.add_prod(c, vec![], if *k == RKind::L { Sem::Lookahead } else { Sem::Lookbehind });
                self.helper.insert(key, c);
                Sym::N(c)
            }
            RKind::Macro(m, args) => {
                let key = Key::Macro(*m, args.clone());
                if let Some(&c) = self.helper.get(&key) {
                    return Ok(Sym::N(c));
                }
                *self.macro_insts.entry(*m).or_insert(0) += 1;
                let mdef = &self.g.nts[*m];
                let c = self.core.add_nt(&format!("{}<..#{}>", mdef.name, self.helper.len()), mdef.inline, false);
                self.tys.push(None);
                self.helper.insert(key, c);
                self.pending.push((c, Pending::Macro(*m, args.clone())));
                Sym::N(c)
            }
            RKind::Rep(x, op) => {
                let key = Key::Rep(Box::new((**x).clone()), *op);
                if let Some(&c) = self.helper.get(&key) {
                    return Ok(Sym::N(c));
                }
                // `X*` and `X?` are inlined helpers, `X+` is not (A.4)
                let inline = !matches!(op, RepOp::Plus);
                let c = self.core.add_nt(&format!("rep#{}", self.helper.len()), inline, false);
                self.tys.push(None);
                self.helper.insert(key, c);
                self.pending.push((c, Pending::Rep((**x).clone(), *op)));
                Sym::N(c)
            }
            RKind::Group(items) => {
                let key = Key::Group(
                    items
                        .iter()
                        .map(|(b, k)| {
                            (
                                match b {
                                    Bind::Choose => BindTag::Choose,
                                    _ => BindTag::None,
                                },
                                k.clone(),
                            )
                        })
                        .collect(),
                );
                if let Some(&c) = self.helper.get(&key) {
                    return Ok(Sym::N(c));
                }
                let c = self.core.add_nt(&format!("group#{}", self.helper.len()), true, false);
                self.tys.push(None);
                self.helper.insert(key, c);
                self.pending.push((c, Pending::Group(items.clone())));
                Sym::N(c)
            }
        })
    }

    // ---- types

    pub fn ty_of(&mut self, k: &RKind) -> Result<Ty, ElabError> {
        Ok(match k {
            RKind::T(t) => self.g.terms[*t].ty.clone(),
            RKind::N(n, _) => self.nt_ty(*n)?,
            RKind::L | RKind::R => Ty::Loc,
            RKind::Err => Ty::Recov,
            RKind::Rep(x, RepOp::Question) => Ty::Opt(Box::new(self.ty_of(x)?)),
            RKind::Rep(x, _) => Ty::Vec(Box::new(self.ty_of(x)?)),
            RKind::Group(items) => {
                let sel = selected(&items.iter().map(|(b, _)| b.clone()).collect::<Vec<_>>());
                let mut tys = vec![];
                for i in sel {
                    tys.push(self.ty_of(&items[i].1)?);
                }
                if tys.len() == 1 {
                    tys.pop().unwrap()
                } else {
                    Ty::Tup(tys)
                }
            }
            RKind::Macro(m, args) => {
                let mdef = &self.g.nts[*m];
                if let Some(t) = &mdef.ty {
                    return self.subst_ty(t, args);
                }
                // inferred from the first action-less alternative that is kept
                for alt in &mdef.alts {
                    if let Some(c) = &alt.cond {
                        if !self.eval_cond(c, args)? {
                            continue;
                        }
                    }
                    if matches!(alt.act, Act::Default) {
                        let binds: Vec<Bind> = alt.syms.iter().map(|s| s.bind.clone()).collect();
                        let sel = selected(&binds);
                        let mut tys = vec![];
                        for i in sel {
                            let rk = self.resolve(&alt.syms[i].kind, args)?;
                            tys.push(self.ty_of(&rk)?);
                        }
                        return Ok(if tys.len() == 1 { tys.pop().unwrap() } else { Ty::Tup(tys) });
                    }
                }
                return Err(ElabError::Type(format!("macro {} has no inferable type", mdef.name)));
            }
        })
    }

    fn subst_ty(&mut self, t: &Ty, args: &[RKind]) -> Result<Ty, ElabError> {
        Ok(match t {
            Ty::Param(i) => {
                let a = args.get(*i).cloned().ok_or_else(|| ElabError::Type("ty param".into()))?;
                self.ty_of(&a)?
            }
            Ty::Tup(v) => Ty::Tup(v.iter().map(|x| self.subst_ty(x, args)).collect::<Result<Vec<_>, _>>()?),
            Ty::Vec(x) => Ty::Vec(Box::new(self.subst_ty(x, args)?)),
            Ty::Opt(x) => Ty::Opt(Box::new(self.subst_ty(x, args)?)),
            other => other.clone(),
        })
    }

    pub fn nt_ty(&mut self, ni: usize) -> Result<Ty, ElabError> {
        self.nt_ty_depth(ni, 0)
    }
    fn nt_ty_depth(&mut self, ni: usize, depth: usize) -> Result<Ty, ElabError> {
        let nt = &self.g.nts[ni];
        if let Some(t) = &nt.ty {
            return Ok(t.clone());
        }
        if depth > 16 {
            return Err(ElabError::Type(format!("type inference cycle at {}", nt.name)));
        }
        for ai in self.active_alts(ni) {
            let alt = &self.g.nts[ni].alts[ai];
            if matches!(alt.act, Act::Default) {
                let binds: Vec<Bind> = alt.syms.iter().map(|s| s.bind.clone()).collect();
                let sel = selected(&binds);
                let mut tys = vec![];
                for i in sel {
                    let rk = self.resolve(&alt.syms[i].kind, &[])?;
                    // avoid unbounded recursion through self references
                    let t = match &rk {
                        RKind::N(m, _) if self.g.nts[*m].ty.is_none() => self.nt_ty_depth(*m, depth + 1)?,
                        _ => self.ty_of(&rk)?,
                    };
                    tys.push(t);
                }
                return Ok(if tys.len() == 1 { tys.pop().unwrap() } else { Ty::Tup(tys) });
            }
        }
        Err(ElabError::Type(format!("nonterminal {} has user actions but no declared type", nt.name)))
    }

    // ---- filling

    fn eval_cond(&self, c: &Cond, args: &[RKind]) -> Result<bool, ElabError> {
        let lhs = match args.get(c.param) {
            Some(RKind::T(t)) => {
                let sp = &self.g.terms[*t].spell;
                if sp.starts_with('"') {
                    unescape_grammar_string(&sp[1..sp.len() - 1])
                } else {
                    return Err(ElabError::Unsupported("condition on a non-literal argument".into()));
                }
            }
            _ => return Err(ElabError::Unsupported("condition on a non-literal argument".into())),
        };
        Ok(match c.op {
            CondOp::Eq => lhs == c.rhs,
            CondOp::Ne => lhs != c.rhs,
            CondOp::Match | CondOp::NotMatch => {
                let re = regex::Regex::new(&c.rhs).map_err(|e| ElabError::Unsupported(format!("bad regex: {e}")))?;
                re.is_match(&lhs) == (c.op == CondOp::Match)
            }
        })
    }

    /// Build the production for one alternative: symbols + semantics.
    fn build_alt(
        &mut self,
        lhs: usize,
        item: usize,
        ai: usize,
        alt: &AltSpec,
        kinds: Vec<RKind>,
        nt_unit: bool,
    ) -> Result<(), ElabError> {
        let mut rhs = vec![];
        for k in &kinds {
            rhs.push(self.sym_of(k)?);
        }
        let binds: Vec<Bind> = alt.syms.iter().map(|s| s.bind.clone()).collect();
        let sem = match &alt.act {
            Act::Default => {
                if nt_unit {
                    Sem::Unit
                } else {
                    if binds.iter().any(|b| matches!(b, Bind::Name(..) | Bind::Tuple(..))) {
                        return Err(ElabError::Type("named symbols need an action".into()));
                    }
                    Sem::Tuple(selected(&binds))
                }
            }
            Act::UnitUser => Sem::UnitUser { id: GSpec::action_id(item, ai) },
            Act::UnitLit => Sem::Unit,
            Act::User { fallible, .. } => {
                let named = binds.iter().any(|b| matches!(b, Bind::Name(..) | Bind::Tuple(..)));
                let mut args = vec![];
                if named {
                    for (i, b) in binds.iter().enumerate() {
                        match b {
                            Bind::Name(_, false) => args.push(Arg::Child(i)),
                            Bind::Name(_, true) => {
                                let t = self.ty_of(&kinds[i])?;
                                if t != Ty::Str {
                                    return Err(ElabError::Type("mut binding on non-String".into()));
                                }
                                args.push(Arg::MutChild(i))
                            }
                            Bind::Tuple(p) => {
                                fn walk(p: &TupPat, path: &mut Vec<usize>, i: usize, out: &mut Vec<Arg>) {
                                    match p {
                                        TupPat::Name(_) => out.push(Arg::Field(i, path.clone())),
                                        TupPat::Tup(v) => {
                                            for (j, x) in v.iter().enumerate() {
                                                path.push(j);
                                                walk(x, path, i, out);
                                                path.pop();
                                            }
                                        }
                                    }
                                }
                                walk(p, &mut vec![], i, &mut args);
                            }
                            _ => {}
                        }
                    }
                } else {
                    for i in selected(&binds) {
                        args.push(Arg::Child(i));
                    }
                }
                Sem::User {
                    id: GSpec::action_id(item, ai),
                    name: self.g.action_name(item, ai),
                    fallible: *fallible,
                    args,
                }
            }
        };
        self.core.add_prod(lhs, rhs, sem);
        Ok(())
    }

    fn fill_nt(&mut self, c: usize, ni: usize, tier: Option<usize>) -> Result<(), ElabError> {
        let nt = self.g.nts[ni].clone();
        let ty = self.nt_ty(ni)?;
        self.tys[c] = Some(ty.clone());
        let unit = ty.is_unit();
        let alts = self.active_alts(ni);
        if let Some(levels) = self.tiers.get(&ni).cloned() {
            let eff = self.effective_levels(ni);
            let t = tier.unwrap_or(levels.len() - 1);
            let lvl = levels[t];
            for (k, &ai) in alts.iter().enumerate() {
                if eff[k].0 != lvl {
                    continue;
                }
                let alt = &nt.alts[ai];
                // recursive occurrences in document order
                let mut kinds: Vec<RKind> = vec![];
                for s in &alt.syms {
                    kinds.push(self.resolve(&s.kind, &[])?);
                }
                let total: usize = kinds.iter().map(|k| count_occ(k, ni)).sum();
                let assoc = eff[k].1;
                if t == 0 && assoc != Assoc::All && total > 0 {
                    return Err(ElabError::Unsupported("assoc on the lowest level".into()));
                }
                let mut seen = 0usize;
                for kd in kinds.iter_mut() {
                    retier(kd, ni, &mut seen, total, assoc, t);
                }
                self.build_alt(c, ni, ai, alt, kinds, unit)?;
            }
            if t > 0 {
                // pass-through to the next tighter tier, transparent
                let prev = self.core_nt(ni, Some(t - 1));
                self.core.add_prod(c, vec![Sym::N(prev)], if unit { Sem::Unit } else { Sem::Tuple(vec![0]) });
            }
        } else {
            for ai in alts {
                let alt = &nt.alts[ai];
                let mut kinds = vec![];
                for s in &alt.syms {
                    kinds.push(self.resolve(&s.kind, &[])?);
                }
                self.build_alt(c, ni, ai, alt, kinds, unit)?;
            }
        }
        Ok(())
    }

    fn fill_macro(&mut self, c: usize, m: usize, args: &[RKind]) -> Result<(), ElabError> {
        let mdef = self.g.nts[m].clone();
        if mdef.params.len() != args.len() {
            return Err(ElabError::Type("macro arity".into()));
        }
        let ty = self.ty_of(&RKind::Macro(m, args.to_vec()))?;
        self.tys[c] = Some(ty.clone());
        let unit = ty.is_unit();
        for (ai, alt) in mdef.alts.iter().enumerate() {
            if !alt.cfg.iter().all(|p| p.eval(&self.feats)) {
                continue;
            }
            if let Some(cond) = &alt.cond {
                if !self.eval_cond(cond, args)? {
                    self.conds_removed += 1;
                    continue;
                }
            }
            let mut kinds = vec![];
            for s in &alt.syms {
                kinds.push(self.resolve(&s.kind, args)?);
            }
            self.build_alt(c, m, ai, alt, kinds, unit)?;
        }
        Ok(())
    }

    fn fill_rep(&mut self, c: usize, x: &RKind, op: RepOp) -> Result<(), ElabError> {
        let xt = self.ty_of(x)?;
        match op {
            RepOp::Question => {
                self.tys[c] = Some(Ty::Opt(Box::new(xt)));
                let s = self.sym_of(x)?;
                self.core.add_prod(c, vec![s], Sem::OptSome(0));
                self.core.add_prod(c, vec![], Sem::OptNone);
            }
            RepOp::Plus => {
                self.tys[c] = Some(Ty::Vec(Box::new(xt)));
                let s = self.sym_of(x)?;
                self.core.add_prod(c, vec![s], Sem::VecOne(0));
                self.core.add_prod(c, vec![Sym::N(c), s], Sem::VecPush(0, 1));
            }
            RepOp::Star => {
                self.tys[c] = Some(Ty::Vec(Box::new(xt)));
                let plus = self.sym_of(&RKind::Rep(Box::new(x.clone()), RepOp::Plus))?;
                self.core.add_prod(c, vec![], Sem::VecNew);
                self.core.add_prod(c, vec![plus], Sem::Tuple(vec![0]));
            }
        }
        Ok(())
    }

    fn fill_group(&mut self, c: usize, items: &[(Bind, RKind)]) -> Result<(), ElabError> {
        let ty = self.ty_of(&RKind::Group(items.to_vec()))?;
        self.tys[c] = Some(ty);
        let mut rhs = vec![];
        for (_, k) in items {
            rhs.push(self.sym_of(k)?);
        }
        let binds: Vec<Bind> = items.iter().map(|(b, _)| b.clone()).collect();
        // a group's action is `<>` / `(<>)`: always the tuple (or single value)
        // of the selected symbols - also when that tuple is empty
        self.core.add_prod(c, rhs, Sem::Tuple(selected(&binds)));
        Ok(())
    }
}

/// indices of the selected symbols of an alternative / group (A.1)
pub fn selected(binds: &[Bind]) -> Vec<usize> {
    let named: Vec<usize> =
        binds.iter().enumerate().filter(|(_, b)| matches!(b, Bind::Name(..) | Bind::Tuple(..))).map(|(i, _)| i).collect();
    if !named.is_empty() {
        return named;
    }
    let chosen: Vec<usize> = binds.iter().enumerate().filter(|(_, b)| matches!(b, Bind::Choose)).map(|(i, _)| i).collect();
    if !chosen.is_empty() {
        return chosen;
    }
    (0..binds.len()).collect()
}

fn count_occ(k: &RKind, ni: usize) -> usize {
    match k {
        RKind::N(n, _) if *n == ni => 1,
        RKind::Macro(_, args) => args.iter().map(|a| count_occ(a, ni)).sum(),
        RKind::Rep(x, _) => count_occ(x, ni),
        RKind::Group(items) => items.iter().map(|(_, k)| count_occ(k, ni)).sum(),
        _ => 0,
    }
}

/// Replace recursive occurrences of `ni` per the associativity rule (A.3).
fn retier(k: &mut RKind, ni: usize, seen: &mut usize, total: usize, assoc: Assoc, t: usize) {
    match k {
        RKind::N(n, tier) if *n == ni => {
            let idx = *seen;
            *seen += 1;
            let stay = match assoc {
                Assoc::All => true,
                Assoc::None => false,
                Assoc::Left => idx == 0,
                Assoc::Right => idx + 1 == total,
            };
            *tier = Some(if stay { t } else { t - 1 });
        }
        RKind::Macro(_, args) => args.iter_mut().for_each(|a| retier(a, ni, seen, total, assoc, t)),
        RKind::Rep(x, _) => retier(x, ni, seen, total, assoc, t),
        RKind::Group(items) => items.iter_mut().for_each(|(_, k)| retier(k, ni, seen, total, assoc, t)),
        _ => {}
    }
}

/// Grammar-level string escapes (A.2): \n \r \t \0 \" \\ \xNN
pub fn unescape_grammar_string(s: &str) -> String {
    let mut out = String::new();
    let mut it = s.chars();
    while let Some(c) = it.next() {
        if c != '\\' {
            out.push(c);
            continue;
        }
        match it.next() {
            Some('n') => out.push('\n'),
            Some('r') => out.push('\r'),
            Some('t') => out.push('\t'),
            Some('0') => out.push('\0'),
            Some('"') => out.push('"'),
            Some('\\') => out.push('\\'),
            Some('x') => {
                let h: String = it.by_ref().take(2).collect();
                if let Ok(v) = u8::from_str_radix(&h, 16) {
                    out.push(v as char);
                }
            }
            Some(o) => {
                out.push('\\');
                out.push(o);
            }
            None => out.push('\\'),
        }
    }
    out
}
