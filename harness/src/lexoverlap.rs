//! C11 overlap oracle: dense anchored DFAs (regex-automata, `MatchKind::All`
//! so that "some path matches the whole string" is decided, not
//! leftmost-first preference) and a product BFS over byte classes.
//!
//! Question decided for a pair (p, q) of equal precedence: is there a string
//! fully matched by p and by q and by no pattern of strictly higher
//! precedence? (Then the runtime has to choose arbitrarily on that input.)

use crate::lexmodel::{parse_hir, Entry, Pat};
use regex_automata::dfa::{dense, Automaton, StartKind};
use regex_automata::nfa::thompson;
use regex_automata::util::primitives::StateID;
use regex_automata::util::start;
use regex_automata::{Anchored, MatchKind};
use regex_syntax::hir::{Hir, HirKind};
use std::collections::HashMap;

pub type Dfa = dense::DFA<Vec<u32>>;

pub fn dfa_from_hir(hir: &Hir) -> Result<Dfa, String> {
    let nfa = thompson::Compiler::new()
        .configure(thompson::Config::new().utf8(true).shrink(false))
        .build_from_hir(hir)
        .map_err(|e| e.to_string())?;
    dense::Builder::new()
        .configure(
            dense::Config::new()
                .start_kind(StartKind::Anchored)
                .match_kind(MatchKind::All)
                .minimize(false)
                .dfa_size_limit(Some(64 << 20))
                .determinize_size_limit(Some(64 << 20)),
        )
        .build_from_nfa(&nfa)
        .map_err(|e| e.to_string())
}

/// HIR of a pattern: literals directly as a HIR literal (no regex escaping
/// involved), regexes parsed from the original text.
pub fn pat_hir(p: &Pat) -> Result<Hir, String> {
    match p {
        Pat::Lit(s) => Ok(Hir::literal(s.as_bytes().to_vec())),
        Pat::Re(r) => parse_hir(r),
    }
}

/// The reading of a pattern that explains finding F7: every HIR literal that
/// contains a non-ASCII byte is taken byte by byte as if each byte were a
/// code point (U+0080..U+00FF), classes stay per code point.
pub fn bytewise_literals(h: &Hir) -> Hir {
    match h.kind() {
        HirKind::Literal(l) => {
            if l.0.iter().all(|b| *b < 0x80) {
                h.clone()
            } else {
                let s: String = l.0.iter().map(|b| *b as char).collect();
                Hir::literal(s.into_bytes())
            }
        }
        HirKind::Empty | HirKind::Class(_) | HirKind::Look(_) => h.clone(),
        HirKind::Repetition(r) => {
            let mut r = r.clone();
            r.sub = Box::new(bytewise_literals(&r.sub));
            Hir::repetition(r)
        }
        HirKind::Capture(c) => {
            let mut c = c.clone();
            c.sub = Box::new(bytewise_literals(&c.sub));
            Hir::capture(c)
        }
        HirKind::Concat(v) => Hir::concat(v.iter().map(bytewise_literals).collect()),
        HirKind::Alternation(v) => Hir::alternation(v.iter().map(bytewise_literals).collect()),
    }
}

pub fn has_non_ascii_literal(h: &Hir) -> bool {
    match h.kind() {
        HirKind::Literal(l) => l.0.iter().any(|b| *b >= 0x80),
        HirKind::Empty | HirKind::Class(_) | HirKind::Look(_) => false,
        HirKind::Repetition(r) => has_non_ascii_literal(&r.sub),
        HirKind::Capture(c) => has_non_ascii_literal(&c.sub),
        HirKind::Concat(v) | HirKind::Alternation(v) => v.iter().any(has_non_ascii_literal),
    }
}

#[derive(Clone, Debug, PartialEq, Eq)]
pub enum PairVerdict {
    /// a common string that no higher-precedence pattern matches (witness)
    Overlap(Vec<u8>),
    /// common strings exist but each is also matched by a higher-precedence pattern
    Shadowed,
    Disjoint,
    /// state cap hit
    Unknown,
}

fn start(d: &Dfa) -> StateID {
    d.start_state(&start::Config::new().anchored(Anchored::Yes)).expect("anchored start state")
}

fn accepts_here(d: &Dfa, s: StateID) -> bool {
    d.is_match_state(d.next_eoi_state(s))
}

/// Product BFS. `dfas[0]`, `dfas[1]` = the pair; the rest = strictly higher
/// precedence patterns.
pub fn pair_overlap(dfas: &[&Dfa], cap: usize) -> PairVerdict {
    // byte equivalence classes of the product
    let mut reps: Vec<u8> = vec![];
    {
        let mut seen: HashMap<Vec<u8>, ()> = HashMap::new();
        for b in 0..=255u8 {
            let key: Vec<u8> = dfas.iter().map(|d| d.byte_classes().get(b)).collect();
            if seen.insert(key, ()).is_none() {
                reps.push(b);
            }
        }
    }
    let init: Vec<StateID> = dfas.iter().map(|d| start(d)).collect();
    let mut index: HashMap<Vec<StateID>, usize> = HashMap::new();
    let mut nodes: Vec<(Vec<StateID>, usize, u8)> = vec![]; // state, parent, byte
    index.insert(init.clone(), 0);
    nodes.push((init, usize::MAX, 0));
    let mut shadowed = false;
    let mut head = 0;
    while head < nodes.len() {
        let cur = nodes[head].0.clone();
        if accepts_here(dfas[0], cur[0]) && accepts_here(dfas[1], cur[1]) {
            if (2..dfas.len()).any(|i| accepts_here(dfas[i], cur[i])) {
                shadowed = true;
            } else {
                let mut w = vec![];
                let mut n = head;
                while nodes[n].1 != usize::MAX {
                    w.push(nodes[n].2);
                    n = nodes[n].1;
                }
                w.reverse();
                return PairVerdict::Overlap(w);
            }
        }
        for &b in &reps {
            let n0 = dfas[0].next_state(cur[0], b);
            if dfas[0].is_dead_state(n0) {
                continue;
            }
            let n1 = dfas[1].next_state(cur[1], b);
            if dfas[1].is_dead_state(n1) {
                continue;
            }
            let mut next = Vec::with_capacity(dfas.len());
            next.push(n0);
            next.push(n1);
            for i in 2..dfas.len() {
                next.push(dfas[i].next_state(cur[i], b));
            }
            if !index.contains_key(&next) {
                if nodes.len() >= cap {
                    return PairVerdict::Unknown;
                }
                index.insert(next.clone(), nodes.len());
                nodes.push((next, head, b));
            }
        }
        head += 1;
    }
    if shadowed {
        PairVerdict::Shadowed
    } else {
        PairVerdict::Disjoint
    }
}

#[derive(Clone, Debug, Default)]
pub struct OverlapReport {
    /// pairs (i, j, witness) of equal, maximal precedence with a common string
    pub overlaps: Vec<(usize, usize, Vec<u8>)>,
    pub shadowed: Vec<(usize, usize)>,
    pub unknown: Vec<(usize, usize)>,
    /// equal-precedence pairs examined
    pub pairs: usize,
}

impl OverlapReport {
    pub fn ambiguous(&self) -> bool {
        !self.overlaps.is_empty()
    }
}

/// precedence key per the documentation: earlier rung first, literal before regex
pub fn prec_key(e: &Entry) -> (i64, u8) {
    (-(e.rung as i64), e.pat.is_lit() as u8)
}

/// Overlap analysis of a whole entry list. `hirs[i]` is the HIR to use for
/// entry i (the faithful one, or the byte-wise reading).
pub fn analyse(entries: &[Entry], hirs: &[Hir], cap: usize) -> Result<OverlapReport, String> {
    let dfas: Vec<Dfa> = hirs.iter().map(dfa_from_hir).collect::<Result<_, _>>()?;
    let mut rep = OverlapReport::default();
    for i in 0..entries.len() {
        for j in i + 1..entries.len() {
            if prec_key(&entries[i]) != prec_key(&entries[j]) {
                continue;
            }
            rep.pairs += 1;
            let mut set: Vec<&Dfa> = vec![&dfas[i], &dfas[j]];
            for k in 0..entries.len() {
                if prec_key(&entries[k]) > prec_key(&entries[i]) {
                    set.push(&dfas[k]);
                }
            }
            match pair_overlap(&set, cap) {
                PairVerdict::Overlap(w) => rep.overlaps.push((i, j, w)),
                PairVerdict::Shadowed => rep.shadowed.push((i, j)),
                PairVerdict::Unknown => rep.unknown.push((i, j)),
                PairVerdict::Disjoint => {}
            }
        }
    }
    Ok(rep)
}

/// Language relation of two patterns (for the "partial overlap" class):
/// returns (a_minus_b_nonempty, b_minus_a_nonempty, common_nonempty).
pub fn relation(a: &Dfa, b: &Dfa, cap: usize) -> Option<(bool, bool, bool)> {
    let mut reps: Vec<u8> = vec![];
    {
        let mut seen: HashMap<(u8, u8), ()> = HashMap::new();
        for x in 0..=255u8 {
            if seen.insert((a.byte_classes().get(x), b.byte_classes().get(x)), ()).is_none() {
                reps.push(x);
            }
        }
    }
    let init = (start(a), start(b));
    let mut seen: HashMap<(StateID, StateID), ()> = HashMap::new();
    let mut queue = vec![init];
    seen.insert(init, ());
    let (mut amb, mut bma, mut common) = (false, false, false);
    let mut head = 0;
    while head < queue.len() {
        let (sa, sb) = queue[head];
        head += 1;
        let (xa, xb) = (accepts_here(a, sa), accepts_here(b, sb));
        common |= xa && xb;
        amb |= xa && !xb;
        bma |= xb && !xa;
        if common && amb && bma {
            break;
        }
        for &x in &reps {
            let (na, nb) = (a.next_state(sa, x), b.next_state(sb, x));
            if a.is_dead_state(na) && b.is_dead_state(nb) {
                continue;
            }
            if seen.insert((na, nb), ()).is_none() {
                if queue.len() >= cap {
                    return None;
                }
                queue.push((na, nb));
            }
        }
    }
    Some((amb, bma, common))
}
