//! C09 - the built-in lexer tokenizes by longest match with the documented
//! precedence.
//!
//! Domain: lexer specs from overlapping pools (keywords vs identifier
//! regexes, `=`/`==`, prefixes a/ab/abc, non-ASCII literals, Unicode classes,
//! whitespace-like terminals), with/without `match` blocks of 1-3 rungs,
//! renamings, skip rules, `_` x strings built from token texts, near misses
//! and random characters.
//! Oracle: reference lexer (lexmodel::RefLexer, written from the tutorial)
//! vs the real `MatcherBuilder` fed with the pattern table, the
//! `__token_to_integer` arms and `__TERMINAL` extracted from LALRPOP's output.

use crate::core::{par_map, Checker, Ctx};
use crate::lexgen::{gen_inputs, gen_spec, SpecOpts};
use crate::lexmodel::{extract, run_lalrpop, LalrOut, LexSpec, Pat, RealEnd, RealLexer, RefEnd, RefLexer, Tally};
use crate::tape::{self, Tape};
use serde_json::{json, Value};
use std::path::{Path, PathBuf};

const OPTS: SpecOpts =
    SpecOpts { min_pats: 2, max_pats: 6, allow_skip: true, allow_rename: true, allow_unused: true, gen_regex_p: 20, separate_p: 150 };

struct Case {
    spec: LexSpec,
    pool: &'static str,
    inputs: Vec<String>,
}

fn gen_case(tape: &[u8], n_inputs: usize) -> Case {
    let mut t = Tape::new(tape);
    let (spec, pool) = gen_spec(&mut t, &OPTS);
    let pats: Vec<Pat> = spec.entries().into_iter().map(|e| e.pat).collect();
    let inputs = gen_inputs(&mut t, &pats, n_inputs, 5);
    Case { spec, pool, inputs }
}

/// Outcome of comparing one input. Err = (signature, what, expected, observed)
pub struct CmpInfo {
    pub nontrivial: bool,
    pub classes: Vec<&'static str>,
    pub skip: Option<&'static str>,
}

pub fn compare(model: &RefLexer, real: &RealLexer, input: &str) -> Result<CmpInfo, (String, String, Value, Value)> {
    let want = model.run(input);
    // Where the reference stops because the longest match is empty, the real
    // lexer is only asked about the text before that offset (same tokens:
    // every earlier match ends at or before it) - a lexer that spins on an
    // empty match must not be able to hang this check.
    let got = match want.end {
        RefEnd::Empty(pos) => real.run(&input[..pos]),
        _ => real.run(input),
    };
    let name_of = |k: usize| real.ex.terminal_of(k).map(|s| s.to_string()).unwrap_or_else(|| format!("<pattern #{k} has no terminal>"));
    let got_named: Vec<(String, usize, usize)> = got.toks.iter().map(|(k, lo, hi)| (name_of(*k), *lo, *hi)).collect();
    let exp_json = json!({"tokens": want.toks, "end": format!("{:?}", want.end)});
    let obs_json = json!({"tokens": got_named, "end": format!("{:?}", got.end)});
    let fail = |sig: String, what: String| Err((sig, what, exp_json.clone(), obs_json.clone()));

    for (i, (name, lo, hi)) in want.toks.iter().enumerate() {
        let Some((gname, glo, ghi)) = got_named.get(i) else {
            return match &got.end {
                RealEnd::Invalid(at) => fail(
                    "C09/invalid-token/spurious".into(),
                    format!("InvalidToken at {at} although {name} matches {:?} at {lo}", &input[*lo..*hi]),
                ),
                RealEnd::Eof => fail("C09/skip/token-dropped".into(), format!("expected token {name} at {lo}..{hi}, lexer reached the end without it")),
                other => fail(format!("C09/real-lexer/{}", end_kind(other)), format!("expected token {name} at {lo}..{hi}, lexer stopped with {other:?}")),
            };
        };
        if got.toks[i].1 == got.toks[i].2 && matches!(got.end, RealEnd::EmptyLoop(_)) && i + 1 == got.toks.len() {
            return fail("C09/segmentation/empty-token".into(), format!("expected {name} at {lo}..{hi}, lexer yields an empty token at {glo}"));
        }
        if glo != lo {
            return fail("C09/segmentation/start".into(), format!("token {i} starts at {glo}, expected {lo} ({name})"));
        }
        if ghi != hi {
            return fail(
                "C09/segmentation/longest-match".into(),
                format!("token {i} at {lo} ends at {ghi} ({gname}), the longest match ends at {hi} ({name})"),
            );
        }
        if gname != name {
            if gname.starts_with("<pattern #") {
                return fail("C09/mapping/unmapped-pattern".into(), format!("token {i} {lo}..{hi}: {gname}, expected {name}"));
            }
            return fail(
                format!("C09/winner/{}", want.how[i]),
                format!("token {i} {lo}..{hi} {:?} lexed as {gname}, documented precedence ({}) gives {name}", &input[*lo..*hi], want.how[i]),
            );
        }
    }
    let n = want.toks.len();
    let mut info = CmpInfo { nontrivial: false, classes: vec![], skip: None };
    match &want.end {
        RefEnd::Eof => {
            if let Some((gname, glo, ghi)) = got_named.get(n) {
                return fail("C09/skip/extra-token".into(), format!("unexpected token {gname} at {glo}..{ghi}; that text is skipped"));
            }
            match &got.end {
                RealEnd::Eof => {}
                RealEnd::Invalid(at) => return fail("C09/invalid-token/spurious".into(), format!("InvalidToken at {at}, but the whole input lexes")),
                other => return fail(format!("C09/real-lexer/{}", end_kind(other)), format!("lexer stopped with {other:?}")),
            }
        }
        RefEnd::Invalid(p) => {
            if let Some((gname, glo, ghi)) = got_named.get(n) {
                return fail(
                    "C09/invalid-token/missed".into(),
                    format!("nothing matches at {p}, lexer produced {gname} at {glo}..{ghi}"),
                );
            }
            match &got.end {
                RealEnd::Invalid(at) if at == p => info.classes.push("invalid_token"),
                RealEnd::Invalid(at) => {
                    return fail("C09/invalid-token/location".into(), format!("InvalidToken reported at {at}, first unmatched offset is {p}"))
                }
                RealEnd::Eof => return fail("C09/invalid-token/missed".into(), format!("nothing matches at {p}, lexer reported no error")),
                other => return fail(format!("C09/real-lexer/{}", end_kind(other)), format!("lexer stopped with {other:?}")),
            }
        }
        RefEnd::Tie(..) => info.skip = Some("position with an equal-precedence tie (C11 finding): lexer choice undefined, rest of input not compared"),
        RefEnd::Empty(_) => info.skip = Some("position whose longest match is empty (C08 finding F3): rest of input not compared"),
    }
    let st = &want.stats;
    if st.equal_len_ties > 0 {
        info.classes.push("pos_equal_length_tie");
    }
    if st.tie_by_rung > 0 {
        info.classes.push("tie_decided_by_rung");
    }
    if st.tie_by_literal > 0 {
        info.classes.push("tie_decided_by_literal_bonus");
    }
    if st.tie_by_ws > 0 {
        info.classes.push("tie_decided_by_implicit_ws");
    }
    if st.longest_beats_prec > 0 {
        info.classes.push("longest_match_beats_higher_precedence");
    }
    if st.skipped_segments > 0 {
        info.classes.push("skipped_text");
    }
    if !input.is_ascii() {
        info.classes.push("input_non_ascii");
    }
    if want.toks.len() >= 2 {
        info.classes.push("multi_token");
    }
    info.nontrivial = st.equal_len_ties > 0 || st.longest_beats_prec > 0;
    Ok(info)
}

/// Finding F15: does the real lexer agree with a reference lexer in which
/// every regex with a nested repetition is replaced by the way regex-syntax
/// prints it (`(?:a{2})?` -> `a{2}?`)?
fn explained_by_printed_nested_repetition(model_json: &Value, real: &RealLexer, input: &str) -> bool {
    let mut m = model_json.clone();
    let mut any = false;
    if let Some(a) = m.as_array_mut() {
        for e in a {
            if e["kind"] == "re" {
                if let Some(p) = crate::lexmodel::printed_if_nested(e["text"].as_str().unwrap_or("")) {
                    e["text"] = json!(p);
                    any = true;
                }
            }
        }
    }
    any && RefLexer::from_json(&m).map_or(false, |alt| compare(&alt, real, input).is_ok())
}

fn end_kind(e: &RealEnd) -> &'static str {
    match e {
        RealEnd::Eof => "eof",
        RealEnd::Invalid(_) => "invalid",
        RealEnd::EmptyLoop(_) => "empty-token-loop",
        RealEnd::Cap => "no-progress",
        RealEnd::BadSpan(..) => "bad-span",
        RealEnd::Panic(_) => "panic",
        RealEnd::OtherErr(_) => "unexpected-error",
    }
}

fn spec_classes(spec: &LexSpec, pool: &str, tl: &mut Tally) {
    tl.class(&format!("pool_{pool}"));
    let es = spec.entries();
    match &spec.rungs {
        None => tl.class("no_match_block"),
        Some(r) => {
            tl.class(&format!("match_rungs_{}", r.len()));
            if r.iter().flatten().any(|i| matches!(i, crate::lexmodel::Item::CatchAll)) {
                tl.class("has_catch_all");
                if !spec.extra.is_empty() {
                    tl.class("terminals_added_by_catch_all");
                }
            }
        }
    }
    if es.iter().any(|e| e.term.is_none()) {
        tl.class("has_skip_rule");
    }
    if es.iter().any(|e| e.term.is_some() && e.term != Some(e.pat.as_term())) {
        tl.class("has_renaming");
    }
    if es.iter().any(|e| !e.pat.text().is_ascii()) {
        tl.class("non_ascii_pattern");
    }
    if !spec.unused.is_empty() {
        tl.class("has_unused_terminal");
    }
}

/// Evaluate one grammar text + model on a list of inputs.
fn eval_grammar(cli: &Path, dir: &Path, text: &str, model_json: &Value, inputs: &[String], tape_hex: &str, template: Option<&str>, tl: &mut Tally) {
    let out = run_lalrpop(cli, dir, text);
    let rs = match out {
        LalrOut::Accepted(rs) => rs,
        LalrOut::Timeout => {
            tl.inconclusive += 1;
            tl.infra.push("lalrpop timed out on a lexer spec".into());
            return;
        }
        LalrOut::Infra(m) => {
            tl.infra.push(m);
            return;
        }
        other => {
            tl.skip(&format!("grammar rejected by lalrpop: {}", other.name()));
            if matches!(other, LalrOut::Panic(_) | LalrOut::OtherError(_)) && tl.notes.len() < 3 {
                tl.notes.push(format!("lalrpop {}: {} on\n{text}", other.name(), other.detail()));
            }
            return;
        }
    };
    tl.class("grammar_accepted");
    let base = |input: &str, expected: Value, observed: Value| {
        json!({
            "tape_hex": tape_hex,
            "grammars": [{"name": "g.lalrpop", "text": text}],
            "model": model_json,
            "template": template,
            "input": input,
            "expected": expected,
            "observed": observed,
        })
    };
    let ex = match extract(&rs) {
        Ok(e) => e,
        Err(e) => {
            tl.violation("C09/generated-source/unreadable", &format!("cannot read the lexer tables back: {e}"), base("", Value::Null, json!(e)));
            return;
        }
    };
    let model = match RefLexer::from_json(model_json) {
        Ok(m) => m,
        Err(e) => {
            tl.infra.push(format!("reference lexer: {e}"));
            return;
        }
    };
    // pattern table = documented entries (+ implicit whitespace)
    if ex.strs.len() != model.pats.len() {
        tl.violation(
            "C09/pattern-table/size",
            &format!("{} patterns in the generated table, the grammar defines {}", ex.strs.len(), model.pats.len()),
            base("", json!(model.pats.len()), ex.to_json()),
        );
        return;
    }
    let real = match RealLexer::new(ex) {
        Ok(r) => r,
        Err(e) => {
            tl.violation("C09/pattern-table/does-not-compile", &e, base("", Value::Null, json!(e)));
            return;
        }
    };
    for input in inputs {
        tl.evals += 1;
        match compare(&model, &real, input) {
            Ok(info) => {
                for c in &info.classes {
                    tl.class(c);
                }
                if let Some(s) = info.skip {
                    tl.skip(s);
                }
                if info.nontrivial {
                    tl.nontrivial(&(text, input));
                    if tl.samples.len() < 1 {
                        let want = model.run(input);
                        tl.samples.push(json!({"grammar": text, "input": input, "tokens": want.toks, "end": format!("{:?}", want.end)}));
                    }
                }
            }
            Err((sig, what, exp, obs)) => {
                // directed templates carry their own root-cause key
                let sig = match template {
                    Some(t) => format!("C09/{t}/{}", sig.trim_start_matches("C09/").replace('/', "-")),
                    None if explained_by_printed_nested_repetition(model_json, &real, input) => {
                        "C09/nested-repetition-rendering".to_string()
                    }
                    None => sig,
                };
                let shown: String = if input.len() > 80 { format!("{:?}.. ({} bytes)", &input[..60], input.len()) } else { format!("{input:?}") };
                tl.violation(&sig, &format!("{what}; input {shown}"), base(input, exp, obs));
            }
        }
    }
}

fn eval_tape(ctx: &Ctx, idx: usize, tape: &[u8], n_inputs: usize) -> Tally {
    let mut tl = Tally::default();
    let case = gen_case(tape, n_inputs);
    spec_classes(&case.spec, case.pool, &mut tl);
    let dir = ctx.work.join(format!("g{idx}"));
    let text = case.spec.to_lalrpop();
    eval_grammar(&ctx.cli, &dir, &text, &case.spec.model_json(), &case.inputs, &tape::hex(tape), None, &mut tl);
    let _ = std::fs::remove_dir_all(&dir);
    tl
}

/// Directed family outside the random domain (DESIGN Appendix C keeps
/// generated regexes small): one terminal whose DFA has 2^(n+1) states and a
/// long input that visits most of them, so that the runtime's lazy DFA has
/// to clear its cache in the middle of lexing. The long a/b run is expanded
/// from the tape by a xorshift generator (a pure function of the tape).
fn big_dfa_case(tape: &[u8]) -> (LexSpec, String) {
    let mut t = Tape::new(tape);
    let n = 12 + t.below(2);
    let len = 20_000 + 5_000 * t.below(4);
    let mut x: u64 = 0x9e3779b97f4a7c15;
    for _ in 0..8 {
        x = (x << 8) ^ (t.byte() as u64) ^ (x >> 56);
    }
    x |= 1;
    let mut bytes = Vec::with_capacity(len + 8);
    for _ in 0..len {
        x ^= x << 13;
        x ^= x >> 7;
        x ^= x << 17;
        bytes.push(if x & 1 == 0 { b'a' } else { b'b' });
    }
    // the whole run is one token: its (n+1)-th character from the end is `a`
    bytes[len - n - 1] = b'a';
    let mut input = String::from_utf8(bytes).unwrap();
    input.push_str(" c c\nc");
    let spec = LexSpec {
        rungs: None,
        extra: vec![Pat::Re(format!("[ab]*a[ab]{{{n}}}")), Pat::Lit("c".into())],
        unused: vec![],
        style: 0,
    };
    (spec, input)
}

fn eval_big_dfa(ctx: &Ctx, idx: usize, tape: &[u8]) -> Tally {
    let mut tl = Tally::default();
    let (spec, input) = big_dfa_case(tape);
    tl.class("template_large_dfa");
    let dir = ctx.work.join(format!("big{idx}"));
    eval_grammar(&ctx.cli, &dir, &spec.to_lalrpop(), &spec.model_json(), &[input], &tape::hex(tape), Some("large-dfa"), &mut tl);
    let _ = std::fs::remove_dir_all(&dir);
    tl
}

fn replay_case(ck: &mut Checker, v: &Value) {
    let text = v["grammars"][0]["text"].as_str().unwrap_or("").to_string();
    let input = v["input"].as_str().unwrap_or("").to_string();
    let mut tl = Tally::default();
    let dir = ck.ctx.work.join("replay_run");
    let cli = ck.ctx.cli.clone();
    eval_grammar(&cli, &dir, &text, &v["model"], &[input], v["tape_hex"].as_str().unwrap_or(""), v["template"].as_str(), &mut tl);
    tl.skips.clear();
    tl.samples.clear();
    tl.merge(ck);
}

pub fn run(ctx: Ctx, replay: Option<PathBuf>) -> i32 {
    let mut ck = Checker::new(
        ctx.clone(),
        "exploration",
        "lexer specs (2-6 terminals from overlapping pools + generated regexes; none or 1-3 match rungs; renamings, skip rules, `_`) x input strings; \
         non-trivial = (grammar, input) with a position where >= 2 patterns match the same longest length (decided by precedence) or where the longest match \
         beats a shorter match of higher precedence; distinct = distinct (grammar text, input)",
    );
    ck.assume("reference lexer written from doc/src/lexer_tutorial/001_lexer_gen.md and the C09 statement; regexes matched by the regex meta engine (no DFA) on the original text, anchored, trying every end");
    ck.assume("terminal names compared through __token_to_integer and __TERMINAL as read from the generated source by proc_macro2 + Rust literal unescaping");
    if let Some(p) = replay {
        ck.strict = true;
        match super::load_replay(&p) {
            Ok(v) => replay_case(&mut ck, &v),
            Err(c) => return c,
        }
        return ck.finish();
    }
    ck.replay_listed(replay_case);
    let n = ctx.tier.pick(3000usize, 60_000usize);
    let n_inputs = 14;
    let tapes = tape::sample_tapes(ctx.seed, n, 0, 260);
    let tallies = par_map(&tapes, ctx.threads, |i, t| eval_tape(&ctx, i, t, n_inputs));
    let mut to_shrink: Vec<(String, usize)> = vec![];
    let mut notes = 0;
    for (i, mut tl) in tallies.into_iter().enumerate() {
        for n in tl.notes.drain(..) {
            if notes < 3 {
                println!("NOTE: {n}");
                notes += 1;
            }
        }
        for sig in tl.merge(&mut ck) {
            to_shrink.push((sig, i));
        }
    }
    // directed template: lexers whose DFA does not fit the runtime's cache
    let big = tape::sample_tapes(ctx.seed ^ 0xb16, ctx.tier.pick(3, 24), 12, 12);
    for tl in par_map(&big, ctx.threads, |i, t| eval_big_dfa(&ctx, i, t)) {
        tl.merge(&mut ck);
    }
    // minimise the first failing tape of each new signature
    for (sig, i) in to_shrink {
        let small = tape::shrink_tape(&tapes[i], 200, |t| {
            let tl = eval_tape(&ctx, 1_000_000 + i, t, n_inputs);
            tl.violations.iter().any(|v| v.0 == sig)
        });
        let tl = eval_tape(&ctx, 1_000_000 + i, &small, n_inputs);
        if let Some((_, what, replay)) = tl.violations.into_iter().find(|v| v.0 == sig) {
            let path = ctx.work.join("replay").join(format!("{}.min.json", crate::core::sanitize(&sig)));
            let mut r = replay;
            r["property"] = json!("C09");
            r["signature"] = json!(sig);
            r["what"] = json!(what);
            let _ = std::fs::write(&path, serde_json::to_string_pretty(&r).unwrap());
            println!("  minimised replay: {}", path.display());
        }
    }
    ck.finish()
}
