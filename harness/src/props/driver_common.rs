//! Shared helpers of the build-driver family (C21, C22, C23).
//!
//! * `lv __api <json>`: hidden subcommand that links the `lalrpop` library and
//!   drives `lalrpop::Configuration` in a fresh process (cwd and environment
//!   are set by the parent).
//! * `Api`: builder for such a call.
//! * `RefBuilder`: the model function F(text) = bytes of a *forced* build of
//!   `text` in a separate, otherwise empty directory (memoised).
//! * file-system observation helpers (snapshots with inode + ns mtime,
//!   explicit mtimes through utimensat - never sleeping).

use crate::core::Ctx;
use crate::run::{Cmd, Out};
use serde_json::{json, Value};
use sha3::{Digest, Sha3_256};
use std::collections::{BTreeMap, HashMap};
use std::ffi::CString;
use std::os::unix::ffi::OsStrExt;
use std::os::unix::fs::MetadataExt;
use std::path::{Path, PathBuf};
use std::sync::Mutex;

// ---------------------------------------------------------------------------
// lv __api
// ---------------------------------------------------------------------------

/// Exit codes of `lv __api`: 0 = `Ok(())`, 3 = `Err(e)` (message on stderr
/// after the marker `__API_ERR__`), 2 = bad spec, 101 = panic (Rust default).
pub const API_ERR_EXIT: i32 = 3;

pub fn api_main(args: &[String]) -> i32 {
    let Some(spec) = args.first().and_then(|s| serde_json::from_str::<Value>(s).ok()) else {
        eprintln!("__api: expected one JSON argument");
        return 2;
    };
    let mut cfg = lalrpop::Configuration::new();
    for call in spec["cfg"].as_array().cloned().unwrap_or_default() {
        let name = call[0].as_str().unwrap_or("").to_string();
        let a = call.get(1).cloned().unwrap_or(Value::Null);
        let s = || PathBuf::from(a.as_str().unwrap_or(""));
        let b = || a.as_bool().unwrap_or(true);
        match name.as_str() {
            "set_in_dir" => {
                cfg.set_in_dir(s());
            }
            "set_out_dir" => {
                cfg.set_out_dir(s());
            }
            "use_cargo_dir_conventions" => {
                cfg.use_cargo_dir_conventions();
            }
            "generate_in_source_tree" => {
                cfg.generate_in_source_tree();
            }
            "force_build" => {
                cfg.force_build(b());
            }
            "emit_rerun_directives" => {
                cfg.emit_rerun_directives(b());
            }
            "emit_comments" => {
                cfg.emit_comments(b());
            }
            "emit_whitespace" => {
                cfg.emit_whitespace(b());
            }
            "emit_report" => {
                cfg.emit_report(b());
            }
            "log_quiet" => {
                cfg.log_quiet();
            }
            "log_info" => {
                cfg.log_info();
            }
            "log_verbose" => {
                cfg.log_verbose();
            }
            "never_use_colors" => {
                cfg.never_use_colors();
            }
            "set_features" => {
                let fs: Vec<String> = a
                    .as_array()
                    .map(|v| v.iter().filter_map(|x| x.as_str().map(String::from)).collect())
                    .unwrap_or_default();
                cfg.set_features(fs);
            }
            other => {
                eprintln!("__api: unknown configuration call {other}");
                return 2;
            }
        }
    }
    let run = &spec["run"];
    let p = PathBuf::from(run.get(1).and_then(|v| v.as_str()).unwrap_or(""));
    let res = match run[0].as_str().unwrap_or("") {
        "process" => cfg.process(),
        "process_current_dir" => cfg.process_current_dir(),
        "process_dir" => cfg.process_dir(&p),
        "process_file" => cfg.process_file(&p),
        "process_root" => lalrpop::process_root(),
        "process_src" => lalrpop::process_src(),
        other => {
            eprintln!("__api: unknown run call {other}");
            return 2;
        }
    };
    match res {
        Ok(()) => 0,
        Err(e) => {
            eprintln!("__API_ERR__ {e}");
            API_ERR_EXIT
        }
    }
}

/// One call of the library API in a fresh process.
#[derive(Clone, Debug)]
pub struct Api {
    pub cfg: Vec<Value>,
    pub run: Value,
    pub env: BTreeMap<String, String>,
}

impl Api {
    pub fn new() -> Api {
        Api { cfg: vec![], run: json!(["process"]), env: BTreeMap::new() }
    }
    pub fn call(mut self, name: &str) -> Api {
        self.cfg.push(json!([name]));
        self
    }
    pub fn call_s(mut self, name: &str, arg: &str) -> Api {
        self.cfg.push(json!([name, arg]));
        self
    }
    pub fn call_b(mut self, name: &str, arg: bool) -> Api {
        self.cfg.push(json!([name, arg]));
        self
    }
    pub fn run0(mut self, name: &str) -> Api {
        self.run = json!([name]);
        self
    }
    pub fn run1(mut self, name: &str, arg: &str) -> Api {
        self.run = json!([name, arg]);
        self
    }
    pub fn env(mut self, k: &str, v: &str) -> Api {
        self.env.insert(k.to_string(), v.to_string());
        self
    }
    pub fn to_json(&self) -> Value {
        json!({"cfg": self.cfg, "run": self.run, "env": self.env})
    }
    pub fn from_json(v: &Value) -> Api {
        Api {
            cfg: v["cfg"].as_array().cloned().unwrap_or_default(),
            run: v["run"].clone(),
            env: v["env"]
                .as_object()
                .map(|m| m.iter().map(|(k, v)| (k.clone(), v.as_str().unwrap_or("").to_string())).collect())
                .unwrap_or_default(),
        }
    }
    pub fn exec(&self, ctx: &Ctx, cwd: &Path) -> Out {
        let spec = json!({"cfg": self.cfg, "run": self.run}).to_string();
        let mut c = Cmd::new(&ctx.exe).arg("__api").arg(spec).cwd(cwd).timeout_s(120);
        for (k, v) in &self.env {
            c = c.env(k, v);
        }
        c.run()
    }
}

// ---------------------------------------------------------------------------
// header lines
// ---------------------------------------------------------------------------

/// `// sha3: <hex>` of a grammar text, computed independently with the sha3
/// crate (documented content of the second header line).
pub fn sha3_line(text: &[u8]) -> String {
    let d = Sha3_256::digest(text);
    let mut s = String::from("// sha3: ");
    for b in d.iter() {
        s.push_str(&format!("{b:02x}"));
    }
    s
}

/// Length of the header of a generated file: both lines including their
/// newlines. None if the file has fewer than two complete lines.
pub fn header_len(bytes: &[u8]) -> Option<usize> {
    let mut n = 0;
    let mut pos = 0;
    for (i, b) in bytes.iter().enumerate() {
        if *b == b'\n' {
            n += 1;
            if n == 2 {
                pos = i + 1;
                break;
            }
        }
    }
    if n == 2 {
        Some(pos)
    } else {
        None
    }
}

// ---------------------------------------------------------------------------
// F(text): memoised forced reference build
// ---------------------------------------------------------------------------

#[derive(Clone, Debug)]
pub struct RefOut {
    /// exit 0
    pub ok: bool,
    /// bytes of g.rs (None: no output file exists after the build)
    pub rs: Option<Vec<u8>>,
    /// bytes of g.report when built with --report
    pub report: Option<Vec<u8>>,
    pub panicked: bool,
    pub stdout: String,
}

pub struct RefBuilder {
    cli: PathBuf,
    dir: PathBuf,
    memo: Mutex<HashMap<(String, bool), RefOut>>,
    counter: Mutex<usize>,
}

impl RefBuilder {
    pub fn new(ctx: &Ctx, sub: &str) -> RefBuilder {
        let dir = ctx.work.join(sub);
        let _ = std::fs::create_dir_all(&dir);
        RefBuilder { cli: ctx.cli.clone(), dir, memo: Mutex::new(HashMap::new()), counter: Mutex::new(0) }
    }
    /// Forced build of `text` as `<fresh dir>/g.lalrpop` with the CLI.
    pub fn build(&self, text: &str, report: bool) -> RefOut {
        if let Some(r) = self.memo.lock().unwrap().get(&(text.to_string(), report)) {
            return r.clone();
        }
        let n = {
            let mut c = self.counter.lock().unwrap();
            *c += 1;
            *c
        };
        let d = self.dir.join(format!("r{n}"));
        let _ = std::fs::remove_dir_all(&d);
        let _ = std::fs::create_dir_all(&d);
        let _ = std::fs::write(d.join("g.lalrpop"), text);
        let mut c = Cmd::new(&self.cli).arg("--force").cwd(&d);
        if report {
            c = c.arg("--report");
        }
        let out = c.arg("g.lalrpop").run();
        let r = RefOut {
            ok: out.ok(),
            rs: std::fs::read(d.join("g.rs")).ok(),
            report: std::fs::read(d.join("g.report")).ok(),
            panicked: out.panicked(),
            stdout: out.stdout.clone(),
        };
        self.memo.lock().unwrap().insert((text.to_string(), report), r.clone());
        r
    }
    /// F(text) for a valid grammar.
    pub fn f(&self, text: &str) -> Option<Vec<u8>> {
        let r = self.build(text, false);
        if r.ok {
            r.rs
        } else {
            None
        }
    }
}

// ---------------------------------------------------------------------------
// file-system observation
// ---------------------------------------------------------------------------

#[derive(Clone, Debug, PartialEq, Eq)]
pub struct Ent {
    /// 'f' regular file, 'l' symlink, 'd' directory
    pub kind: char,
    pub len: u64,
    pub hash: u64,
    pub ino: u64,
    pub mtime: (i64, i64),
}

/// Physical snapshot of a tree (symlinks are *not* followed): relative path
/// (lossy string) -> entry.
pub fn snapshot(root: &Path) -> BTreeMap<String, Ent> {
    fn rec(root: &Path, dir: &Path, out: &mut BTreeMap<String, Ent>) {
        let Ok(rd) = std::fs::read_dir(dir) else { return };
        for e in rd.flatten() {
            let p = e.path();
            let Ok(md) = std::fs::symlink_metadata(&p) else { continue };
            let rel = p.strip_prefix(root).unwrap_or(&p).to_string_lossy().into_owned();
            let ft = md.file_type();
            let (kind, hash) = if ft.is_symlink() {
                ('l', crate::core::hash_of(&std::fs::read_link(&p).ok()))
            } else if ft.is_dir() {
                ('d', 0)
            } else {
                ('f', crate::core::hash_of(&std::fs::read(&p).unwrap_or_default()))
            };
            out.insert(
                rel,
                Ent { kind, len: md.len(), hash, ino: md.ino(), mtime: (md.mtime(), md.mtime_nsec()) },
            );
            if kind == 'd' {
                rec(root, &p, out);
            }
        }
    }
    let mut out = BTreeMap::new();
    rec(root, root, &mut out);
    out
}

/// (inode, mtime seconds, mtime nanoseconds) of a path (following symlinks).
pub fn file_id(p: &Path) -> Option<(u64, i64, i64)> {
    std::fs::metadata(p).ok().map(|m| (m.ino(), m.mtime(), m.mtime_nsec()))
}

/// Set the modification time explicitly (utimensat), leaving atime alone.
pub fn set_mtime(p: &Path, secs: i64, nsecs: i64) -> bool {
    let Ok(c) = CString::new(p.as_os_str().as_bytes()) else { return false };
    let times = [
        libc::timespec { tv_sec: 0, tv_nsec: libc::UTIME_OMIT },
        libc::timespec { tv_sec: secs as libc::time_t, tv_nsec: nsecs as _ },
    ];
    // SAFETY: valid C string and a two-element timespec array.
    unsafe { libc::utimensat(libc::AT_FDCWD, c.as_ptr(), times.as_ptr(), 0) == 0 }
}

/// A short, printable description of a byte string for `what` texts.
pub fn describe_bytes(b: &Option<Vec<u8>>) -> String {
    match b {
        None => "absent".to_string(),
        Some(v) => {
            let head: String = String::from_utf8_lossy(&v[..v.len().min(120)]).replace('\n', "\\n");
            format!("{} bytes [{}{}]", v.len(), head, if v.len() > 120 { ".." } else { "" })
        }
    }
}

// ---------------------------------------------------------------------------
// grammar texts (tiny: LALRPOP needs milliseconds for each)
// ---------------------------------------------------------------------------

const EXTERN: &str = "extern { type Location = usize; type Error = (); enum Tok { \"a\" => Tok::A, \"b\" => Tok::B, \"c\" => Tok::C } }\n";

/// Valid grammars. Index pairs (0,1) and (2,3) generate the same language
/// from different text (so the hash line differs, the body does not).
pub fn valid_texts() -> Vec<String> {
    vec![
        format!("grammar;\n{EXTERN}pub S: () = {{ \"a\" S \"b\" => (), \"c\" => () }};\n"),
        format!("// same language, other text\ngrammar;\n{EXTERN}pub S: () = {{\n    \"a\" S \"b\" => (),\n    \"c\" => (),\n}};\n"),
        format!("grammar;\n{EXTERN}pub S: usize = {{ <l:S> \"a\" => l + 1, \"b\" => 0 }};\n"),
        format!("grammar;\n{EXTERN}pub S: usize = {{ <l:S> \"a\" => l + 1, \"b\" => 0 }}; // trailing comment\n"),
        format!("grammar;\n{EXTERN}pub L: Vec<()> = {{ => vec![], <mut v:L> \"a\" \"c\" => {{ v.push(()); v }} }};\npub T: () = \"b\" \"b\" => ();\n"),
        "grammar;\npub W: String = <s:r\"[a-z]+\"> => s.to_string();\n".to_string(),
    ]
}

/// Invalid grammars with the stage that rejects them.
pub fn invalid_texts() -> Vec<(&'static str, String)> {
    vec![
        ("syntax", format!("grammar;\n{EXTERN}pub S: () = {{ \"a\" S \"b\" => (), \"c\" => ()\n")),
        ("unknown-nonterminal", format!("grammar;\n{EXTERN}pub S: () = {{ \"a\" Missing \"b\" => (), \"c\" => () }};\n")),
        ("lr-conflict", format!("grammar;\n{EXTERN}pub S: () = {{ S S => (), \"a\" => (), => () }};\n")),
        ("no-pub-symbol", format!("grammar;\n{EXTERN}S: () = {{ \"a\" S \"b\" => (), \"c\" => () }};\n")),
        ("empty-file", String::new()),
    ]
}
