//! C21 - non-forced builds never leave a stale or foreign output (stateful).
//!
//! Domain: histories (<= 25 operations decoded from a tape) over 1-3 grammar
//! files; every file has a current text drawn from small pools of valid and
//! invalid grammars. Operations: edit / revert / touch a grammar, introduce /
//! remove an error, build (CLI or `Configuration` API; in-source, flat out_dir,
//! mirrored out_dir; forced or not), delete an output, corrupt its version
//! line, corrupt its hash line, truncate it inside the header lines, replace it
//! by the complete output of another grammar ("foreign"), move its mtime.
//! Hand edits below an intact header are never generated (outside the
//! contract), and no operation can fabricate an intact header over a body it
//! does not belong to.
//!
//! Model: `expected_output = F(current text)` where F is a memoised *forced*
//! build of the text in a separate directory.
//!
//! Invariant after every build step, for each grammar in the order the build
//! visits them: accepted -> output bytes == F(text), and if the output was
//! already current before a non-forced build, inode and mtime are unchanged
//! (mtimes are set explicitly beforehand, never by waiting); rejected -> the
//! build fails and no output exists for that grammar; grammars behind the
//! rejected one are not judged. Nothing but outputs of the grammars named in
//! the build may change.

use super::driver_common::{describe_bytes, file_id, invalid_texts, set_mtime, sha3_line, snapshot, valid_texts, Api, RefBuilder, API_ERR_EXIT};
use crate::core::{par_map, Checker, Ctx};
use crate::run::{Cmd, Exit, Out};
use crate::tape::{self, Tape};
use serde_json::{json, Value};
use std::path::{Path, PathBuf};

/// (grammar path, stem, directory below `p`) - `process_dir("p")` visits them
/// in this order (entries sorted by file name, depth first).
const FILES: [(&str, &str, &str); 3] = [("p/a.lalrpop", "a", ""), ("p/b.lalrpop", "b", ""), ("p/c/d.lalrpop", "d", "c")];

#[derive(Clone, Copy, Debug, PartialEq, Eq, Hash)]
enum Loc {
    /// beside the grammar
    InSrc,
    /// out/<stem>.rs (process_file with an out_dir)
    Flat,
    /// out/<dir below p>/<stem>.rs (process_dir with an out_dir)
    Tree,
}

impl Loc {
    const ALL: [Loc; 3] = [Loc::InSrc, Loc::Flat, Loc::Tree];
    fn name(self) -> &'static str {
        match self {
            Loc::InSrc => "insrc",
            Loc::Flat => "flat",
            Loc::Tree => "tree",
        }
    }
    fn from(s: &str) -> Loc {
        match s {
            "flat" => Loc::Flat,
            "tree" => Loc::Tree,
            _ => Loc::InSrc,
        }
    }
    fn idx(self) -> usize {
        self as usize
    }
}

fn out_rel(loc: Loc, file: usize) -> String {
    let (_, stem, dir) = FILES[file];
    match loc {
        Loc::InSrc => {
            if dir.is_empty() {
                format!("p/{stem}.rs")
            } else {
                format!("p/{dir}/{stem}.rs")
            }
        }
        Loc::Flat => format!("out/{stem}.rs"),
        Loc::Tree => {
            if dir.is_empty() {
                format!("out/{stem}.rs")
            } else {
                format!("out/{dir}/{stem}.rs")
            }
        }
    }
}

#[derive(Clone, Debug, PartialEq, Eq, Hash)]
enum Mode {
    /// `lalrpop p/a.lalrpop ...`
    CliFiles(Vec<usize>),
    /// `lalrpop -o out p/a.lalrpop ...`
    CliOut(Vec<usize>),
    /// `Configuration::new().process_file(f)`
    ApiFile(usize),
    /// `.set_out_dir("out").process_file(f)`
    ApiFileOut(usize),
    /// `.set_out_dir("out").process_dir("p")`
    ApiDirOut,
    /// `OUT_DIR=out`, `.process_dir("p")`
    ApiDirEnv,
    /// `.set_in_dir("p").set_out_dir("p").process()`
    ApiInSrcProcess,
}

impl Mode {
    fn kind(&self) -> &'static str {
        match self {
            Mode::CliFiles(_) => "cli",
            Mode::CliOut(_) => "cli-o",
            Mode::ApiFile(_) => "api-file",
            Mode::ApiFileOut(_) => "api-file-outdir",
            Mode::ApiDirOut => "api-dir-outdir",
            Mode::ApiDirEnv => "api-dir-OUT_DIR",
            Mode::ApiInSrcProcess => "api-process-insrc",
        }
    }
    fn to_json(&self) -> Value {
        match self {
            Mode::CliFiles(f) | Mode::CliOut(f) => json!({"kind": self.kind(), "files": f}),
            Mode::ApiFile(f) | Mode::ApiFileOut(f) => json!({"kind": self.kind(), "file": f}),
            _ => json!({"kind": self.kind()}),
        }
    }
    fn from_json(v: &Value) -> Mode {
        let files = || v["files"].as_array().map(|a| a.iter().map(|x| x.as_u64().unwrap_or(0) as usize).collect()).unwrap_or_else(|| vec![0]);
        let file = v["file"].as_u64().unwrap_or(0) as usize;
        match v["kind"].as_str().unwrap_or("") {
            "cli-o" => Mode::CliOut(files()),
            "api-file" => Mode::ApiFile(file),
            "api-file-outdir" => Mode::ApiFileOut(file),
            "api-dir-outdir" => Mode::ApiDirOut,
            "api-dir-OUT_DIR" => Mode::ApiDirEnv,
            "api-process-insrc" => Mode::ApiInSrcProcess,
            _ => Mode::CliFiles(files()),
        }
    }
    /// grammars in visiting order with the location of their output
    fn visits(&self, n: usize) -> Vec<(usize, Loc)> {
        match self {
            Mode::CliFiles(f) => f.iter().map(|&i| (i, Loc::InSrc)).collect(),
            Mode::CliOut(f) => f.iter().map(|&i| (i, Loc::Flat)).collect(),
            Mode::ApiFile(i) => vec![(*i, Loc::InSrc)],
            Mode::ApiFileOut(i) => vec![(*i, Loc::Flat)],
            Mode::ApiDirOut | Mode::ApiDirEnv => (0..n).map(|i| (i, Loc::Tree)).collect(),
            Mode::ApiInSrcProcess => (0..n).map(|i| (i, Loc::InSrc)).collect(),
        }
    }
}

#[derive(Clone, Debug, PartialEq, Eq, Hash)]
enum Op {
    /// why: edit | revert | introduce-error | remove-error
    SetText { file: usize, text: String, why: String },
    Touch { file: usize },
    Build { mode: Mode, forced: bool },
    Delete { file: usize, loc: Loc },
    CorruptVersion { file: usize, loc: Loc, kind: u8 },
    CorruptHash { file: usize, loc: Loc, kind: u8 },
    TruncateHeader { file: usize, loc: Loc, permille: u16 },
    Foreign { file: usize, loc: Loc, text: String },
    OutputMtime { file: usize, loc: Loc, newer: bool },
}

impl Op {
    fn to_json(&self) -> Value {
        match self {
            Op::SetText { file, text, why } => json!({"op": "set-text", "file": file, "why": why, "text": text}),
            Op::Touch { file } => json!({"op": "touch", "file": file}),
            Op::Build { mode, forced } => json!({"op": "build", "mode": mode.to_json(), "forced": forced}),
            Op::Delete { file, loc } => json!({"op": "delete-output", "file": file, "loc": loc.name()}),
            Op::CorruptVersion { file, loc, kind } => json!({"op": "corrupt-version-line", "file": file, "loc": loc.name(), "kind": kind}),
            Op::CorruptHash { file, loc, kind } => json!({"op": "corrupt-hash-line", "file": file, "loc": loc.name(), "kind": kind}),
            Op::TruncateHeader { file, loc, permille } => json!({"op": "truncate-inside-header", "file": file, "loc": loc.name(), "permille": permille}),
            Op::Foreign { file, loc, text } => json!({"op": "foreign-output", "file": file, "loc": loc.name(), "text": text}),
            Op::OutputMtime { file, loc, newer } => json!({"op": "output-mtime", "file": file, "loc": loc.name(), "newer": newer}),
        }
    }
    fn from_json(v: &Value) -> Option<Op> {
        let file = v["file"].as_u64().unwrap_or(0) as usize;
        let loc = Loc::from(v["loc"].as_str().unwrap_or(""));
        let kind = v["kind"].as_u64().unwrap_or(0) as u8;
        let text = v["text"].as_str().unwrap_or("").to_string();
        Some(match v["op"].as_str()? {
            "set-text" => Op::SetText { file, text, why: v["why"].as_str().unwrap_or("edit").to_string() },
            "touch" => Op::Touch { file },
            "build" => Op::Build { mode: Mode::from_json(&v["mode"]), forced: v["forced"].as_bool().unwrap_or(false) },
            "delete-output" => Op::Delete { file, loc },
            "corrupt-version-line" => Op::CorruptVersion { file, loc, kind },
            "corrupt-hash-line" => Op::CorruptHash { file, loc, kind },
            "truncate-inside-header" => Op::TruncateHeader { file, loc, permille: v["permille"].as_u64().unwrap_or(0) as u16 },
            "foreign-output" => Op::Foreign { file, loc, text },
            "output-mtime" => Op::OutputMtime { file, loc, newer: v["newer"].as_bool().unwrap_or(false) },
            _ => return None,
        })
    }
    fn short(&self) -> String {
        match self {
            Op::SetText { file, why, .. } => format!("{why}({})", FILES[*file].1),
            Op::Touch { file } => format!("touch({})", FILES[*file].1),
            Op::Build { mode, forced } => format!(
                "{}build[{}{}]",
                if *forced { "forced-" } else { "" },
                mode.kind(),
                match mode {
                    Mode::CliFiles(f) | Mode::CliOut(f) => format!(" {}", f.iter().map(|i| FILES[*i].1).collect::<Vec<_>>().join(",")),
                    Mode::ApiFile(i) | Mode::ApiFileOut(i) => format!(" {}", FILES[*i].1),
                    _ => String::new(),
                }
            ),
            Op::Delete { file, loc } => format!("delete({})", out_rel(*loc, *file)),
            Op::CorruptVersion { file, loc, kind } => format!("corrupt-version#{kind}({})", out_rel(*loc, *file)),
            Op::CorruptHash { file, loc, kind } => format!("corrupt-hash#{kind}({})", out_rel(*loc, *file)),
            Op::TruncateHeader { file, loc, permille } => format!("truncate-header@{permille}({})", out_rel(*loc, *file)),
            Op::Foreign { file, loc, .. } => format!("foreign({})", out_rel(*loc, *file)),
            Op::OutputMtime { file, loc, newer } => format!("mtime-{}({})", if *newer { "newer" } else { "older" }, out_rel(*loc, *file)),
        }
    }
}

#[derive(Clone, Debug, PartialEq, Eq, Hash)]
struct History {
    init: Vec<String>,
    ops: Vec<Op>,
}

impl History {
    fn to_json(&self) -> Value {
        json!({
            "grammar_files": self.init.iter().enumerate().map(|(i, t)| json!({"name": FILES[i].0, "text": t})).collect::<Vec<_>>(),
            "ops": self.ops.iter().map(|o| o.to_json()).collect::<Vec<_>>(),
        })
    }
    fn from_json(v: &Value) -> History {
        History {
            init: v["grammar_files"].as_array().map(|a| a.iter().map(|g| g["text"].as_str().unwrap_or("").to_string()).collect()).unwrap_or_default(),
            ops: v["ops"].as_array().map(|a| a.iter().filter_map(Op::from_json).collect()).unwrap_or_default(),
        }
    }
}

// ---------------------------------------------------------------------------
// generator
// ---------------------------------------------------------------------------

struct Pools {
    valid: Vec<String>,
    invalid: Vec<(&'static str, String)>,
}

fn gen_files(t: &mut Tape, n: usize) -> Vec<usize> {
    let k = 1 + t.below(n);
    let mut v = vec![];
    for _ in 0..k {
        let f = t.below(n);
        if !v.contains(&f) {
            v.push(f);
        }
    }
    v
}

fn gen_mode(t: &mut Tape, n: usize) -> Mode {
    match t.below(7) {
        0 => Mode::CliFiles(gen_files(t, n)),
        1 => Mode::ApiDirOut,
        2 => Mode::CliOut(gen_files(t, n)),
        3 => Mode::ApiFile(t.below(n)),
        4 => Mode::ApiInSrcProcess,
        5 => Mode::ApiFileOut(t.below(n)),
        _ => Mode::ApiDirEnv,
    }
}

/// a mode whose build visits (file, loc)
fn gen_mode_for(t: &mut Tape, n: usize, file: usize, loc: Loc) -> Mode {
    match loc {
        Loc::InSrc => match t.below(3) {
            0 => Mode::CliFiles(vec![file]),
            1 => Mode::ApiFile(file),
            _ => Mode::ApiInSrcProcess,
        },
        Loc::Flat => match t.below(3) {
            0 => Mode::CliOut(vec![file]),
            1 => Mode::ApiFileOut(file),
            // a/b share their path between flat and tree layouts
            _ => {
                if FILES[file].2.is_empty() {
                    Mode::ApiDirOut
                } else {
                    Mode::CliOut(gen_files(t, n).into_iter().chain([file]).collect::<std::collections::BTreeSet<_>>().into_iter().collect())
                }
            }
        },
        Loc::Tree => match t.below(2) {
            0 => Mode::ApiDirOut,
            _ => Mode::ApiDirEnv,
        },
    }
}

fn gen_history(t: &mut Tape, pools: &Pools) -> History {
    let n = 1 + t.below(3);
    let mut cur: Vec<String> = (0..n).map(|_| pools.valid[t.below(pools.valid.len())].clone()).collect();
    let init = cur.clone();
    let mut prev: Vec<Option<String>> = vec![None; n];
    // last (file, loc) that was built, so that output operations tend to hit
    // files that exist
    let mut built: Vec<(usize, Loc)> = vec![];
    let len = t.below(26);
    let mut ops: Vec<Op> = vec![];
    let is_valid = |s: &String| pools.valid.contains(s);
    while ops.len() < len {
        let pick_out = |t: &mut Tape, built: &Vec<(usize, Loc)>| -> (usize, Loc) {
            if !built.is_empty() && t.chance(200) {
                built[t.below(built.len())]
            } else {
                (t.below(n), Loc::ALL[t.below(3)])
            }
        };
        let mut follow: Option<(usize, Option<Loc>)> = None;
        match t.weighted(&[30, 10, 8, 4, 7, 7, 5, 7, 7, 6, 4, 4]) {
            0 => {
                let mode = gen_mode(t, n);
                let forced = t.chance(40);
                for v in mode.visits(n) {
                    if !built.contains(&v) {
                        built.push(v);
                    }
                }
                ops.push(Op::Build { mode, forced });
            }
            1 => {
                let file = t.below(n);
                let mut i = t.below(pools.valid.len());
                if pools.valid[i] == cur[file] {
                    i = (i + 1) % pools.valid.len();
                }
                prev[file] = Some(std::mem::replace(&mut cur[file], pools.valid[i].clone()));
                ops.push(Op::SetText { file, text: cur[file].clone(), why: "edit".into() });
                follow = Some((file, None));
            }
            2 => {
                let file = t.below(n);
                if let Some(p) = prev[file].take() {
                    let why = if !is_valid(&cur[file]) && is_valid(&p) { "remove-error" } else { "revert" };
                    prev[file] = Some(std::mem::replace(&mut cur[file], p));
                    ops.push(Op::SetText { file, text: cur[file].clone(), why: why.into() });
                    follow = Some((file, None));
                } else {
                    ops.push(Op::Touch { file });
                    follow = Some((file, None));
                }
            }
            3 => {
                let file = t.below(n);
                ops.push(Op::Touch { file });
                follow = Some((file, None));
            }
            4 => {
                let file = t.below(n);
                let text = pools.invalid[t.below(pools.invalid.len())].1.clone();
                if is_valid(&cur[file]) {
                    prev[file] = Some(cur[file].clone());
                }
                cur[file] = text.clone();
                ops.push(Op::SetText { file, text, why: "introduce-error".into() });
                follow = Some((file, None));
            }
            5 => {
                // remove an error if there is one (else: an ordinary edit)
                let file = (0..n).find(|&f| !is_valid(&cur[f])).unwrap_or_else(|| t.below(n));
                let was_invalid = !is_valid(&cur[file]);
                let text = match prev[file].clone() {
                    Some(p) if is_valid(&p) && t.chance(160) => p,
                    _ => pools.valid[t.below(pools.valid.len())].clone(),
                };
                if text == cur[file] {
                    continue;
                }
                prev[file] = Some(std::mem::replace(&mut cur[file], text.clone()));
                ops.push(Op::SetText { file, text, why: if was_invalid { "remove-error".into() } else { "edit".into() } });
                follow = Some((file, None));
            }
            6 => {
                let (file, loc) = pick_out(t, &built);
                ops.push(Op::Delete { file, loc });
                follow = Some((file, Some(loc)));
            }
            7 => {
                let (file, loc) = pick_out(t, &built);
                ops.push(Op::CorruptVersion { file, loc, kind: t.below(6) as u8 });
                follow = Some((file, Some(loc)));
            }
            8 => {
                let (file, loc) = pick_out(t, &built);
                ops.push(Op::CorruptHash { file, loc, kind: t.below(8) as u8 });
                follow = Some((file, Some(loc)));
            }
            9 => {
                let (file, loc) = pick_out(t, &built);
                ops.push(Op::TruncateHeader { file, loc, permille: t.below(1001) as u16 });
                follow = Some((file, Some(loc)));
            }
            10 => {
                let (file, loc) = pick_out(t, &built);
                let text = pools.valid[t.below(pools.valid.len())].clone();
                ops.push(Op::Foreign { file, loc, text });
                if !built.contains(&(file, loc)) {
                    built.push((file, loc));
                }
                follow = Some((file, Some(loc)));
            }
            _ => {
                let (file, loc) = pick_out(t, &built);
                ops.push(Op::OutputMtime { file, loc, newer: t.chance(128) });
                follow = Some((file, Some(loc)));
            }
        }
        // most mutations are followed (not necessarily at once) by a
        // non-forced build that visits the mutated output
        if let Some((file, loc)) = follow {
            if ops.len() < len && t.chance(110) {
                let loc = loc.unwrap_or_else(|| {
                    let c: Vec<Loc> = built.iter().filter(|(f, _)| *f == file).map(|(_, l)| *l).collect();
                    if c.is_empty() {
                        Loc::ALL[t.below(3)]
                    } else {
                        c[t.below(c.len())]
                    }
                });
                let mode = gen_mode_for(t, n, file, loc);
                for v in mode.visits(n) {
                    if !built.contains(&v) {
                        built.push(v);
                    }
                }
                ops.push(Op::Build { mode, forced: false });
            }
        }
    }
    History { init, ops }
}

// ---------------------------------------------------------------------------
// interpreter + oracle
// ---------------------------------------------------------------------------

struct Env {
    ctx: Ctx,
    refs: RefBuilder,
}

#[derive(Default)]
struct CaseResult {
    /// (signature, what, failing step, observed)
    fail: Option<(String, String, usize, Value)>,
    infra: Option<String>,
    classes: Vec<String>,
    skips: Vec<String>,
    nontrivial: Vec<&'static str>,
    builds: usize,
    judged: usize,
}

fn split_lines(b: &[u8]) -> (Vec<u8>, Vec<u8>, Vec<u8>, usize) {
    // (line1 without \n, line2 without \n, rest after line 2, number of complete lines among the first two)
    let mut it = b.splitn(3, |c| *c == b'\n');
    let l1 = it.next().unwrap_or(&[]).to_vec();
    let l2 = it.next();
    let rest = it.next();
    let n = if rest.is_some() {
        2
    } else if l2.is_some() {
        1
    } else {
        0
    };
    (l1, l2.unwrap_or(&[]).to_vec(), rest.unwrap_or(&[]).to_vec(), n)
}

fn join_lines(l1: Option<&[u8]>, l2: Option<&[u8]>, rest: &[u8]) -> Vec<u8> {
    let mut v = vec![];
    if let Some(l) = l1 {
        v.extend_from_slice(l);
        v.push(b'\n');
    }
    if let Some(l) = l2 {
        v.extend_from_slice(l);
        v.push(b'\n');
    }
    v.extend_from_slice(rest);
    v
}

fn flip_hex(c: u8) -> u8 {
    if c == b'0' {
        b'1'
    } else {
        b'0'
    }
}

/// Apply a header corruption to the bytes of an existing output. None = the
/// operation does not apply to this content (counted as a no-op).
fn corrupt(op: &Op, b: &[u8]) -> Option<Vec<u8>> {
    let (l1, l2, rest, complete) = split_lines(b);
    match op {
        Op::CorruptVersion { kind, .. } => {
            if complete < 1 {
                return None;
            }
            let rest_all = if complete == 2 { join_lines(None, Some(&l2), &rest) } else { l2.clone() };
            Some(match kind {
                0 => [b"// auto-generated: \"lalrpop 0.0.0\"\n".to_vec(), rest_all].concat(),
                1 => rest_all,
                2 => [b"\n".to_vec(), rest_all].concat(),
                3 => [l1.clone(), b"x\n".to_vec(), rest_all].concat(),
                4 => {
                    if l1.is_empty() {
                        return None;
                    }
                    [l1[..l1.len() - 1].to_vec(), b"\n".to_vec(), rest_all].concat()
                }
                _ => [String::from_utf8_lossy(&l1).to_uppercase().into_bytes(), b"\n".to_vec(), rest_all].concat(),
            })
        }
        Op::CorruptHash { kind, .. } => {
            if complete < 2 {
                return None;
            }
            let mut h = l2.clone();
            let hex_pos: Vec<usize> = (0..h.len()).filter(|&i| i >= 9 && h[i].is_ascii_hexdigit()).collect();
            let new_l2: Option<Vec<u8>> = match kind {
                0 => {
                    let p = *hex_pos.first()?;
                    h[p] = flip_hex(h[p]);
                    Some(h)
                }
                1 => {
                    let p = *hex_pos.last()?;
                    h[p] = flip_hex(h[p]);
                    Some(h)
                }
                2 => {
                    if h.is_empty() {
                        return None;
                    }
                    h.pop();
                    Some(h)
                }
                // the hash of a text that is never the text of any grammar file
                3 => Some(sha3_line(b"this text is never a grammar").into_bytes()),
                4 => {
                    let u = String::from_utf8_lossy(&h).replace("sha3", "SHA3").into_bytes();
                    if u == h {
                        return None;
                    }
                    Some(u)
                }
                5 => {
                    let u = String::from_utf8_lossy(&h).replace("sha3", "sha2").into_bytes();
                    if u == h {
                        return None;
                    }
                    Some(u)
                }
                6 => None,
                _ => Some(vec![]),
            };
            Some(join_lines(Some(&l1), new_l2.as_deref(), &rest))
        }
        Op::TruncateHeader { permille, .. } => {
            if b.is_empty() {
                return None;
            }
            // strictly inside the header lines: at least the last character of
            // the second line's text is cut off
            let header_text = if complete >= 1 { l1.len() + 1 + l2.len() } else { l1.len() };
            let maxcut = header_text.saturating_sub(1).min(b.len() - 1);
            let cut = (*permille as usize * (maxcut + 1)) / 1001;
            Some(b[..cut.min(maxcut)].to_vec())
        }
        _ => None,
    }
}

fn run_build(env: &Env, dir: &Path, mode: &Mode, forced: bool) -> Out {
    let cli = |files: &Vec<usize>, out: bool| {
        let mut c = Cmd::new(&env.ctx.cli).cwd(dir).timeout_s(120);
        if forced {
            c = c.arg("--force");
        }
        if out {
            c = c.arg("-o").arg("out");
        }
        for f in files {
            c = c.arg(FILES[*f].0);
        }
        c.run()
    };
    let api = |a: Api| {
        let a = if forced { a.call_b("force_build", true) } else { a };
        a.exec(&env.ctx, dir)
    };
    match mode {
        Mode::CliFiles(f) => cli(f, false),
        Mode::CliOut(f) => cli(f, true),
        Mode::ApiFile(i) => api(Api::new().run1("process_file", FILES[*i].0)),
        Mode::ApiFileOut(i) => api(Api::new().call_s("set_out_dir", "out").run1("process_file", FILES[*i].0)),
        Mode::ApiDirOut => api(Api::new().call_s("set_out_dir", "out").run1("process_dir", "p")),
        Mode::ApiDirEnv => api(Api::new().env("OUT_DIR", "out").run1("process_dir", "p")),
        Mode::ApiInSrcProcess => api(Api::new().call_s("set_in_dir", "p").call_s("set_out_dir", "p").run0("process")),
    }
}

fn interpret(env: &Env, h: &History, dir: &Path) -> CaseResult {
    let mut res = CaseResult::default();
    let n = h.init.len().clamp(1, 3);
    let _ = std::fs::remove_dir_all(dir);
    if std::fs::create_dir_all(dir.join("p/c")).is_err() {
        res.infra = Some("cannot create case directory".into());
        return res;
    }
    let mut cur: Vec<String> = h.init.iter().take(n).cloned().collect();
    for (i, t) in cur.iter().enumerate() {
        let _ = std::fs::write(dir.join(FILES[i].0), t);
    }
    // events since the last build that visited (file, loc)
    let mut events: Vec<Vec<Vec<&'static str>>> = vec![vec![vec![]; 3]; 3];
    // explicit mtime class of each output: false = older than every grammar, true = newer
    let mut newer: Vec<Vec<bool>> = vec![vec![false; 3]; 3];
    let mut counter: i64 = 0;
    for (step, op) in h.ops.iter().enumerate() {
        let file_of = |f: usize| f.min(n - 1);
        match op {
            Op::SetText { file, text, why } => {
                let f = file_of(*file);
                cur[f] = text.clone();
                let _ = std::fs::write(dir.join(FILES[f].0), text);
                let ev: &'static str = match why.as_str() {
                    "revert" => "revert",
                    "introduce-error" => "introduce-error",
                    "remove-error" => "remove-error",
                    _ => "edit",
                };
                for l in 0..3 {
                    events[f][l].push(ev);
                }
            }
            Op::Touch { file } => {
                let f = file_of(*file);
                counter += 1;
                set_mtime(&dir.join(FILES[f].0), 1_600_000_000 + counter * 1000, 5);
                for l in 0..3 {
                    events[f][l].push("touch");
                }
            }
            Op::Delete { file, loc } => {
                let f = file_of(*file);
                let p = dir.join(out_rel(*loc, f));
                if std::fs::remove_file(&p).is_ok() {
                    mark(&mut events, f, *loc, "delete");
                } else {
                    res.classes.push("noop:output-absent".into());
                }
            }
            Op::CorruptVersion { file, loc, .. } | Op::CorruptHash { file, loc, .. } | Op::TruncateHeader { file, loc, .. } => {
                let f = file_of(*file);
                let p = dir.join(out_rel(*loc, f));
                match std::fs::read(&p).ok().and_then(|b| corrupt(op, &b)) {
                    Some(nb) => {
                        let _ = std::fs::write(&p, nb);
                        let ev = match op {
                            Op::CorruptVersion { .. } => "version-line",
                            Op::CorruptHash { .. } => "hash-line",
                            _ => "truncate-header",
                        };
                        mark(&mut events, f, *loc, ev);
                    }
                    None => res.classes.push("noop:output-absent".into()),
                }
            }
            Op::Foreign { file, loc, text } => {
                let f = file_of(*file);
                let p = dir.join(out_rel(*loc, f));
                match env.refs.f(text) {
                    Some(b) => {
                        let _ = std::fs::create_dir_all(p.parent().unwrap());
                        let _ = std::fs::write(&p, b);
                        mark(&mut events, f, *loc, "foreign");
                    }
                    None => res.classes.push("noop:foreign-text-invalid".into()),
                }
            }
            Op::OutputMtime { file, loc, newer: nw } => {
                let f = file_of(*file);
                newer[f][loc.idx()] = *nw;
                if FILES[f].2.is_empty() && *loc != Loc::InSrc {
                    newer[f][Loc::Flat.idx()] = *nw;
                    newer[f][Loc::Tree.idx()] = *nw;
                }
            }
            Op::Build { mode, forced } => {
                // clamp file indices of replayed / shrunk histories
                let mode = match mode {
                    Mode::CliFiles(v) => Mode::CliFiles(dedup(v.iter().map(|&f| file_of(f)).collect())),
                    Mode::CliOut(v) => Mode::CliOut(dedup(v.iter().map(|&f| file_of(f)).collect())),
                    Mode::ApiFile(f) => Mode::ApiFile(file_of(*f)),
                    Mode::ApiFileOut(f) => Mode::ApiFileOut(file_of(*f)),
                    m => m.clone(),
                };
                let visits = mode.visits(n);
                // make "untouched" observable without waiting: every existing
                // output gets an explicit, distinctive mtime
                for f in 0..n {
                    for loc in Loc::ALL {
                        let p = dir.join(out_rel(loc, f));
                        if p.exists() {
                            counter += 1;
                            let base = if newer[f][loc.idx()] { 1_700_000_000 } else { 1_400_000_000 };
                            set_mtime(&p, base + counter, 111_111_111);
                        }
                    }
                }
                let before = snapshot(dir);
                let before_out: Vec<(Option<Vec<u8>>, Option<(u64, i64, i64)>)> =
                    visits.iter().map(|(f, loc)| { let p = dir.join(out_rel(*loc, *f)); (std::fs::read(&p).ok(), file_id(&p)) }).collect();
                let out = run_build(env, dir, &mode, *forced);
                res.builds += 1;
                res.classes.push(format!("build:{}{}", mode.kind(), if *forced { ":forced" } else { "" }));
                let after = snapshot(dir);
                let observed = |extra: Value| {
                    json!({
                        "step": step,
                        "op": op.short(),
                        "exit": format!("{:?}", out.exit),
                        "stdout": out.stdout.chars().take(600).collect::<String>(),
                        "stderr": out.stderr.chars().take(600).collect::<String>(),
                        "detail": extra,
                    })
                };
                if out.panicked() || matches!(out.exit, Exit::Signal(_)) {
                    let sig = out.panic_signature().unwrap_or_else(|| format!("{:?}", out.exit));
                    res.fail = Some((format!("C21/panic/{sig}"), format!("the build panicked or was killed: {:?}", out.exit), step, observed(json!(null))));
                    return res;
                }
                if matches!(out.exit, Exit::Timeout | Exit::SpawnError(_)) {
                    res.infra = Some(format!("build did not run to completion: {:?}", out.exit));
                    return res;
                }
                let mut expect_fail: Option<usize> = None;
                for (vi, (f, loc)) in visits.iter().enumerate() {
                    let rel = out_rel(*loc, *f);
                    let p = dir.join(&rel);
                    let got = std::fs::read(&p).ok();
                    let ev = events[*f][loc.idx()].clone();
                    let cause = ev.last().copied().unwrap_or("nothing");
                    match env.refs.f(&cur[*f]) {
                        Some(want) => {
                            res.judged += 1;
                            if got.as_deref() != Some(&want[..]) {
                                // root-cause key: what the build found at the output path
                                let before_state = match &before_out[vi].0 {
                                    None => "output-absent",
                                    Some(b) if b[..] == want[..] => "output-current",
                                    Some(b) => {
                                        let (b1, b2, _, _) = split_lines(b);
                                        let (w1, w2, _, _) = split_lines(&want);
                                        if b1 != w1 {
                                            "version-line-differs"
                                        } else if b2 != w2 {
                                            if valid_texts().iter().any(|t| env.refs.f(t).as_deref() == Some(&b[..])) {
                                                "complete-output-of-other-text"
                                            } else {
                                                "hash-line-differs"
                                            }
                                        } else {
                                            "intact-header-other-body"
                                        }
                                    }
                                };
                                let _ = cause;
                                res.fail = Some((
                                    format!("C21/wrong-output-after-build/{}{before_state}", if *forced { "forced-" } else { "" }),
                                    format!(
                                        "after {} the output {rel} of {} is {}; a forced build of its current text gives {} bytes (before the build the output was {before_state}; events since its last build: {:?})",
                                        op.short(), FILES[*f].0, describe_bytes(&got), want.len(), ev
                                    ),
                                    step,
                                    observed(json!({"output": rel, "before": describe_bytes(&before_out[vi].0), "after": describe_bytes(&got), "expected_len": want.len()})),
                                ));
                                return res;
                            }
                            if !*forced && before_out[vi].0.as_deref() == Some(&want[..]) {
                                res.classes.push("visited:already-current".into());
                                let id = file_id(&p);
                                if id != before_out[vi].1 {
                                    res.fail = Some((
                                        "C21/current-output-rewritten".to_string(),
                                        format!(
                                            "{} found {rel} already current (bytes equal a forced build) but did not leave it untouched: (inode, mtime) {:?} -> {:?} (events since its last build: {:?})",
                                            op.short(), before_out[vi].1, id, ev
                                        ),
                                        step,
                                        observed(json!({"output": rel})),
                                    ));
                                    return res;
                                }
                            } else {
                                res.classes.push(format!("visited:{}", if *forced { "forced" } else { "rebuilt" }));
                            }
                            // non-trivial patterns
                            if !*forced {
                                let pos = |names: &[&str]| ev.iter().position(|e| names.contains(e));
                                if let (Some(a), Some(b)) = (pos(&["edit"]), ev.iter().rposition(|e| *e == "revert")) {
                                    if a < b {
                                        res.nontrivial.push("build-after-edit-then-revert");
                                    }
                                }
                                if ev.iter().any(|e| ["version-line", "hash-line", "truncate-header"].contains(e)) {
                                    res.nontrivial.push("build-after-header-corruption");
                                }
                                if let (Some(a), Some(b)) = (pos(&["introduce-error"]), ev.iter().rposition(|e| *e == "remove-error" || *e == "revert")) {
                                    if a < b {
                                        res.nontrivial.push("build-after-error-introduced-and-removed");
                                    }
                                }
                                if ev.contains(&"foreign") {
                                    res.classes.push("build-after-foreign-output".into());
                                }
                            }
                            events[*f][loc.idx()].clear();
                            if FILES[*f].2.is_empty() && *loc != Loc::InSrc {
                                events[*f][Loc::Flat.idx()].clear();
                                events[*f][Loc::Tree.idx()].clear();
                            }
                            newer[*f][loc.idx()] = false;
                        }
                        None => {
                            // the build must fail here and leave no output
                            res.judged += 1;
                            res.classes.push("visited:invalid-grammar".into());
                            if got.is_some() {
                                let kind = invalid_kind(&cur[*f]);
                                res.fail = Some((
                                    format!("C21/output-left-after-failed-build/{kind}"),
                                    format!(
                                        "{} visits {} whose text is invalid ({kind}), but an output {rel} exists afterwards: {} (before: {})",
                                        op.short(), FILES[*f].0, describe_bytes(&got), describe_bytes(&before_out[vi].0)
                                    ),
                                    step,
                                    observed(json!({"output": rel})),
                                ));
                                return res;
                            }
                            events[*f][loc.idx()].clear();
                            if FILES[*f].2.is_empty() && *loc != Loc::InSrc {
                                events[*f][Loc::Flat.idx()].clear();
                                events[*f][Loc::Tree.idx()].clear();
                            }
                            expect_fail = Some(vi);
                            for _ in vi + 1..visits.len() {
                                res.skips.push("grammar behind the one that failed the build (not judged)".into());
                            }
                            break;
                        }
                    }
                }
                let ok_exit = out.exit == Exit::Code(0);
                let err_exit = matches!(out.exit, Exit::Code(1)) || out.exit == Exit::Code(API_ERR_EXIT);
                if expect_fail.is_some() != err_exit || expect_fail.is_none() != ok_exit {
                    res.fail = Some((
                        format!("C21/build-status/{}", if expect_fail.is_some() { "error-not-reported" } else { "unexpected-error" }),
                        format!("{}: expected the build to {}, it exited with {:?}", op.short(), if expect_fail.is_some() { "fail" } else { "succeed" }, out.exit),
                        step,
                        observed(json!(null)),
                    ));
                    return res;
                }
                // nothing but outputs of the grammars named in the build may change
                let allowed: Vec<String> = visits.iter().map(|(f, loc)| out_rel(*loc, *f)).collect();
                let mut changed = vec![];
                for (k, a) in &after {
                    if a.kind == 'd' {
                        continue;
                    }
                    match before.get(k) {
                        Some(b) if b.kind == a.kind && b.hash == a.hash && b.len == a.len => {}
                        _ => changed.push(k.clone()),
                    }
                }
                for (k, b) in &before {
                    if b.kind != 'd' && !after.contains_key(k) {
                        changed.push(k.clone());
                    }
                }
                if let Some(bad) = changed.iter().find(|k| !allowed.contains(k)) {
                    res.fail = Some((
                        "C21/foreign-write".to_string(),
                        format!("{} changed {bad}, which is not the output of any grammar it was asked to process", op.short()),
                        step,
                        observed(json!({"changed": changed})),
                    ));
                    return res;
                }
            }
        }
    }
    res
}

fn dedup(v: Vec<usize>) -> Vec<usize> {
    let mut out = vec![];
    for x in v {
        if !out.contains(&x) {
            out.push(x);
        }
    }
    out
}

fn mark(events: &mut [Vec<Vec<&'static str>>], f: usize, loc: Loc, ev: &'static str) {
    events[f][loc.idx()].push(ev);
    // out/a.rs and out/b.rs are shared by the flat and the mirrored layout
    if FILES[f].2.is_empty() && loc != Loc::InSrc {
        let other = if loc == Loc::Flat { Loc::Tree } else { Loc::Flat };
        events[f][other.idx()].push(ev);
    }
}

fn invalid_kind(text: &str) -> &'static str {
    invalid_texts().into_iter().find(|(_, t)| t == text).map(|(k, _)| k).unwrap_or("invalid")
}

fn replay_json(h: &History, tape: &[u8], fail: &(String, String, usize, Value)) -> Value {
    let mut v = h.to_json();
    v["tape_hex"] = json!(tape::hex(tape));
    v["history"] = json!(h.ops.iter().map(|o| o.short()).collect::<Vec<_>>());
    v["failing_step"] = json!(fail.2);
    v["expected"] = json!("after every build: each visited valid grammar's output == forced build of its current text (untouched if already current); the first invalid grammar fails the build and has no output");
    v["observed"] = fail.3.clone();
    v
}

fn replay_case(env: &Env, ck: &mut Checker, v: &Value) {
    let h = History::from_json(v);
    let dir = env.ctx.work.join("replay_run");
    let r = interpret(env, &h, &dir);
    ck.eval();
    if let Some(e) = r.infra {
        ck.infra(e);
    }
    if let Some(f) = r.fail {
        let rj = replay_json(&h, &tape::unhex(v["tape_hex"].as_str().unwrap_or("")), &f);
        ck.violation(&f.0, &f.1, rj);
    }
}

pub fn run(ctx: Ctx, replay: Option<PathBuf>) -> i32 {
    let mut ck = Checker::new(
        ctx.clone(),
        "exploration",
        "history = initial texts of 1-3 grammar files + <= 25 operations (edit, revert, touch, introduce/remove error, build via CLI or API in 7 modes forced or not, \
         delete output, corrupt version line, corrupt hash line, truncate inside the header, foreign output, output mtime) decoded from a proptest byte tape; \
         non-trivial = the history contains a NON-forced build that visits an output after (a) an edit followed by a revert, (b) a corruption of its header lines \
         while it existed, or (c) an error that was introduced and removed again, each since the previous build of that output; distinct = distinct history",
    );
    ck.assume("F(text) = output of a forced CLI build of the text in a separate directory; a text is invalid iff that build fails");
    ck.assume("process_dir visits p/a.lalrpop, p/b.lalrpop, p/c/d.lalrpop in this order (sorted by file name, depth first); the CLI visits its arguments in order");
    ck.assume("hand edits below an intact header are outside the contract and never generated; whitespace-only changes of header lines are not generated either");
    let env = Env { ctx: ctx.clone(), refs: RefBuilder::new(&ctx, "ref") };
    let pools = Pools { valid: valid_texts(), invalid: invalid_texts() };

    // the model itself: every pool text builds (or fails) deterministically
    let all: Vec<String> = pools.valid.iter().cloned().chain(pools.invalid.iter().map(|(_, t)| t.clone())).collect();
    let built = par_map(&all, ctx.threads, |_, t| env.refs.build(t, false));
    for (i, r) in built.iter().enumerate() {
        let valid = i < pools.valid.len();
        if r.panicked {
            ck.infra(format!("reference build of pool text {i} panicked"));
        }
        if valid && (!r.ok || r.rs.is_none()) {
            ck.infra(format!("pool text {i} is supposed to be valid but its forced build failed: {}", r.stdout));
        }
        if !valid && r.ok {
            ck.infra(format!("pool text {i} is supposed to be invalid but its forced build succeeded"));
        }
    }
    if !ck.infra_errors.is_empty() {
        return ck.finish();
    }

    if let Some(p) = replay {
        ck.strict = true;
        match super::load_replay(&p) {
            Ok(v) => replay_case(&env, &mut ck, &v),
            Err(c) => return c,
        }
        return ck.finish();
    }
    ck.replay_listed(|ck, v| replay_case(&env, ck, v));

    let cases = ctx.tier.pick(500usize, 12_000usize);
    let tapes = tape::sample_tapes(ctx.seed, cases, 0, 160);
    let results = par_map(&tapes, ctx.threads, |i, t| {
        let h = gen_history(&mut Tape::new(t), &pools);
        let dir = env.ctx.work.join(format!("cases/h{i}"));
        let r = interpret(&env, &h, &dir);
        if r.fail.is_none() {
            let _ = std::fs::remove_dir_all(&dir);
        }
        (h, r)
    });
    let mut builds = 0u64;
    let mut judged = 0u64;
    let mut first_fail: std::collections::BTreeMap<String, usize> = Default::default();
    for (i, (h, r)) in results.iter().enumerate() {
        ck.eval();
        builds += r.builds as u64;
        judged += r.judged as u64;
        ck.class(&format!("files:{}", h.init.len()));
        ck.class(&format!("history_len:{}", match h.ops.len() { 0 => "0", 1..=5 => "1-5", 6..=15 => "6-15", _ => "16+" }));
        for c in &r.classes {
            ck.class(c);
        }
        for s in &r.skips {
            ck.skip(s);
        }
        if let Some(e) = &r.infra {
            ck.infra(format!("history {i}: {e}"));
            continue;
        }
        if !r.nontrivial.is_empty() {
            ck.nontrivial(h);
            let mut pats = r.nontrivial.clone();
            pats.sort();
            pats.dedup();
            for p in &pats {
                ck.class(&format!("pattern:{p}"));
            }
            if ck.want_sample() && h.ops.len() <= 12 && i % 5 == 0 {
                ck.sample(json!({
                    "files": h.init.len(),
                    "history": h.ops.iter().map(|o| o.short()).collect::<Vec<_>>(),
                    "patterns": pats,
                    "outcome": if r.fail.is_some() { "violation" } else { "invariant held after every build" },
                }));
            }
        }
        if let Some(f) = &r.fail {
            first_fail.entry(f.0.clone()).or_insert(i);
        }
    }
    ck.extra.insert("builds_run".into(), json!(builds));
    ck.extra.insert("outputs_judged".into(), json!(judged));
    ck.extra.insert("self_checks".into(), json!({"pool_texts_built": all.len()}));

    // minimise the first failing tape of each signature, then report
    for (nth, (sig, i)) in first_fail.into_iter().enumerate() {
        let known = ck.is_known(&sig);
        let mut tape_min = tapes[i].clone();
        // minimising costs a build per candidate step: only the first few signatures
        if !known && nth < 4 {
            let mut k = 0usize;
            tape_min = tape::shrink_tape(&tapes[i], ctx.tier.pick(70, 300), |cand| {
                k += 1;
                let h = gen_history(&mut Tape::new(cand), &pools);
                let dir = env.ctx.work.join(format!("shrink/s{i}_{k}"));
                let r = interpret(&env, &h, &dir);
                let _ = std::fs::remove_dir_all(&dir);
                r.fail.map(|f| f.0 == sig).unwrap_or(false)
            });
        }
        let h = gen_history(&mut Tape::new(&tape_min), &pools);
        let dir = env.ctx.work.join(format!("minimal/m{i}"));
        let r = interpret(&env, &h, &dir);
        match r.fail {
            Some(f) if f.0 == sig => {
                // drop the operations behind the failing step
                let mut h2 = h.clone();
                h2.ops.truncate(f.2 + 1);
                ck.violation(&f.0, &f.1, replay_json(&h2, &tape_min, &f));
            }
            _ => {
                // not reproducible from the minimised tape: report the original
                let (h, r) = &results[i];
                let f = r.fail.as_ref().unwrap();
                ck.violation(&f.0, &f.1, replay_json(h, &tapes[i], f));
            }
        }
    }
    // count the remaining failing histories per signature as repeats
    ck.finish()
}
