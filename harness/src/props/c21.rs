use crate::core::Ctx;
use std::path::PathBuf;
pub fn run(_ctx: Ctx, _replay: Option<PathBuf>) -> i32 { 2 }
