//! C10 - literal and regex terminals match exactly their own language.
//!
//! Domain: literals over ASCII punctuation / regex metacharacters / all
//! grammar-level escapes / non-ASCII text; regexes from the grammar in
//! `lexgen::gen_regex` (classes, negated/nested classes, ranges, repetitions,
//! alternation, groups, flags, Unicode classes, escapes) plus the pools.
//! Oracle: round trip. The regex string LALRPOP rendered into
//! `__intern_token::new_builder` (read back as rustc reads it) is handed to
//! the real `MatcherBuilder`; for candidate strings w the lexer full-matches
//! w iff w == s (literal) / iff an independent anchored matcher built from
//! the ORIGINAL regex text full-matches w.

use crate::core::{par_map, Checker, Ctx};
use crate::lexgen::{gen_regex, mutate, sample_hir, RxFeatures, ALPHABET, POOLS};
use crate::lexmodel::{extract, full_matcher, parse_hir, run_lalrpop, Item, LalrOut, LexSpec, Mapping, Pat, RealEnd, RealLexer, Tally};
use crate::tape::{self, Tape};
use serde_json::{json, Value};
use std::path::{Path, PathBuf};

const LIT_CHARS: &[char] = &[
    'a', 'b', 'Z', '0', '9', '_', ' ', '.', '*', '+', '?', '(', ')', '[', ']', '{', '}', '|', '\\', '^', '$', '#', '&', '-', '~', '"', '\'', '/', '<', '>', '=',
    ',', ';', ':', '!', '@', '%', '`', '\n', '\r', '\t', '\0', '\u{1}', '\u{7f}', '\u{1b}', 'é', 'ü', 'ß', 'λ', 'Ω', '日', '本', '€', '𝔘', '😀', '\u{a0}',
    '\u{301}', 'd', 'w', 's', 'p', 'n', 'x', 'u', 'i', 'k', 'K',
];
/// whole literals that look like regex syntax
const LIT_TRAPS: &[&str] = &[
    "a.b", "a*", "a+", "[ab]", "(a)", "a|b", "\\d", "\\w+", "a{2}", "^a", "a$", "\\", "\\\\", "\"", "\"#", "(?i)a", "[^a]", "\\n", "\\x41", "\\u{e9}", ".", "..",
    "a?", "x\\", "\\pL", "[a-z]+", "\\.", "(", ")", "[", "{", "}", "*", "+", "a b", " ", "\t", "\n", "r\"a\"", "\\b", "(?x) a", "a#b", "&&", "[a&&b]", "~~", "--",
];

fn gen_literal(t: &mut Tape) -> String {
    if t.chance(70) {
        return t.pick(LIT_TRAPS).to_string();
    }
    let n = 1 + t.below(5);
    (0..n).map(|_| *t.pick(LIT_CHARS)).collect()
}

#[derive(Clone)]
struct PatCase {
    pat: Pat,
    features: Vec<&'static str>,
    cands: Vec<String>,
}

fn lit_features(s: &str) -> Vec<&'static str> {
    let mut f = vec![];
    if s.chars().any(|c| ".*+?()[]{}|\\^$#&-~".contains(c)) {
        f.push("lit_metachar");
    }
    if s.chars().any(|c| matches!(c, '\n' | '\r' | '\t' | '\0' | '"' | '\\') || (c as u32) < 0x20 || c as u32 == 0x7f) {
        f.push("lit_needs_escape");
    }
    if !s.is_ascii() {
        f.push("lit_non_ascii");
    }
    if s.chars().any(|c| c.len_utf8() == 4) {
        f.push("lit_4byte_char");
    }
    f
}

fn gen_pat_case(t: &mut Tape) -> PatCase {
    let mut cands: Vec<String> = vec![];
    let (pat, features) = if t.chance(110) {
        let s = gen_literal(t);
        cands.push(s.clone());
        let cs: Vec<char> = s.chars().collect();
        // prefixes and extensions
        if cs.len() > 1 {
            let k = 1 + t.below(cs.len() - 1);
            cands.push(cs[..k].iter().collect());
            cands.push(cs[k..].iter().collect());
        }
        cands.push(format!("{s}{}", t.pick(ALPHABET)));
        cands.push(format!("{s}{s}"));
        if let Some(l) = cs.last() {
            cands.push(format!("{s}{l}"));
        }
        // case variants
        cands.push(s.to_uppercase());
        cands.push(s.to_lowercase());
        // without its non-alphanumeric characters
        cands.push(s.chars().filter(|c| c.is_alphanumeric()).collect());
        for _ in 0..4 {
            cands.push(mutate(&s, t));
        }
        // what the text would match if it were (wrongly) read as a regex
        if let Ok(h) = parse_hir(&s) {
            for _ in 0..4 {
                let mut w = String::new();
                sample_hir(&h, t, &mut w);
                cands.push(w);
            }
        }
        // what the escaped rendering would match if read as a literal
        cands.push(regex_syntax::escape(&s));
        (Pat::Lit(s.clone()), lit_features(&s))
    } else {
        let mut f = RxFeatures::default();
        let r = if t.chance(40) {
            let pool = &POOLS[t.below(POOLS.len())];
            f.set.insert("pool_regex");
            t.pick(pool.res).to_string()
        } else {
            gen_regex(t, &mut f)
        };
        if let Ok(h) = parse_hir(&r) {
            let mut samples = vec![];
            for _ in 0..7 {
                let mut w = String::new();
                sample_hir(&h, t, &mut w);
                samples.push(w);
            }
            for s in &samples {
                cands.push(mutate(s, t));
            }
            cands.extend(samples);
        }
        for _ in 0..3 {
            let n = 1 + t.below(4);
            cands.push((0..n).map(|_| *t.pick(ALPHABET)).collect());
        }
        cands.push(r.clone());
        (Pat::Re(r), f.set.into_iter().collect())
    };
    cands.retain(|w| !w.is_empty() && w.len() <= 64);
    cands.sort();
    cands.dedup();
    PatCase { pat, features, cands }
}

struct Case {
    spec: LexSpec,
    pats: Vec<PatCase>,
}

fn gen_case(tape: &[u8], tl: &mut Tally) -> Case {
    let mut t = Tape::new(tape);
    let k = 1 + t.below(4);
    let mut pats: Vec<PatCase> = vec![];
    for _ in 0..k {
        let pc = gen_pat_case(&mut t);
        if pats.iter().any(|p| p.pat == pc.pat) {
            continue;
        }
        if let Pat::Re(r) = &pc.pat {
            // the domain is "regexes supported by the lexer": syntactically valid
            if parse_hir(r).is_err() {
                tl.skip("generated regex is not valid Rust regex syntax (generator filter)");
                continue;
            }
        }
        pats.push(pc);
    }
    if pats.is_empty() {
        pats.push(PatCase { pat: Pat::Lit("a".into()), features: vec![], cands: vec!["a".into(), "b".into(), "aa".into()] });
    }
    let style = 1 + t.below(255) as u64 * 104729;
    let spec = if pats.len() == 1 && t.chance(128) {
        LexSpec { rungs: None, extra: vec![pats[0].pat.clone()], unused: vec![], style }
    } else {
        // one rung per pattern: no two patterns share a precedence
        LexSpec {
            rungs: Some(pats.iter().map(|p| vec![Item::Entry { pat: p.pat.clone(), map: Mapping::Id }]).collect()),
            extra: vec![],
            unused: vec![],
            style,
        }
    };
    Case { spec, pats }
}

fn real_full_match(real: &RealLexer, w: &str) -> (bool, String) {
    let run = real.run(w);
    let ok = run.toks.len() == 1 && run.toks[0].1 == 0 && run.toks[0].2 == w.len() && run.end == RealEnd::Eof;
    (ok, format!("tokens {:?}, end {:?}", run.toks, run.end))
}

/// Check one pattern of an accepted grammar against its candidates.
fn check_pattern(ex: &crate::lexmodel::Extracted, pat: &Pat, cands: &[String], text: &str, tape_hex: &str, tl: &mut Tally) -> (usize, usize) {
    let replay = |w: &str, expected: Value, observed: Value| {
        json!({
            "tape_hex": tape_hex,
            "grammars": [{"name": "g.lalrpop", "text": text}],
            "pattern": {"kind": if pat.is_lit() { "lit" } else { "re" }, "text": pat.text()},
            "input": w,
            "expected": expected,
            "observed": observed,
        })
    };
    let name = pat.show();
    let ks = ex.patterns_of(&name);
    if ks.len() != 1 {
        tl.violation(
            "C10/mapping/terminal-not-found",
            &format!("terminal {name} is mapped from {} patterns of the generated table", ks.len()),
            replay("", json!(1), ex.to_json()),
        );
        return (0, 0);
    }
    let rendered = &ex.strs[ks[0]].0;
    let real = match RealLexer::single(rendered) {
        Ok(r) => r,
        Err(e) => {
            tl.violation(
                "C10/rendered-pattern/does-not-compile",
                &format!("rendered pattern {rendered:?} for {name}: {e}"),
                replay("", Value::Null, json!(e)),
            );
            return (0, 0);
        }
    };
    let reference = match pat {
        Pat::Lit(_) => None,
        Pat::Re(r) => match full_matcher(r) {
            Some(m) => Some(m),
            None => {
                tl.infra.push(format!("reference matcher cannot compile r\"{r}\""));
                return (0, 0);
            }
        },
    };
    let (mut members, mut non_members) = (0, 0);
    for w in cands {
        tl.evals += 1;
        let want = match pat {
            Pat::Lit(s) => w == s,
            Pat::Re(_) => reference.as_ref().unwrap().full_match(w),
        };
        if want {
            members += 1;
        } else {
            non_members += 1;
        }
        let (got, detail) = real_full_match(&real, w);
        if got != want {
            let kind = if pat.is_lit() { "literal" } else { "regex" };
            let dir = if want { "rejects-member" } else { "accepts-non-member" };
            // root cause F15? the lexer agrees with the regex as regex-syntax
            // prints a nested repetition (`(?:a{2})?` -> `a{2}?`)
            let f15 = match pat {
                Pat::Re(r) => crate::lexmodel::printed_if_nested(r)
                    .and_then(|p| full_matcher(&p))
                    .map_or(false, |m| m.full_match(w) == got),
                Pat::Lit(_) => false,
            };
            let sig = if f15 { "C10/regex/nested-repetition-rendering".to_string() } else { format!("C10/{kind}/{dir}") };
            tl.violation(
                &sig,
                &format!(
                    "terminal {name} (rendered as {rendered:?}): candidate {w:?} should {}be matched in full, lexer gave {detail}",
                    if want { "" } else { "not " }
                ),
                replay(w, json!(want), json!({"full_match": got, "detail": detail, "rendered": rendered})),
            );
        }
    }
    (members, non_members)
}

fn eval_text(cli: &Path, dir: &Path, text: &str, pats: &[(Pat, Vec<String>, Vec<&'static str>)], tape_hex: &str, tl: &mut Tally) {
    let rs = match run_lalrpop(cli, dir, text) {
        LalrOut::Accepted(rs) => rs,
        LalrOut::Timeout => {
            tl.inconclusive += 1;
            tl.infra.push("lalrpop timed out".into());
            return;
        }
        LalrOut::Infra(m) => {
            tl.infra.push(m);
            return;
        }
        other => {
            // every pattern is a literal or a syntactically valid regex made of
            // supported constructs, each in its own rung: must be accepted
            tl.violation(
                &format!("C10/rejected/{}", other.name()),
                &format!("lalrpop rejected a lexer of valid, pairwise differently ranked terminals: {}", other.detail()),
                json!({"tape_hex": tape_hex, "grammars": [{"name": "g.lalrpop", "text": text}], "patterns": pats.iter().map(|p| p.0.show()).collect::<Vec<_>>(),
                       "expected": "parser generated", "observed": other.detail()}),
            );
            return;
        }
    };
    let ex = match extract(&rs) {
        Ok(e) => e,
        Err(e) => {
            tl.violation(
                "C10/generated-source/unreadable",
                &format!("cannot read the lexer tables back as Rust: {e}"),
                json!({"tape_hex": tape_hex, "grammars": [{"name": "g.lalrpop", "text": text}], "expected": "valid Rust string literals", "observed": e}),
            );
            return;
        }
    };
    for (pat, cands, features) in pats {
        let (m, n) = check_pattern(&ex, pat, cands, text, tape_hex, tl);
        tl.class(if pat.is_lit() { "literal" } else { "regex" });
        for f in features {
            tl.class(f);
        }
        tl.class_n("candidates_member", m as u64);
        tl.class_n("candidates_non_member", n as u64);
        let interesting = !features.is_empty() || (!pat.is_lit() && pat.text().chars().any(|c| !c.is_alphanumeric()));
        if interesting && m > 0 && n > 0 {
            tl.nontrivial(&pat.show());
            if tl.samples.is_empty() {
                tl.samples.push(json!({"terminal": pat.show(), "members": m, "non_members": n, "candidates": cands}));
            }
        }
    }
}

fn eval_tape(ctx: &Ctx, idx: usize, tape: &[u8]) -> Tally {
    let mut tl = Tally::default();
    let case = gen_case(tape, &mut tl);
    let dir = ctx.work.join(format!("r{idx}"));
    let pats: Vec<_> = case.pats.iter().map(|p| (p.pat.clone(), p.cands.clone(), p.features.clone())).collect();
    eval_text(&ctx.cli, &dir, &case.spec.to_lalrpop(), &pats, &tape::hex(tape), &mut tl);
    let _ = std::fs::remove_dir_all(&dir);
    tl
}

fn replay_case(ck: &mut Checker, v: &Value) {
    let text = v["grammars"][0]["text"].as_str().unwrap_or("").to_string();
    let mut tl = Tally::default();
    let dir = ck.ctx.work.join("replay_run");
    let pats: Vec<(Pat, Vec<String>, Vec<&'static str>)> = if v["pattern"].is_object() {
        let t = v["pattern"]["text"].as_str().unwrap_or("").to_string();
        let pat = if v["pattern"]["kind"] == "lit" { Pat::Lit(t) } else { Pat::Re(t) };
        vec![(pat, vec![v["input"].as_str().unwrap_or("").to_string()], vec![])]
    } else {
        vec![]
    };
    eval_text(&ck.ctx.cli, &dir, &text, &pats, v["tape_hex"].as_str().unwrap_or(""), &mut tl);
    tl.samples.clear();
    tl.merge(ck);
}

pub fn run(ctx: Ctx, replay: Option<PathBuf>) -> i32 {
    let mut ck = Checker::new(
        ctx.clone(),
        "exploration",
        "1-4 terminals per grammar (literals over metacharacters / escapes / non-ASCII; regexes from a grammar of classes, repetitions, alternation, groups, flags, \
         Unicode classes), each in its own precedence rung, x 10-25 candidate strings per terminal (the literal, prefixes, extensions, case variants, mutations, strings the \
         text would match if misread as a regex; samples from the regex HIR, their mutations, random strings); non-trivial = terminal containing a metacharacter, escape, \
         class or non-ASCII character whose candidates include members and non-members; distinct = distinct terminal",
    );
    ck.assume("'the lexer full-matches w' = the real MatcherBuilder built from the terminal's own rendered pattern yields exactly one token 0..len(w) and then the end of input");
    ck.assume("reference for regexes: regex-syntax (unicode, utf8) HIR of the original text + End assertion, regex meta engine without DFAs");
    ck.assume("the empty literal and empty candidates are excluded (the lexer never reports at end of input)");
    if let Some(p) = replay {
        ck.strict = true;
        match super::load_replay(&p) {
            Ok(v) => replay_case(&mut ck, &v),
            Err(c) => return c,
        }
        return ck.finish();
    }
    ck.replay_listed(replay_case);
    let n = ctx.tier.pick(3000usize, 60_000usize);
    let tapes = tape::sample_tapes(ctx.seed, n, 0, 300);
    let tallies = par_map(&tapes, ctx.threads, |i, t| eval_tape(&ctx, i, t));
    let mut to_shrink: Vec<(String, usize)> = vec![];
    for (i, tl) in tallies.into_iter().enumerate() {
        for sig in tl.merge(&mut ck) {
            to_shrink.push((sig, i));
        }
    }
    for (sig, i) in to_shrink {
        let small = tape::shrink_tape(&tapes[i], 200, |t| eval_tape(&ctx, 1_000_000 + i, t).violations.iter().any(|v| v.0 == sig));
        let tl = eval_tape(&ctx, 1_000_000 + i, &small);
        if let Some((_, what, mut r)) = tl.violations.into_iter().find(|v| v.0 == sig) {
            let path = ctx.work.join("replay").join(format!("{}.min.json", crate::core::sanitize(&sig)));
            r["property"] = json!("C10");
            r["signature"] = json!(sig);
            r["what"] = json!(what);
            let _ = std::fs::write(&path, serde_json::to_string_pretty(&r).unwrap());
            println!("  minimised replay: {}", path.display());
        }
    }
    ck.finish()
}
