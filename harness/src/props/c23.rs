//! C23 - each grammar file maps to exactly one output at the documented path.
//!
//! Domain: random directory trees (nested / repeated / leading `src`, dotted
//! and hidden names, names with whitespace, Unicode names, non-`.lalrpop`
//! files, directories named `*.lalrpop`, symlinks to files and directories,
//! dangling symlinks, never a symlink loop) x configurations (CLI with and
//! without `-o`; `process_file`; `process_dir` with `set_out_dir` or `OUT_DIR`
//! or neither; `set_in_dir` + `process`; `use_cargo_dir_conventions`;
//! `generate_in_source_tree`; conflicting `set_in_dir`) x `emit_rerun_directives`.
//!
//! Oracle: an independent path model written from the property statement: an
//! own directory walker (follows symlinks, skips dangling ones, entries sorted
//! by name) and the documented output-path rule. After the run the set of
//! created / changed physical files must equal the model's image of the
//! processed grammars (colliding images: any of the colliding sources may have
//! won), with content equal to a forced reference build of the source text;
//! whitespace names, in_dir conflicts and a missing OUT_DIR are errors;
//! directives name exactly the processed files; a second identical run changes
//! nothing; no panic.

use super::driver_common::{snapshot, valid_texts, Api, RefBuilder, API_ERR_EXIT};
use crate::core::{par_map, Checker, Ctx};
use crate::run::{Cmd, Exit, Out};
use crate::tape::{self, Tape};
use serde_json::{json, Value};
use std::collections::{BTreeMap, BTreeSet};
use std::path::{Component, Path, PathBuf};

// ---------------------------------------------------------------------------
// case description
// ---------------------------------------------------------------------------

#[derive(Clone, Debug, PartialEq, Eq, Hash)]
enum Kind {
    Dir,
    /// regular file with this text
    File(String),
    /// symlink with this target (`$CASE` = absolute path of the case directory)
    Link(String),
}

/// path relative to the case directory (`proj/...` or `ext/...`)
#[derive(Clone, Debug, PartialEq, Eq, Hash)]
struct Entry {
    path: String,
    kind: Kind,
}

#[derive(Clone, Debug, PartialEq, Eq, Hash, Default)]
struct Cfg {
    /// cli | api-file | api-dir | api-process | cargo | in-source
    kind: String,
    files: Vec<String>,
    dir: Option<String>,
    set_in_dir: Option<String>,
    set_out_dir: Option<String>,
    env_out: Option<String>,
    rerun: bool,
}

#[derive(Clone, Debug, PartialEq, Eq, Hash)]
struct Case {
    entries: Vec<Entry>,
    cfg: Cfg,
}

impl Cfg {
    fn to_json(&self) -> Value {
        json!({"kind": self.kind, "files": self.files, "dir": self.dir, "set_in_dir": self.set_in_dir, "set_out_dir": self.set_out_dir, "OUT_DIR": self.env_out, "emit_rerun_directives": self.rerun})
    }
    fn from_json(v: &Value) -> Cfg {
        let s = |k: &str| v[k].as_str().map(String::from);
        Cfg {
            kind: s("kind").unwrap_or_default(),
            files: v["files"].as_array().map(|a| a.iter().filter_map(|x| x.as_str().map(String::from)).collect()).unwrap_or_default(),
            dir: s("dir"),
            set_in_dir: s("set_in_dir"),
            set_out_dir: s("set_out_dir"),
            env_out: s("OUT_DIR"),
            rerun: v["emit_rerun_directives"].as_bool().unwrap_or(false),
        }
    }
    fn short(&self) -> String {
        let mut s = match self.kind.as_str() {
            "cli" => format!("lalrpop{} {}", self.set_out_dir.as_ref().map(|o| format!(" -o {o:?}")).unwrap_or_default(), self.files.iter().map(|f| format!("{f:?}")).collect::<Vec<_>>().join(" ")),
            "api-file" => format!("process_file({:?})", self.files.first().cloned().unwrap_or_default()),
            "api-dir" => format!("process_dir({:?})", self.dir.clone().unwrap_or_default()),
            "api-process" => "process()".to_string(),
            "cargo" => "use_cargo_dir_conventions().process()".to_string(),
            _ => "generate_in_source_tree().process()".to_string(),
        };
        if self.kind != "cli" {
            if let Some(o) = &self.set_out_dir {
                s = format!("set_out_dir({o:?}).{s}");
            }
            if let Some(i) = &self.set_in_dir {
                s = format!("set_in_dir({i:?}).{s}");
            }
            if self.rerun {
                s = format!("emit_rerun_directives(true).{s}");
            }
            if let Some(e) = &self.env_out {
                s = format!("OUT_DIR={e:?} {s}");
            }
        }
        s
    }
}

impl Case {
    fn to_json(&self) -> Value {
        json!({
            "tree": self.entries.iter().map(|e| match &e.kind {
                Kind::Dir => json!({"path": e.path, "kind": "dir"}),
                Kind::File(t) => json!({"path": e.path, "kind": "file", "text": t}),
                Kind::Link(t) => json!({"path": e.path, "kind": "symlink", "target": t}),
            }).collect::<Vec<_>>(),
            "cwd": "proj",
            "config": self.cfg.to_json(),
        })
    }
    fn from_json(v: &Value) -> Case {
        let entries = v["tree"]
            .as_array()
            .map(|a| {
                a.iter()
                    .map(|e| Entry {
                        path: e["path"].as_str().unwrap_or("").to_string(),
                        kind: match e["kind"].as_str().unwrap_or("") {
                            "dir" => Kind::Dir,
                            "symlink" => Kind::Link(e["target"].as_str().unwrap_or("").to_string()),
                            _ => Kind::File(e["text"].as_str().unwrap_or("").to_string()),
                        },
                    })
                    .collect()
            })
            .unwrap_or_default();
        Case { entries, cfg: Cfg::from_json(&v["config"]) }
    }
    fn tree_lines(&self) -> Vec<String> {
        self.entries
            .iter()
            .map(|e| match &e.kind {
                Kind::Dir => format!("{}/", e.path),
                Kind::File(_) => e.path.clone(),
                Kind::Link(t) => format!("{} -> {}", e.path, t),
            })
            .collect()
    }
}

// ---------------------------------------------------------------------------
// generator
// ---------------------------------------------------------------------------

const DIRN: &[&str] = &["src", "a", "src", "sub", "b.c", "src", "my dir", "\u{e9}t\u{e9}", "d.lalrpop", ".hid"];
const FILE_OK: &[&str] = &["g.lalrpop", "h.lalrpop", "a.b.lalrpop", ".h.lalrpop", "\u{e9}.lalrpop", "src.lalrpop", "x-1.lalrpop", "G.lalrpop", "a.b.c.lalrpop", "\u{65e5}\u{672c}.lalrpop"];
const FILE_WS: &[&str] = &["x y.lalrpop", "t\tz.lalrpop", "n\u{a0}b.lalrpop", " lead.lalrpop", "trail .lalrpop", "i\u{3000}j.lalrpop"];
const FILE_IGN: &[&str] = &["notes.txt", ".lalrpop", "g.lalrpop.bak", "x.LALRPOP", "lalrpop", "k.lalrpopx", "m.rs", "g.rs", "h.lalrpop~"];

fn has_ws(name: &str) -> bool {
    name.chars().any(char::is_whitespace)
}

struct Gen<'a, 'b> {
    t: &'a mut Tape<'b>,
    texts: &'a [String],
    entries: Vec<Entry>,
    dirs: Vec<String>,
    files: Vec<String>,
    nfiles: usize,
}

impl Gen<'_, '_> {
    fn exists(&self, p: &str) -> bool {
        self.entries.iter().any(|e| e.path == p)
    }
    fn text(&mut self) -> String {
        self.texts[self.t.below(self.texts.len())].clone()
    }
    fn add_file(&mut self, dir: &str, name: &str) {
        let p = format!("{dir}/{name}");
        if self.exists(&p) {
            return;
        }
        // every regular file (also `notes.txt`, `m.rs`) holds a valid grammar, so a
        // file that is processed by mistake produces an (unexpected) output
        let text = self.text();
        self.entries.push(Entry { path: p.clone(), kind: Kind::File(text) });
        self.files.push(p);
        self.nfiles += 1;
    }
    fn gen_dir(&mut self, path: &str, depth: usize) {
        let n = if depth == 0 { 1 + self.t.below(4) } else { self.t.below(4) };
        for _ in 0..n {
            if self.nfiles >= 9 {
                break;
            }
            let sub = depth < 4 && self.dirs.len() < 8 && self.t.chance(if depth == 0 { 130 } else { 90 });
            if sub {
                let name = *self.t.pick(DIRN);
                let p = format!("{path}/{name}");
                if self.exists(&p) {
                    continue;
                }
                self.entries.push(Entry { path: p.clone(), kind: Kind::Dir });
                self.dirs.push(p.clone());
                // a directory is never empty of grammars by default
                let f = *self.t.pick(FILE_OK);
                self.add_file(&p, f);
                self.gen_dir(&p, depth + 1);
            } else {
                let name = match self.t.weighted(&[60, 25, 7]) {
                    0 => *self.t.pick(FILE_OK),
                    1 => *self.t.pick(FILE_IGN),
                    _ => *self.t.pick(FILE_WS),
                };
                self.add_file(path, name);
            }
        }
    }
}

fn rel_from(dir: &str, target: &str) -> String {
    // relative path from directory `dir` to `target` (both relative to the case dir)
    let d: Vec<&str> = dir.split('/').collect();
    let t: Vec<&str> = target.split('/').collect();
    let mut i = 0;
    while i < d.len() && i < t.len() && d[i] == t[i] {
        i += 1;
    }
    let mut parts: Vec<String> = vec!["..".to_string(); d.len() - i];
    parts.extend(t[i..].iter().map(|s| s.to_string()));
    if parts.is_empty() {
        ".".into()
    } else {
        parts.join("/")
    }
}

fn gen_case(t: &mut Tape, texts: &[String]) -> Case {
    let mut g = Gen { t, texts, entries: vec![], dirs: vec!["proj".into()], files: vec![], nfiles: 0 };
    g.entries.push(Entry { path: "proj".into(), kind: Kind::Dir });
    g.gen_dir("proj", 0);
    if g.nfiles == 0 {
        g.add_file("proj", "g.lalrpop");
    }
    // a directory outside the project (symlink targets, out dirs)
    for (p, k) in [("ext", Kind::Dir), ("ext/src", Kind::Dir)] {
        g.entries.push(Entry { path: p.into(), kind: k });
    }
    let (t1, t2) = (g.text(), g.text());
    g.entries.push(Entry { path: "ext/e.lalrpop".into(), kind: Kind::File(t1) });
    g.entries.push(Entry { path: "ext/src/f.g.lalrpop".into(), kind: Kind::File(t2) });
    g.entries.push(Entry { path: "ext/readme.txt".into(), kind: Kind::File("not a grammar\n".into()) });
    let ext_dirs = ["ext".to_string(), "ext/src".to_string()];
    let ext_files = ["ext/e.lalrpop".to_string(), "ext/src/f.g.lalrpop".to_string()];

    // symlinks; `marked` = directories that (transitively) contain a directory symlink
    let mut marked: BTreeSet<String> = BTreeSet::new();
    let mut link_files: Vec<String> = vec![];
    let nl = g.t.below(4);
    for _ in 0..nl {
        let parent = g.dirs[g.t.below(g.dirs.len())].clone();
        let abs = g.t.chance(100);
        let mk_target = |target: &str| if abs { format!("$CASE/{target}") } else { rel_from(&parent, target) };
        match g.t.weighted(&[4, 3, 2]) {
            0 => {
                let name = *g.t.pick(&["l.lalrpop", "l.k.lalrpop", "ln.txt", "q.lalrpop"]);
                let p = format!("{parent}/{name}");
                if g.exists(&p) {
                    continue;
                }
                let cands: Vec<String> = g.files.iter().cloned().chain(ext_files.iter().cloned()).collect();
                let target = cands[g.t.below(cands.len())].clone();
                g.entries.push(Entry { path: p.clone(), kind: Kind::Link(mk_target(&target)) });
                link_files.push(p);
            }
            1 => {
                let name = *g.t.pick(&["ld", "src", "lsub", "k.lalrpop"]);
                let p = format!("{parent}/{name}");
                if g.exists(&p) {
                    continue;
                }
                let is_anc = |d: &str| parent == d || parent.starts_with(&format!("{d}/"));
                let cands: Vec<String> = g.dirs.iter().chain(ext_dirs.iter()).filter(|d| !marked.contains(*d) && !is_anc(d)).cloned().collect();
                if cands.is_empty() {
                    continue;
                }
                let target = cands[g.t.below(cands.len())].clone();
                g.entries.push(Entry { path: p, kind: Kind::Link(mk_target(&target)) });
                let mut a = parent.clone();
                loop {
                    marked.insert(a.clone());
                    match a.rfind('/') {
                        Some(i) => a.truncate(i),
                        None => break,
                    }
                }
            }
            _ => {
                let name = *g.t.pick(&["dang.lalrpop", "dd", "dang 2.lalrpop"]);
                let p = format!("{parent}/{name}");
                if g.exists(&p) {
                    continue;
                }
                g.entries.push(Entry { path: p, kind: Kind::Link("nowhere/none.lalrpop".into()) });
            }
        }
    }

    // ---- configuration ----
    let proj_dirs: Vec<String> = g.dirs.iter().map(|d| if d == "proj" { ".".to_string() } else { d["proj/".len()..].to_string() }).collect();
    let spell = |t: &mut Tape, d: &str| -> String {
        if d == "." {
            return match t.below(3) {
                0 => ".".into(),
                1 => "./".into(),
                _ => "$CASE/proj".into(),
            };
        }
        match t.below(5) {
            0 | 1 => d.to_string(),
            2 => format!("./{d}"),
            3 => format!("{d}/"),
            _ => format!("$CASE/proj/{d}"),
        }
    };
    let out_choice = |t: &mut Tape| -> String {
        (*t.pick(&["out", "../ext/o", "src/gen", ".", "$CASE/oabs", "o p", "out/deep/er"])).to_string()
    };
    let lalrpop_named: Vec<String> = g
        .files
        .iter()
        .chain(link_files.iter())
        .filter(|p| p.ends_with(".lalrpop") && !p.ends_with("/.lalrpop"))
        .map(|p| p["proj/".len()..].to_string())
        .collect();
    let has_src = g.entries.iter().any(|e| e.path == "proj/src" && (e.kind == Kind::Dir || matches!(&e.kind, Kind::Link(t) if !t.starts_with("nowhere"))));
    let pick_dir = |t: &mut Tape| -> String {
        // the project root and `src` are the common cases
        if t.chance(120) {
            proj_dirs[t.below(proj_dirs.len())].clone()
        } else if has_src && t.chance(128) {
            "src".into()
        } else {
            ".".into()
        }
    };
    let mut cfg = Cfg::default();
    let t = &mut *g.t;
    match t.weighted(&[18, 14, 8, 12, 10, 6, 4]) {
        0 => {
            cfg.kind = "api-dir".into();
            let d = pick_dir(t);
            cfg.dir = Some(spell(t, &d));
            match t.weighted(&[6, 3, 1]) {
                0 => cfg.set_out_dir = Some(out_choice(t)),
                1 => cfg.env_out = Some(out_choice(t)),
                _ => {}
            }
            // sometimes a set_in_dir as well: equal (fine) or different (conflict)
            if t.chance(40) {
                cfg.set_in_dir = if t.chance(128) { cfg.dir.clone() } else { Some("ext-other".into()) };
            }
        }
        1 => {
            cfg.kind = "cli".into();
            let n = 1 + t.below(3);
            for _ in 0..n {
                if lalrpop_named.is_empty() {
                    break;
                }
                let f = lalrpop_named[t.below(lalrpop_named.len())].clone();
                if !cfg.files.contains(&f) {
                    cfg.files.push(f);
                }
            }
            if t.chance(150) {
                cfg.set_out_dir = Some(out_choice(t));
            }
        }
        2 => {
            cfg.kind = "api-file".into();
            if !lalrpop_named.is_empty() {
                let f = lalrpop_named[t.below(lalrpop_named.len())].clone();
                cfg.files.push(if t.chance(60) { format!("$CASE/proj/{f}") } else if t.chance(60) { format!("./{f}") } else { f });
            }
            if t.chance(150) {
                cfg.set_out_dir = Some(out_choice(t));
            }
            if t.chance(30) {
                cfg.set_in_dir = Some("src".into());
            }
        }
        3 => {
            cfg.kind = "api-process".into();
            if t.chance(200) {
                let d = pick_dir(t);
                cfg.set_in_dir = Some(spell(t, &d));
            }
            match t.weighted(&[6, 3, 1]) {
                0 => cfg.set_out_dir = Some(out_choice(t)),
                1 => cfg.env_out = Some(out_choice(t)),
                _ => {}
            }
        }
        4 if has_src => {
            cfg.kind = "cargo".into();
            cfg.env_out = Some(out_choice(t));
        }
        5 => {
            cfg.kind = "in-source".into();
        }
        _ => {
            // the documented default of a build script: process_dir(".") with OUT_DIR
            cfg.kind = "api-dir".into();
            cfg.dir = Some(".".into());
            cfg.env_out = Some(out_choice(t));
        }
    }
    if cfg.kind == "cli" || cfg.kind == "api-file" {
        if cfg.files.is_empty() {
            cfg = Cfg { kind: "in-source".into(), ..Cfg::default() };
        }
    }
    if cfg.kind != "cli" {
        cfg.rerun = t.chance(128);
    }
    Case { entries: g.entries, cfg }
}

// ---------------------------------------------------------------------------
// the model
// ---------------------------------------------------------------------------

/// Discovered grammar: path as the driver names it (root joined with the
/// relative path) and the directory components below the root.
#[derive(Clone, Debug)]
struct Found {
    path: PathBuf,
    rel_dir: Vec<String>,
    name: String,
    via_symlink: bool,
}

/// Independent walker: follows symlinks, skips dangling ones, entries in
/// byte-wise name order, directories descended where they sort.
fn discover(cwd: &Path, root: &str) -> Result<Vec<Found>, String> {
    fn rec(abs: &Path, shown: &Path, rel: &mut Vec<String>, via: bool, out: &mut Vec<Found>) {
        let Ok(rd) = std::fs::read_dir(abs) else { return };
        let mut names: Vec<std::ffi::OsString> = rd.flatten().map(|e| e.file_name()).collect();
        names.sort();
        for n in names {
            let a = abs.join(&n);
            let s = shown.join(&n);
            let is_link = std::fs::symlink_metadata(&a).map(|m| m.file_type().is_symlink()).unwrap_or(false);
            let Ok(md) = std::fs::metadata(&a) else { continue }; // dangling
            let name = n.to_string_lossy().into_owned();
            if md.is_dir() {
                rel.push(name);
                rec(&a, &s, rel, via || is_link, out);
                rel.pop();
            } else if md.is_file() {
                if name.len() > ".lalrpop".len() && name.ends_with(".lalrpop") {
                    out.push(Found { path: s, rel_dir: rel.clone(), name, via_symlink: via || is_link });
                }
            }
        }
    }
    let abs = cwd.join(root);
    if !std::fs::metadata(&abs).map(|m| m.is_dir()).unwrap_or(false) {
        return Err(format!("root {root} is not a directory"));
    }
    let mut out = vec![];
    rec(&abs, Path::new(root), &mut vec![], false, &mut out);
    Ok(out)
}

fn stem_rs(name: &str) -> String {
    format!("{}.rs", &name[..name.len() - ".lalrpop".len()])
}

#[derive(Clone, Debug)]
struct Expect {
    /// None = Ok(()); Some(reason) = must fail
    err: Option<&'static str>,
    /// (input as named by the driver, output path relative to cwd or absolute)
    processed: Vec<(PathBuf, PathBuf)>,
    /// the input that is rejected (a directive for it is optional)
    rejected: Option<PathBuf>,
    features: BTreeSet<&'static str>,
    has_out: bool,
}

fn model(cfg: &Cfg, cwd: &Path) -> Result<Expect, String> {
    let mut ex = Expect { err: None, processed: vec![], rejected: None, features: BTreeSet::new(), has_out: false };
    let single = |ex: &mut Expect, file: &str, out: &Option<String>| {
        let p = PathBuf::from(file);
        let name = p.file_name().map(|n| n.to_string_lossy().into_owned()).unwrap_or_default();
        if has_ws(&name) {
            ex.err = Some("whitespace-name");
            ex.rejected = Some(p);
            ex.features.insert("whitespace-name");
            return false;
        }
        let o = match out {
            // directly in out_dir for a single process_file
            Some(o) => PathBuf::from(o).join(stem_rs(&name)),
            // beside the input
            None => p.parent().map(|d| d.to_path_buf()).unwrap_or_default().join(stem_rs(&name)),
        };
        if name[..name.len() - 8].contains('.') {
            ex.features.insert("dotted-name");
        }
        if std::fs::symlink_metadata(cwd.join(&p)).map(|m| m.file_type().is_symlink()).unwrap_or(false) {
            ex.features.insert("symlink");
        }
        ex.processed.push((p, o));
        true
    };
    let walk = |ex: &mut Expect, root: &str, out: &str| -> Result<(), String> {
        let found = discover(cwd, root)?;
        for f in found {
            if has_ws(&f.name) {
                ex.err = Some("whitespace-name");
                ex.rejected = Some(f.path.clone());
                ex.features.insert("whitespace-name");
                break;
            }
            // out_dir / (directory relative to in_dir, minus a leading `src`) / stem.rs
            let mut dir = f.rel_dir.clone();
            if dir.first().map(|s| s == "src").unwrap_or(false) {
                dir.remove(0);
                ex.features.insert("leading-src");
            }
            if dir.iter().any(|s| s == "src") {
                ex.features.insert("nested-or-repeated-src");
            }
            if f.via_symlink {
                ex.features.insert("symlink");
            }
            if f.name[..f.name.len() - 8].contains('.') {
                ex.features.insert("dotted-name");
            }
            if dir.iter().any(|s| has_ws(s)) {
                ex.features.insert("whitespace-directory");
            }
            let mut o = PathBuf::from(out);
            for d in &dir {
                o.push(d);
            }
            o.push(stem_rs(&f.name));
            ex.processed.push((f.path, o));
        }
        Ok(())
    };
    match cfg.kind.as_str() {
        "cli" => {
            ex.has_out = cfg.set_out_dir.is_some();
            for f in &cfg.files {
                if !single(&mut ex, f, &cfg.set_out_dir) {
                    break;
                }
            }
        }
        "api-file" => {
            ex.has_out = cfg.set_out_dir.is_some();
            if cfg.set_in_dir.is_some() {
                ex.err = Some("in-dir-conflict");
            } else {
                single(&mut ex, &cfg.files[0], &cfg.set_out_dir);
            }
        }
        "api-dir" | "api-process" | "cargo" | "in-source" => {
            let (root, out): (String, Option<String>) = match cfg.kind.as_str() {
                "api-dir" => (cfg.dir.clone().unwrap_or_default(), cfg.set_out_dir.clone().or(cfg.env_out.clone())),
                "api-process" => (cfg.set_in_dir.clone().unwrap_or_else(|| ".".into()), cfg.set_out_dir.clone().or(cfg.env_out.clone())),
                "cargo" => ("src".into(), cfg.env_out.clone()),
                _ => (".".into(), Some(".".into())),
            };
            if cfg.kind == "api-dir" && cfg.set_in_dir.is_some() && cfg.set_in_dir != cfg.dir {
                ex.err = Some("in-dir-conflict");
            } else if let Some(out) = out {
                ex.has_out = true;
                walk(&mut ex, &root, &out)?;
            } else {
                ex.err = Some("missing-OUT_DIR");
            }
        }
        other => return Err(format!("unknown config kind {other}")),
    }
    Ok(ex)
}

// ---------------------------------------------------------------------------
// evaluation
// ---------------------------------------------------------------------------

struct Env {
    ctx: Ctx,
    refs: RefBuilder,
}

fn materialise(case: &Case, dir: &Path) -> Result<(), String> {
    let _ = std::fs::remove_dir_all(dir);
    std::fs::create_dir_all(dir).map_err(|e| e.to_string())?;
    let case_abs = dir.to_string_lossy().into_owned();
    for e in &case.entries {
        let p = dir.join(&e.path);
        match &e.kind {
            Kind::Dir => std::fs::create_dir_all(&p).map_err(|e| e.to_string())?,
            Kind::File(t) => {
                if let Some(parent) = p.parent() {
                    std::fs::create_dir_all(parent).map_err(|e| e.to_string())?;
                }
                std::fs::write(&p, t).map_err(|e| e.to_string())?
            }
            Kind::Link(t) => {
                if let Some(parent) = p.parent() {
                    std::fs::create_dir_all(parent).map_err(|e| e.to_string())?;
                }
                std::os::unix::fs::symlink(t.replace("$CASE", &case_abs), &p).map_err(|e| format!("symlink {}: {e}", e.to_string()))?
            }
        }
    }
    Ok(())
}

fn subst(s: &str, case_abs: &str) -> String {
    s.replace("$CASE", case_abs)
}

fn concrete(cfg: &Cfg, case_abs: &str) -> Cfg {
    let o = |x: &Option<String>| x.as_ref().map(|s| subst(s, case_abs));
    Cfg {
        kind: cfg.kind.clone(),
        files: cfg.files.iter().map(|f| subst(f, case_abs)).collect(),
        dir: o(&cfg.dir),
        set_in_dir: o(&cfg.set_in_dir),
        set_out_dir: o(&cfg.set_out_dir),
        env_out: o(&cfg.env_out),
        rerun: cfg.rerun,
    }
}

fn run_cfg(env: &Env, cfg: &Cfg, cwd: &Path) -> Out {
    if cfg.kind == "cli" {
        let mut c = Cmd::new(&env.ctx.cli).cwd(cwd).timeout_s(120);
        if let Some(o) = &cfg.set_out_dir {
            c = c.arg("-o").arg(o);
        }
        for f in &cfg.files {
            c = c.arg(f);
        }
        return c.run();
    }
    let mut a = Api::new();
    if let Some(e) = &cfg.env_out {
        a = a.env("OUT_DIR", e);
    }
    match cfg.kind.as_str() {
        "cargo" => a = a.call("use_cargo_dir_conventions"),
        "in-source" => a = a.call("generate_in_source_tree"),
        _ => {}
    }
    if let Some(i) = &cfg.set_in_dir {
        a = a.call_s("set_in_dir", i);
    }
    if let Some(o) = &cfg.set_out_dir {
        a = a.call_s("set_out_dir", o);
    }
    if cfg.rerun {
        a = a.call_b("emit_rerun_directives", true);
    }
    a = match cfg.kind.as_str() {
        "api-file" => a.run1("process_file", &cfg.files[0]),
        "api-dir" => a.run1("process_dir", cfg.dir.as_deref().unwrap_or(".")),
        _ => a.run0("process"),
    };
    a.exec(&env.ctx, cwd)
}

/// Physical location (relative to the case directory) of a path that the
/// driver names relative to cwd, resolving symlinked parents.
fn physical(case_dir: &Path, cwd: &Path, p: &Path) -> Option<String> {
    let full = if p.is_absolute() { p.to_path_buf() } else { cwd.join(p) };
    let mut parent = full.parent()?.to_path_buf();
    if parent.as_os_str().is_empty() {
        parent = cwd.to_path_buf();
    }
    let canon = std::fs::canonicalize(&parent).ok()?;
    let case_canon = std::fs::canonicalize(case_dir).ok()?;
    let rel = canon.strip_prefix(&case_canon).ok()?;
    let mut out = rel.to_path_buf();
    out.push(full.file_name()?);
    Some(out.to_string_lossy().into_owned())
}

fn norm(p: &Path) -> PathBuf {
    // component-wise identity, dropping `.` components
    p.components().filter(|c| !matches!(c, Component::CurDir)).collect()
}

#[derive(Default)]
struct Verdict {
    fail: Option<(String, String, Value)>,
    infra: Option<String>,
    features: BTreeSet<&'static str>,
    expect_err: Option<&'static str>,
    processed: usize,
    collisions: bool,
    nontrivial: bool,
}

fn evaluate(env: &Env, case: &Case, dir: &Path) -> Verdict {
    let mut v = Verdict::default();
    if let Err(e) = materialise(case, dir) {
        v.infra = Some(format!("materialise: {e}"));
        return v;
    }
    let case_abs = dir.to_string_lossy().into_owned();
    let cwd = dir.join("proj");
    let cfg = concrete(&case.cfg, &case_abs);
    let ex = match model(&cfg, &cwd) {
        Ok(e) => e,
        Err(e) => {
            // e.g. the root of the walk does not exist: the statement is silent
            v.infra = Some(format!("model: {e}"));
            return v;
        }
    };
    // a generated tree may make one grammar's output path the source of another grammar
    // (`l.lalrpop -> g.rs` next to `g.lalrpop` with the output directory == the input
    // directory): the first build then overwrites the second grammar's text. The statement
    // says nothing about outputs that alias inputs: excluded and counted.
    {
        let resolve = |p: &Path| -> Option<PathBuf> {
            let abs = if p.is_absolute() { p.to_path_buf() } else { cwd.join(p) };
            match std::fs::canonicalize(&abs) {
                Ok(c) => Some(c),
                Err(_) => {
                    let parent = std::fs::canonicalize(abs.parent()?).ok()?;
                    Some(parent.join(abs.file_name()?))
                }
            }
        };
        let sources: BTreeSet<PathBuf> = ex.processed.iter().filter_map(|(i, _)| resolve(i)).collect();
        if ex.processed.iter().filter_map(|(_, o)| resolve(o)).any(|o| sources.contains(&o)) {
            v.infra = Some("model: alias: an output path is the source of a discovered grammar".into());
            return v;
        }
    }
    v.features = ex.features.clone();
    v.expect_err = ex.err;
    v.processed = ex.processed.len();
    v.nontrivial = ex.has_out
        && !ex.processed.is_empty()
        && (ex.features.contains("nested-or-repeated-src") || ex.features.contains("symlink") || ex.features.contains("dotted-name"));
    let text_of = |input: &Path| -> Option<String> { std::fs::read_to_string(if input.is_absolute() { input.to_path_buf() } else { cwd.join(input) }).ok() };
    // the two code paths that resolve output paths: a directory walk or a single file
    let kind = if case.cfg.kind == "cli" || case.cfg.kind == "api-file" { "single-file" } else { "directory-walk" }.to_string();

    let before = snapshot(dir);
    for round in 0..2 {
        let snap0 = snapshot(dir);
        let out = run_cfg(env, &cfg, &cwd);
        let snap1 = snapshot(dir);
        let observed = |extra: Value| {
            json!({
                "run": round + 1,
                "exit": format!("{:?}", out.exit),
                "stdout": out.stdout.chars().take(1200).collect::<String>(),
                "stderr": out.stderr.chars().take(800).collect::<String>(),
                "model": {
                    "must_fail": ex.err,
                    "processed": ex.processed.iter().map(|(i, o)| format!("{} -> {}", i.display(), o.display())).collect::<Vec<_>>(),
                    "rejected": ex.rejected.as_ref().map(|p| p.display().to_string()),
                },
                "detail": extra,
            })
        };
        if out.panicked() || matches!(out.exit, Exit::Signal(_)) {
            let sig = out.panic_signature().unwrap_or_else(|| format!("{:?}", out.exit));
            v.fail = Some((format!("C23/panic/{sig}"), format!("{} panicked: {}", case.cfg.short(), out.stderr.lines().take(3).collect::<Vec<_>>().join(" | ")), observed(json!(null))));
            return v;
        }
        if matches!(out.exit, Exit::Timeout | Exit::SpawnError(_)) {
            v.infra = Some(format!("run did not complete: {:?}", out.exit));
            return v;
        }
        let failed = out.exit == Exit::Code(1) || out.exit == Exit::Code(API_ERR_EXIT);
        let succeeded = out.exit == Exit::Code(0);
        match ex.err {
            Some(reason) if !failed => {
                v.fail = Some((
                    format!("C23/error-not-reported/{reason}"),
                    format!("{}: the model demands an error ({reason}{}), the run exited with {:?}", case.cfg.short(), ex.rejected.as_ref().map(|p| format!(": {}", p.display())).unwrap_or_default(), out.exit),
                    observed(json!(null)),
                ));
                return v;
            }
            None if !succeeded => {
                v.fail = Some((
                    format!("C23/unexpected-error/{kind}"),
                    format!("{}: every discovered grammar is valid and well named, but the run exited with {:?}: {}", case.cfg.short(), out.exit, out.stderr.lines().last().unwrap_or("")),
                    observed(json!(null)),
                ));
                return v;
            }
            _ => {}
        }
        // ---- files ----
        // image -> acceptable contents (any colliding source may have won)
        let mut images: BTreeMap<String, Vec<Vec<u8>>> = BTreeMap::new();
        let mut image_names: BTreeMap<String, Vec<String>> = BTreeMap::new();
        for (input, o) in &ex.processed {
            let Some(text) = text_of(input) else {
                v.infra = Some(format!("model: cannot read {}", input.display()));
                return v;
            };
            let Some(want) = env.refs.f(&text) else {
                v.infra = Some("reference build of a pool text failed".into());
                return v;
            };
            let key = match physical(dir, &cwd, o) {
                Some(k) => k,
                None => {
                    v.fail = Some((
                        format!("C23/missing-output/{kind}"),
                        format!("{}: {} should be written to {}, but not even its directory exists", case.cfg.short(), input.display(), o.display()),
                        observed(json!(null)),
                    ));
                    return v;
                }
            };
            images.entry(key.clone()).or_default().push(want);
            image_names.entry(key).or_default().push(input.display().to_string());
        }
        v.collisions = image_names.values().any(|s| s.len() > 1);
        let changed: Vec<String> = {
            let base = if round == 0 { &before } else { &snap0 };
            let mut c = vec![];
            for (k, a) in &snap1 {
                if a.kind == 'd' {
                    continue;
                }
                match base.get(k) {
                    Some(b) if b == a => {}
                    Some(b) if round == 0 && b.kind == a.kind && b.hash == a.hash && b.len == a.len => {}
                    _ => c.push(k.clone()),
                }
            }
            for (k, b) in base {
                if b.kind != 'd' && !snap1.contains_key(k) {
                    c.push(k.clone());
                }
            }
            c
        };
        if round == 0 {
            let unexpected: Vec<&String> = changed.iter().filter(|k| !images.contains_key(*k)).collect();
            for (key, wants) in &images {
                let got = std::fs::read(dir.join(key)).ok();
                if !wants.iter().any(|w| got.as_deref() == Some(&w[..])) {
                    let class = if got.is_none() { "missing-output" } else { "wrong-content" };
                    v.fail = Some((
                        format!("C23/{class}/{kind}"),
                        format!(
                            "{}: {} must be written to {key} (physical path below the case directory){}; files created or changed instead: {:?}",
                            case.cfg.short(),
                            image_names[key].join(" / "),
                            if got.is_none() { ", which does not exist afterwards".to_string() } else { ", whose content is not the forced build of that grammar".to_string() },
                            unexpected
                        ),
                        observed(json!({"changed": changed})),
                    ));
                    return v;
                }
            }
            if let Some(u) = unexpected.first() {
                v.fail = Some((
                    format!("C23/unexpected-file/{kind}"),
                    format!("{}: {u} was created or changed although it is not the output of any processed grammar (expected outputs: {:?})", case.cfg.short(), images.keys().collect::<Vec<_>>()),
                    observed(json!({"changed": changed})),
                ));
                return v;
            }
        } else if !v.collisions && !changed.is_empty() {
            v.fail = Some((
                format!("C23/second-run-changes-files/{kind}"),
                format!("{}: an identical second run changed {:?} although every output was current", case.cfg.short(), changed),
                observed(json!({"changed": changed})),
            ));
            return v;
        }
        // ---- directives ----
        let got: Vec<PathBuf> = out.stdout.lines().filter_map(|l| l.strip_prefix("cargo:rerun-if-changed=")).map(|p| norm(Path::new(p))).collect();
        let mut want: Vec<PathBuf> = if cfg.rerun { ex.processed.iter().map(|(i, _)| norm(i)).collect() } else { vec![] };
        let mut got_sorted = got.clone();
        if let Some(r) = &ex.rejected {
            // a directive for the rejected file is neither demanded nor forbidden
            let r = norm(r);
            if cfg.rerun {
                if let Some(i) = got_sorted.iter().position(|g| *g == r) {
                    got_sorted.remove(i);
                }
            }
        }
        got_sorted.sort();
        want.sort();
        if got_sorted != want {
            v.fail = Some((
                format!("C23/rerun-directives/{}", if cfg.rerun { if round == 0 { "first-run" } else { "second-run-outputs-current" } } else { "disabled-but-printed" }),
                format!(
                    "{} (run {}): directives name {:?}, the processed files are {:?}",
                    case.cfg.short(),
                    round + 1,
                    got_sorted.iter().map(|p| p.display().to_string()).collect::<Vec<_>>(),
                    want.iter().map(|p| p.display().to_string()).collect::<Vec<_>>()
                ),
                observed(json!(null)),
            ));
            return v;
        }
    }
    v
}

fn replay_json(case: &Case, tape: &[u8], fail: &(String, String, Value)) -> Value {
    let mut v = case.to_json();
    v["tape_hex"] = json!(tape::hex(tape));
    v["tree_listing"] = json!(case.tree_lines());
    v["call"] = json!(case.cfg.short());
    v["expected"] = json!("outputs exactly at the documented paths with the content of a forced build; errors for whitespace names / in_dir conflicts / missing OUT_DIR; directives == processed files; second run changes nothing");
    v["observed"] = fail.2.clone();
    v
}

fn replay_case(env: &Env, ck: &mut Checker, v: &Value) {
    let case = Case::from_json(v);
    let dir = env.ctx.work.join("replay_run");
    let r = evaluate(env, &case, &dir);
    ck.eval();
    if let Some(e) = r.infra {
        if e.starts_with("model: root") || e.starts_with("model: alias") {
            ck.skip("stored case lies outside the statement (missing walk root, or an output path that is a grammar source)");
            return;
        }
        ck.infra(e);
    }
    if let Some(f) = r.fail {
        let rj = replay_json(&case, &tape::unhex(v["tape_hex"].as_str().unwrap_or("")), &f);
        ck.violation(&f.0, &f.1, rj);
    }
}

pub fn run(ctx: Ctx, replay: Option<PathBuf>) -> i32 {
    let mut ck = Checker::new(
        ctx.clone(),
        "exploration",
        "case = directory tree (<= 9 files, depth <= 4, plus symlinks and an outside directory) + driver configuration, decoded from a proptest byte tape, run twice; \
         non-trivial = an output directory is in effect (set_out_dir / -o / OUT_DIR / cargo conventions / generate_in_source_tree) and at least one processed grammar \
         sits below a nested or repeated `src` component, is reached through a symlink, or has a dotted stem; distinct = distinct (tree, configuration)",
    );
    ck.assume("path model written from the property statement: own directory walker (follows symlinks, skips dangling ones, byte-wise name order) + documented output-path rule");
    ck.assume("where a directory walk is aborted by a rejected (whitespace) name, exactly the grammars that sort before it are processed");
    ck.assume("only UTF-8 names; the root of a walk always exists; no symlink loops (statement silent otherwise)");
    let env = Env { ctx: ctx.clone(), refs: RefBuilder::new(&ctx, "ref") };
    let texts = valid_texts();
    let built = par_map(&texts, ctx.threads, |_, t| env.refs.build(t, false));
    if built.iter().any(|r| !r.ok || r.rs.is_none()) {
        ck.infra("a pool grammar does not build");
        return ck.finish();
    }
    if let Some(p) = replay {
        ck.strict = true;
        match super::load_replay(&p) {
            Ok(v) => replay_case(&env, &mut ck, &v),
            Err(c) => return c,
        }
        return ck.finish();
    }
    ck.replay_listed(|ck, v| replay_case(&env, ck, v));

    let cases = ctx.tier.pick(900usize, 20_000usize);
    let tapes = tape::sample_tapes(ctx.seed, cases, 0, 140);
    let results = par_map(&tapes, ctx.threads, |i, t| {
        let case = gen_case(&mut Tape::new(t), &texts);
        let dir = env.ctx.work.join(format!("cases/t{i}"));
        let v = evaluate(&env, &case, &dir);
        if v.fail.is_none() {
            let _ = std::fs::remove_dir_all(&dir);
        }
        (case, v)
    });
    let mut first_fail: BTreeMap<String, usize> = BTreeMap::new();
    let mut processed_total = 0u64;
    for (i, (case, v)) in results.iter().enumerate() {
        ck.eval();
        ck.class(&format!("config:{}", case.cfg.kind));
        if case.cfg.rerun {
            ck.class("emit_rerun_directives");
        }
        for f in &v.features {
            ck.class(&format!("tree:{f}"));
        }
        match v.expect_err {
            Some(r) => ck.class(&format!("expect-error:{r}")),
            None => ck.class("expect-ok"),
        }
        if v.collisions {
            ck.class("colliding-outputs");
        }
        processed_total += v.processed as u64;
        if let Some(e) = &v.infra {
            if e.starts_with("model: root") {
                ck.skip("root of the walk does not exist (statement silent)");
            } else if e.starts_with("model: alias") {
                ck.skip("an output path is (through a symlink) the source of a discovered grammar (statement silent)");
            } else {
                ck.infra(format!("case {i}: {e}"));
            }
            continue;
        }
        if v.nontrivial {
            ck.nontrivial(case);
            if ck.want_sample() && i % 9 == 0 {
                ck.sample(json!({
                    "tree": case.tree_lines(),
                    "cwd": "proj",
                    "call": case.cfg.short(),
                    "features": v.features,
                    "outcome": if v.fail.is_some() { "violation" } else { "matches the path model" },
                }));
            }
        }
        if let Some(f) = &v.fail {
            first_fail.entry(f.0.clone()).or_insert(i);
        }
    }
    ck.extra.insert("grammars_processed_per_model".into(), json!(processed_total));

    for (nth, (sig, i)) in first_fail.into_iter().enumerate() {
        let mut tape_min = tapes[i].clone();
        if !ck.is_known(&sig) && nth < 4 {
            let mut k = 0usize;
            tape_min = tape::shrink_tape(&tapes[i], ctx.tier.pick(100, 400), |cand| {
                k += 1;
                let case = gen_case(&mut Tape::new(cand), &texts);
                let dir = env.ctx.work.join(format!("shrink/s{i}_{k}"));
                let v = evaluate(&env, &case, &dir);
                let _ = std::fs::remove_dir_all(&dir);
                v.fail.map(|f| f.0 == sig).unwrap_or(false)
            });
        }
        let case = gen_case(&mut Tape::new(&tape_min), &texts);
        let dir = env.ctx.work.join(format!("minimal/m{i}"));
        let v = evaluate(&env, &case, &dir);
        match v.fail {
            Some(f) if f.0 == sig => {
                ck.violation(&f.0, &f.1, replay_json(&case, &tape_min, &f));
            }
            _ => {
                let (case, v) = &results[i];
                let f = v.fail.as_ref().unwrap();
                ck.violation(&f.0, &f.1, replay_json(case, &tapes[i], f));
            }
        }
    }
    ck.finish()
}
