//! C24 - formatting options (`--comments`, `--no-whitespace`, `--report`)
//! change only comments and whitespace of the generated file.
//!
//! Domain: every repository grammar LALRPOP accepts + template grammars
//! (`grammar_text::gen_valid`) x all 8 option combinations.
//! Oracle: the Rust token stream (proc_macro2's lexer: comments and whitespace
//! vanish, groups recursed into, puncts one by one) of each output equals the
//! default output's, token for token.

use crate::core::{hash_of, par_map, Checker, Ctx};
use crate::grammar_text as gt;
use crate::run::Exit;
use crate::tape::{self, Tape};
use serde_json::{json, Value};
use std::path::{Path, PathBuf};

const FLAGS: [&str; 3] = ["--comments", "--no-whitespace", "--report"];

fn combo_flags(k: usize) -> Vec<String> {
    (0..3).filter(|b| k & (1 << b) != 0).map(|b| FLAGS[b].to_string()).collect()
}

fn combo_name(k: usize) -> String {
    if k == 0 {
        "default".into()
    } else {
        combo_flags(k).iter().map(|f| f.trim_start_matches("--").to_string()).collect::<Vec<_>>().join("+")
    }
}

#[derive(Clone, Debug)]
struct Item {
    name: String,
    text: String,
    feature_args: Vec<String>,
    tape: Vec<u8>,
}

enum Run {
    /// exit status 1 with a diagnostic
    Rejected,
    /// something other than exit 0 / 1 (panic, signal, timeout)
    Abnormal(String),
    Tokens(Vec<String>),
    Unlexable(String),
}

fn run_one(ctx: &Ctx, dir: &Path, item: &Item, k: usize) -> Run {
    let out_dir = dir.join(format!("o{k}"));
    let _ = std::fs::create_dir_all(&out_dir);
    let file = dir.join("g.lalrpop");
    let mut args: Vec<String> = vec!["--force".into(), "-o".into(), out_dir.to_string_lossy().into_owned()];
    args.extend(combo_flags(k));
    args.extend(item.feature_args.iter().cloned());
    args.push(file.to_string_lossy().into_owned());
    let out = gt::cli_cmd(&ctx.cli, &args, 300).run();
    match out.exit {
        Exit::Code(0) => {}
        Exit::Code(1) if !out.panicked() => return Run::Rejected,
        ref e => return Run::Abnormal(format!("{e:?}: {}", out.stderr.chars().take(200).collect::<String>())),
    }
    let Ok(rs) = std::fs::read_to_string(out_dir.join("g.rs")) else {
        return Run::Abnormal("exit 0 without output file".into());
    };
    match gt::rust_tokens(&rs) {
        Ok(t) => Run::Tokens(t),
        Err(e) => Run::Unlexable(e),
    }
}

struct Outcome {
    skipped: Option<String>,
    default_tokens: usize,
    /// (combo, signature, what, observed json)
    failures: Vec<(usize, String, String, Value)>,
    compared: usize,
}

fn first_diff(a: &[String], b: &[String]) -> usize {
    a.iter().zip(b.iter()).position(|(x, y)| x != y).unwrap_or(a.len().min(b.len()))
}

fn context(t: &[String], i: usize) -> String {
    let lo = i.saturating_sub(6);
    let hi = (i + 6).min(t.len());
    t[lo..hi].join(" ")
}

fn evaluate(ctx: &Ctx, dir: &Path, item: &Item, combos: &[usize]) -> Outcome {
    let _ = std::fs::remove_dir_all(dir);
    let _ = std::fs::create_dir_all(dir);
    let mut oc = Outcome { skipped: None, default_tokens: 0, failures: vec![], compared: 0 };
    if std::fs::write(dir.join("g.lalrpop"), &item.text).is_err() {
        oc.skipped = Some("infra: cannot write grammar".into());
        return oc;
    }
    let base = match run_one(ctx, dir, item, 0) {
        Run::Tokens(t) => t,
        Run::Rejected => {
            oc.skipped = Some("grammar rejected by lalrpop".into());
            let _ = std::fs::remove_dir_all(dir);
            return oc;
        }
        Run::Abnormal(e) => {
            oc.skipped = Some(format!("default run abnormal (C18's business): {}", e.chars().take(60).collect::<String>()));
            let _ = std::fs::remove_dir_all(dir);
            return oc;
        }
        Run::Unlexable(e) => {
            oc.failures.push((0, "C24/unlexable/default".into(), format!("default output is not lexable Rust: {e}"), json!({"error": e})));
            return oc;
        }
    };
    oc.default_tokens = base.len();
    for &k in combos {
        if k == 0 {
            continue;
        }
        oc.compared += 1;
        let name = combo_name(k);
        match run_one(ctx, dir, item, k) {
            Run::Tokens(t) => {
                if t != base {
                    let i = first_diff(&base, &t);
                    oc.failures.push((
                        k,
                        format!("C24/token-stream-differs/{name}"),
                        format!(
                            "with {name} the token stream differs from the default output at token {i} ({} vs {} tokens): default `.. {} ..` / with options `.. {} ..`",
                            base.len(),
                            t.len(),
                            context(&base, i),
                            context(&t, i)
                        ),
                        json!({"first_difference": i, "default_context": context(&base, i), "option_context": context(&t, i), "default_len": base.len(), "option_len": t.len()}),
                    ));
                }
            }
            Run::Rejected => oc.failures.push((k, format!("C24/outcome-differs/{name}"), format!("accepted by default but rejected with {name}"), json!({}))),
            Run::Abnormal(e) => oc.failures.push((k, format!("C24/outcome-differs/{name}"), format!("accepted by default but with {name}: {e}"), json!({"error": e}))),
            Run::Unlexable(e) => oc.failures.push((k, format!("C24/unlexable/{name}"), format!("with {name} the output is not lexable Rust: {e}"), json!({"error": e}))),
        }
    }
    let _ = std::fs::remove_dir_all(dir);
    oc
}

fn replay_json(item: &Item, k: usize, observed: &Value) -> Value {
    json!({
        "tape_hex": tape::hex(&item.tape),
        "grammars": [{"name": item.name, "text": item.text, "flags": item.feature_args}],
        "options": combo_flags(k),
        "combo": k,
        "expected": "token stream of the output equals the token stream of the default output",
        "observed": observed,
    })
}

fn replay_case(ck: &mut Checker, v: &Value) {
    let g = &v["grammars"][0];
    let item = Item {
        name: g["name"].as_str().unwrap_or("replay").to_string(),
        text: g["text"].as_str().unwrap_or("").to_string(),
        feature_args: g["flags"].as_array().map(|a| a.iter().filter_map(|x| x.as_str().map(|s| s.to_string())).collect()).unwrap_or_default(),
        tape: tape::unhex(v["tape_hex"].as_str().unwrap_or("")),
    };
    let k = v["combo"].as_u64().unwrap_or(7) as usize;
    let ctx = ck.ctx.clone();
    let oc = evaluate(&ctx, &ctx.work.join("replay_run"), &item, &[k]);
    ck.eval();
    for (k, sig, what, obs) in oc.failures {
        ck.violation(&sig, &what, replay_json(&item, k, &obs));
    }
}

pub fn run(ctx: Ctx, replay: Option<PathBuf>) -> i32 {
    let mut ck = Checker::new(
        ctx.clone(),
        "exploration",
        "grammars (every repository .lalrpop file that LALRPOP accepts + template grammars decoded from proptest tapes: precedence, macros, inline, spans, recovery, \
         generic types, repetitions, cfg, extern / match lexers, LALR / recursive-ascent attributes) x the 7 non-default combinations of --comments / --no-whitespace / --report; \
         non-trivial = default output has > 500 Rust tokens and the option combination is not the default; distinct = distinct (grammar text, combination)",
    );
    ck.assume("proc_macro2's lexer is the reference for 'comments and whitespace only'; the generated code is not compiled here");
    if let Some(p) = replay {
        ck.strict = true;
        match super::load_replay(&p) {
            Ok(v) => replay_case(&mut ck, &v),
            Err(c) => return c,
        }
        return ck.finish();
    }
    ck.replay_listed(replay_case);

    let mut items: Vec<Item> = vec![];
    let max_corpus = ctx.tier.pick(6_000usize, usize::MAX);
    for f in gt::corpus(&ctx.root) {
        if f.text.len() > max_corpus {
            ck.skip("large corpus file left to the thorough tier");
            continue;
        }
        items.push(Item { name: f.rel.clone(), text: f.text, feature_args: vec![], tape: vec![] });
    }
    let n_corpus = items.len();
    if n_corpus < 20 {
        ck.infra(format!("corpus has only {n_corpus} .lalrpop files under repo_link"));
        return ck.finish();
    }
    let n_gen = ctx.tier.pick(160usize, 4000usize);
    for (i, tp) in tape::sample_tapes(ctx.seed, n_gen, 0, 160).into_iter().enumerate() {
        let g = gt::gen_valid(&mut Tape::new(&tp));
        items.push(Item { name: format!("template{i}"), text: g.print(), feature_args: gt::feature_args(&g), tape: tp });
    }
    let all: Vec<usize> = (0..8).collect();
    let outcomes = par_map(&items, ctx.threads, |i, it| evaluate(&ctx, &ctx.work.join(format!("g{i}")), it, &all));
    let mut rejected_templates = 0;
    let mut reported = std::collections::BTreeSet::new();
    for (i, (it, oc)) in items.iter().zip(outcomes).enumerate() {
        let kind = if i < n_corpus { "corpus" } else { "template" };
        if let Some(why) = &oc.skipped {
            if why.starts_with("infra") {
                ck.infra(why.clone());
            }
            ck.skip(&format!("{kind}: {why}"));
            if kind == "template" {
                rejected_templates += 1;
            }
            continue;
        }
        ck.evals(oc.compared as u64);
        ck.class_n(&format!("{kind}:compared"), oc.compared as u64);
        ck.class(&format!("{kind}:tokens{}", match oc.default_tokens {
            0..=500 => "<=500",
            501..=5000 => "<=5000",
            5001..=50000 => "<=50000",
            _ => ">50000",
        }));
        if oc.default_tokens > 500 {
            let h = hash_of(&it.text);
            for k in 1..8usize {
                ck.nontrivial(&(h, k));
            }
        }
        if ck.want_sample() && i % 37 == 0 {
            ck.sample(json!({"grammar": it.name, "text": it.text.chars().take(1500).collect::<String>(), "default_tokens": oc.default_tokens, "combinations_compared": oc.compared, "outcome": if oc.failures.is_empty() { "equal" } else { "DIFFERENT" }}));
        }
        for (k, sig, what, obs) in oc.failures {
            if ck.is_known(&sig) || !reported.insert(sig.clone()) {
                ck.violation(&sig, &what, json!({}));
                continue;
            }
            // minimise (text-level ddmin, same signature with the same option combination)
            let small = gt::shrink_text(&it.text, 300, ctx.threads, |slot, cand| {
                let c = Item { text: cand.to_string(), ..it.clone() };
                let o = evaluate(&ctx, &ctx.work.join(format!("shrink{slot}")), &c, &[k]);
                o.failures.iter().any(|f| f.1 == sig)
            });
            let mut min_item = it.clone();
            let c = Item { text: small.clone(), ..it.clone() };
            let o = evaluate(&ctx, &ctx.work.join("shrink0"), &c, &[k]);
            let mut obs = obs;
            if let Some(f) = o.failures.into_iter().find(|f| f.1 == sig) {
                min_item = c;
                obs = f.3;
            }
            ck.violation(&sig, &what, replay_json(&min_item, k, &obs));
        }
    }
    if rejected_templates * 20 > n_gen {
        ck.infra(format!("{rejected_templates} of {n_gen} template grammars were rejected by lalrpop (generator problem)"));
    }
    ck.finish()
}
