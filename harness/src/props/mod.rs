//! One module per property. Each exposes
//! `pub fn run(ctx: Ctx, replay: Option<PathBuf>) -> i32` (the exit code).

use crate::core::Ctx;
use std::path::PathBuf;

pub mod c01;
pub mod c02;
pub mod c03;
pub mod c04;
pub mod c05;
pub mod c06;
pub mod c07;
pub mod c08;
pub mod c12;
pub mod c13;
pub mod c14;
pub mod c15;
pub mod c16;
pub mod c17;
pub mod c19;
pub mod c21;
pub mod c22;
pub mod c23;
pub mod c25;
pub mod c27;
pub mod c18;
pub mod c20;
pub mod c24;
pub mod c26;
pub mod c08l;
pub mod c09;
pub mod c10;
pub mod c11;
pub mod c28;
pub mod driver_common;
pub mod suite;

pub type RunFn = fn(Ctx, Option<PathBuf>) -> i32;

pub const REGISTRY: &[(&str, RunFn)] = &[
    ("C01", c01::run),
    ("C02", c02::run),
    ("C03", c03::run),
    ("C04", c04::run),
    ("C05", c05::run),
    ("C06", c06::run),
    ("C07", c07::run),
    ("C08", c08::run),
    ("C08L", c08l::run),
    ("C09", c09::run),
    ("C10", c10::run),
    ("C11", c11::run),
    ("C12", c12::run),
    ("C13", c13::run),
    ("C14", c14::run),
    ("C15", c15::run),
    ("C16", c16::run),
    ("C17", c17::run),
    ("C18", c18::run),
    ("C19", c19::run),
    ("C20", c20::run),
    ("C21", c21::run),
    ("C22", c22::run),
    ("C23", c23::run),
    ("C24", c24::run),
    ("C25", c25::run),
    ("C26", c26::run),
    ("C27", c27::run),
    ("C28", c28::run),
];

/// Hidden subcommands (`lv __xyz ...`) used by checks that need a fresh
/// process linking the lalrpop library.
pub fn hidden_subcommand(name: &str, args: &[String]) -> Option<i32> {
    match name {
        "__api" => Some(driver_common::api_main(args)),
        // lv __gtdump <seed> <n> <dir>: write n template grammars (debugging aid for grammar_text)
        "__gtdump" => Some(crate::grammar_text::dump_main(args)),
        // lv __procdir <dir> <outdir> [--comments] [--report]: Configuration::process_dir in a fresh process (C20)
        "__procdir" => Some(c20::procdir_main(args)),
        "__lexrun" => Some(c08l::hidden_lexrun(args)),
        _ => None,
    }
}

/// Shared boilerplate: load a replay file or fail with exit 2.
pub fn load_replay(path: &std::path::Path) -> Result<serde_json::Value, i32> {
    match std::fs::read_to_string(path).ok().and_then(|t| serde_json::from_str(&t).ok()) {
        Some(v) => Ok(v),
        None => {
            eprintln!("INFRA: cannot read replay file {}", path.display());
            Err(2)
        }
    }
}
