//! One module per property. Each exposes
//! `pub fn run(ctx: Ctx, replay: Option<PathBuf>) -> i32` (the exit code).

use crate::core::Ctx;
use std::path::PathBuf;

pub mod c18;
pub mod c20;
pub mod c24;
pub mod c26;
pub mod c28;

pub type RunFn = fn(Ctx, Option<PathBuf>) -> i32;

pub const REGISTRY: &[(&str, RunFn)] = &[("C18", c18::run), ("C20", c20::run), ("C24", c24::run), ("C26", c26::run), ("C28", c28::run)];

/// Hidden subcommands (`lv __xyz ...`) used by checks that need a fresh
/// process linking the lalrpop library.
pub fn hidden_subcommand(name: &str, args: &[String]) -> Option<i32> {
    match name {
        // lv __gtdump <seed> <n> <dir>: write n template grammars (debugging aid for grammar_text)
        "__gtdump" => Some(crate::grammar_text::dump_main(args)),
        // lv __procdir <dir> <outdir> [--comments] [--report]: Configuration::process_dir in a fresh process (C20)
        "__procdir" => Some(c20::procdir_main(args)),
        _ => None,
    }
}

/// Shared boilerplate: load a replay file or fail with exit 2.
pub fn load_replay(path: &std::path::Path) -> Result<serde_json::Value, i32> {
    match std::fs::read_to_string(path).ok().and_then(|t| serde_json::from_str(&t).ok()) {
        Some(v) => Ok(v),
        None => {
            eprintln!("INFRA: cannot read replay file {}", path.display());
            Err(2)
        }
    }
}
