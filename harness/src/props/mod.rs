//! One module per property. Each exposes
//! `pub fn run(ctx: Ctx, replay: Option<PathBuf>) -> i32` (the exit code).

use crate::core::Ctx;
use std::path::PathBuf;

pub mod c08l;
pub mod c09;
pub mod c10;
pub mod c11;
pub mod c28;

pub type RunFn = fn(Ctx, Option<PathBuf>) -> i32;

pub const REGISTRY: &[(&str, RunFn)] = &[("C08L", c08l::run), ("C09", c09::run), ("C10", c10::run), ("C11", c11::run), ("C28", c28::run)];

/// Hidden subcommands (`lv __xyz ...`) used by checks that need a fresh
/// process linking the lalrpop library.
pub fn hidden_subcommand(name: &str, args: &[String]) -> Option<i32> {
    match name {
        "__lexrun" => Some(c08l::hidden_lexrun(args)),
        _ => None,
    }
}

/// Shared boilerplate: load a replay file or fail with exit 2.
pub fn load_replay(path: &std::path::Path) -> Result<serde_json::Value, i32> {
    match std::fs::read_to_string(path).ok().and_then(|t| serde_json::from_str(&t).ok()) {
        Some(v) => Ok(v),
        None => {
            eprintln!("INFRA: cannot read replay file {}", path.display());
            Err(2)
        }
    }
}
