//! C20 - code generation is deterministic.
//!
//! Every accepted grammar text is processed by 8 (quick) / 16 (thorough)
//! independent processes (fresh `RandomState` keys each): alone through the
//! CLI, through the CLI together with other inputs in a random order, and
//! through `Configuration::process_dir` (`lv __procdir`) inside random
//! directory compositions under random file names; half of the processes with
//! `--comments`, half with `--report`.
//! Oracle: byte equality of every `.rs` among the runs with the same
//! `--comments` setting, and of every `.report` among the runs that asked for
//! one (the header hash depends on the text only, the body on text + options).

use crate::core::{hash_of, par_map, Checker, Ctx};
use crate::grammar_text::{self as gt, TK};
use crate::run::{Cmd, Exit};
use crate::tape::{self, Tape};
use serde_json::{json, Value};
use std::collections::BTreeMap;
use std::path::{Path, PathBuf};

const FEATURES: &str = "fa";

/// `lv __procdir <dir> <outdir> [--comments] [--report]`
pub fn procdir_main(args: &[String]) -> i32 {
    if args.len() < 2 {
        eprintln!("usage: lv __procdir <dir> <outdir> [--comments] [--report]");
        return 2;
    }
    let mut cfg = lalrpop::Configuration::new();
    cfg.set_out_dir(&args[1]).force_build(true).log_quiet().set_features([FEATURES.to_string()]);
    if args.iter().any(|a| a == "--comments") {
        cfg.emit_comments(true);
    }
    if args.iter().any(|a| a == "--report") {
        cfg.emit_report(true);
    }
    match cfg.process_dir(&args[0]) {
        Ok(()) => 0,
        Err(e) => {
            eprintln!("process_dir failed: {e}");
            1
        }
    }
}

#[derive(Clone, Debug)]
struct Item {
    name: String,
    text: String,
    nontrivial: bool,
    tape: Vec<u8>,
}

#[derive(Clone, Copy, Debug, PartialEq, Eq)]
enum Mode {
    Alone,
    CliMulti,
    ProcDir,
}

impl Mode {
    fn name(self) -> &'static str {
        match self {
            Mode::Alone => "alone",
            Mode::CliMulti => "cli-multi",
            Mode::ProcDir => "process_dir",
        }
    }
}

/// One process: the listed items under the given relative paths, in this order.
#[derive(Clone, Debug)]
struct Batch {
    mode: Mode,
    comments: bool,
    report: bool,
    /// (item index, relative path of the .lalrpop file inside the input dir)
    members: Vec<(usize, String)>,
}

const DIRS: &[&str] = &["", "src", "a", "src/b", "zz/y", "b/src", "a/a", "0"];
const STEMS: &[&str] = &["g", "parser", "a", "zz", "Grammar", "x1", "lib", "main_grammar", "b", "q"];

fn find_file(dir: &Path, name: &str) -> Option<PathBuf> {
    let rd = std::fs::read_dir(dir).ok()?;
    let mut entries: Vec<PathBuf> = rd.filter_map(|e| e.ok().map(|e| e.path())).collect();
    entries.sort();
    for p in entries {
        if p.is_dir() {
            if let Some(f) = find_file(&p, name) {
                return Some(f);
            }
        } else if p.file_name().and_then(|s| s.to_str()) == Some(name) {
            return Some(p);
        }
    }
    None
}

struct BatchResult {
    /// per member: (rs bytes, report bytes)
    outputs: Vec<(Option<Vec<u8>>, Option<Vec<u8>>)>,
    error: Option<String>,
}

fn run_batch(ctx: &Ctx, dir: &Path, items: &[Item], b: &Batch) -> BatchResult {
    let _ = std::fs::remove_dir_all(dir);
    let in_dir = dir.join("in");
    let out_dir = dir.join("out");
    let _ = std::fs::create_dir_all(&out_dir);
    for (i, rel) in &b.members {
        let p = in_dir.join(rel);
        if let Some(parent) = p.parent() {
            let _ = std::fs::create_dir_all(parent);
        }
        let _ = std::fs::write(&p, &items[*i].text);
    }
    let mut flags: Vec<String> = vec![];
    if b.comments {
        flags.push("--comments".into());
    }
    if b.report {
        flags.push("--report".into());
    }
    let out = match b.mode {
        Mode::Alone | Mode::CliMulti => {
            let mut args: Vec<String> = vec!["--force".into(), "-l".into(), "quiet".into(), "-o".into(), out_dir.to_string_lossy().into_owned(), "--features".into(), FEATURES.into()];
            args.extend(flags.iter().cloned());
            for (_, rel) in &b.members {
                args.push(in_dir.join(rel).to_string_lossy().into_owned());
            }
            gt::cli_cmd(&ctx.cli, &args, 600).run()
        }
        Mode::ProcDir => Cmd::new(&ctx.exe)
            .arg("__procdir")
            .arg(in_dir.as_os_str().to_os_string())
            .arg(out_dir.as_os_str().to_os_string())
            .args(flags.iter().cloned())
            .timeout_s(600)
            .run(),
    };
    let mut res = BatchResult { outputs: vec![], error: None };
    if out.exit != Exit::Code(0) {
        res.error = Some(format!("{:?}: {} {}", out.exit, out.stdout.chars().take(300).collect::<String>(), out.stderr.chars().take(300).collect::<String>()));
    }
    for (_, rel) in &b.members {
        let stem = Path::new(rel).file_stem().and_then(|s| s.to_str()).unwrap_or("g").to_string();
        let rs = find_file(&out_dir, &format!("{stem}.rs")).and_then(|p| std::fs::read(p).ok());
        let rep = find_file(&out_dir, &format!("{stem}.report")).and_then(|p| std::fs::read(p).ok());
        res.outputs.push((rs, rep));
    }
    let _ = std::fs::remove_dir_all(dir);
    res
}

fn describe(b: &Batch, items: &[Item]) -> Value {
    json!({
        "mode": b.mode.name(),
        "comments": b.comments,
        "report": b.report,
        "members": b.members.iter().map(|(i, rel)| json!({"path": rel, "grammar": items[*i].name})).collect::<Vec<_>>(),
    })
}

fn first_diff_line(a: &[u8], b: &[u8]) -> String {
    let (sa, sb) = (String::from_utf8_lossy(a), String::from_utf8_lossy(b));
    for (n, (x, y)) in sa.lines().zip(sb.lines()).enumerate() {
        if x != y {
            return format!("line {}: {:?} vs {:?}", n + 1, x.chars().take(160).collect::<String>(), y.chars().take(160).collect::<String>());
        }
    }
    format!("lengths {} vs {}", a.len(), b.len())
}

/// replay json: the target grammar, the two batches (with every member's text)
fn replay_json(items: &[Item], target: usize, a: &Batch, b: &Batch, what: &str, kind: &str) -> Value {
    let pack = |bt: &Batch| {
        json!({
            "mode": bt.mode.name(), "comments": bt.comments, "report": bt.report,
            "members": bt.members.iter().map(|(i, rel)| json!({"path": rel, "text": items[*i].text, "target": *i == target})).collect::<Vec<_>>(),
        })
    };
    json!({
        "tape_hex": tape::hex(&items[target].tape),
        "grammars": [{"name": items[target].name, "text": items[target].text, "flags": ["--features", FEATURES]}],
        "kind": kind,
        "runs": [pack(a), pack(b)],
        "expected": "byte-identical output for the same grammar text and options",
        "observed": what,
    })
}

fn parse_mode(s: &str) -> Mode {
    match s {
        "cli-multi" => Mode::CliMulti,
        "process_dir" => Mode::ProcDir,
        _ => Mode::Alone,
    }
}

fn replay_case(ck: &mut Checker, v: &Value) {
    // rebuild the two batches over a private item list, run each 4 times, compare everything
    let mut items: Vec<Item> = vec![];
    let mut batches: Vec<Batch> = vec![];
    let mut targets: Vec<usize> = vec![];
    for run in v["runs"].as_array().cloned().unwrap_or_default() {
        let mut members = vec![];
        for m in run["members"].as_array().cloned().unwrap_or_default() {
            items.push(Item { name: m["path"].as_str().unwrap_or("g").to_string(), text: m["text"].as_str().unwrap_or("").to_string(), nontrivial: false, tape: vec![] });
            if m["target"].as_bool() == Some(true) {
                targets.push(items.len() - 1);
            }
            members.push((items.len() - 1, m["path"].as_str().unwrap_or("g.lalrpop").to_string()));
        }
        batches.push(Batch { mode: parse_mode(run["mode"].as_str().unwrap_or("alone")), comments: run["comments"].as_bool().unwrap_or(false), report: run["report"].as_bool().unwrap_or(false), members });
    }
    if batches.len() != 2 || targets.len() != 2 {
        ck.infra("replay file has no two runs with a target each");
        return;
    }
    let ctx = ck.ctx.clone();
    let kind = v["kind"].as_str().unwrap_or("rs").to_string();
    let mut seen: Vec<(Vec<u8>, usize)> = vec![];
    for rep in 0..4 {
        for (bi, b) in batches.iter().enumerate() {
            let r = run_batch(&ctx, &ctx.work.join(format!("replay_run{rep}_{bi}")), &items, b);
            let pos = b.members.iter().position(|(i, _)| *i == targets[bi]).unwrap_or(0);
            let (rs, report) = r.outputs.get(pos).cloned().unwrap_or((None, None));
            let bytes = if kind == "report" { report } else { rs };
            if let Some(bytes) = bytes {
                seen.push((bytes, bi));
            }
        }
    }
    ck.eval();
    if let Some(first) = seen.first().cloned() {
        if let Some(other) = seen.iter().find(|s| s.0 != first.0) {
            let what = format!("outputs of the same grammar text differ: {}", first_diff_line(&first.0, &other.0));
            let sig = v["signature"].as_str().unwrap_or("C20/output-differs/replay").to_string();
            let mut rj = v.clone();
            if let Value::Object(m) = &mut rj {
                m.insert("observed".into(), json!(what));
            }
            ck.violation(&sig, &what, rj);
        }
    }
}

fn corpus_nontrivial(text: &str) -> bool {
    let toks = gt::split(text);
    let macro_ids = toks.windows(2).filter(|w| w[0].kind == TK::Ident && w[0].glued && w[1].text == "<").count();
    let repeats = toks.iter().filter(|t| t.kind == TK::Punct && matches!(t.text.as_str(), "*" | "+" | "?")).count();
    macro_ids + repeats >= 3
}

pub fn run(ctx: Ctx, replay: Option<PathBuf>) -> i32 {
    let mut ck = Checker::new(
        ctx.clone(),
        "exploration",
        "accepted grammar texts (all repository .lalrpop files incl. lrgrammar/pascal + template grammars heavy in macros and inferred types) x 8/16 independent processes \
         (alone via CLI, CLI with several inputs in random order, Configuration::process_dir over random directory compositions and file names) x --comments / --report; \
         non-trivial = grammar with >= 3 macro instantiations / repetition operators or >= 5 inferred nonterminal types; distinct = distinct grammar text",
    );
    ck.assume("hash seeds cannot be forced; the check relies on fresh RandomState keys in each of the independent processes");
    ck.assume(&format!("every process gets the same feature set ({FEATURES}) so that outputs are comparable"));
    if let Some(p) = replay {
        ck.strict = true;
        match super::load_replay(&p) {
            Ok(v) => replay_case(&mut ck, &v),
            Err(c) => return c,
        }
        return ck.finish();
    }
    ck.replay_listed(replay_case);

    let mut items: Vec<Item> = vec![];
    for f in gt::corpus(&ctx.root) {
        let nt = corpus_nontrivial(&f.text);
        items.push(Item { name: f.rel, text: f.text, nontrivial: nt, tape: vec![] });
    }
    let n_corpus = items.len();
    if n_corpus < 20 {
        ck.infra(format!("corpus has only {n_corpus} .lalrpop files under repo_link"));
        return ck.finish();
    }
    let n_gen = ctx.tier.pick(120usize, 2500usize);
    for (i, tp) in tape::sample_tapes(ctx.seed, n_gen, 0, 160).into_iter().enumerate() {
        let g = gt::gen_valid(&mut Tape::new(&tp));
        let nt = g.macro_uses >= 3 || g.inferred_types() >= 5;
        items.push(Item { name: format!("template{i}"), text: g.print(), nontrivial: nt, tape: tp });
    }
    // CFG skeletons with the template families of C03 (LR(1)-but-not-LALR(1) grammars make the
    // lane-table construction split states - a code path no repository grammar and no
    // macro-heavy template reaches; bracket families, nullable chains ..)
    let n_cfg = ctx.tier.pick(40usize, 1000usize);
    let n_split = ctx.tier.pick(40usize, 600usize);
    let (mut got_cfg, mut got_split) = (0usize, 0usize);
    for (i, tp) in tape::sample_tapes(ctx.seed ^ 0x20c0, 40 * (n_cfg + n_split), 8, 160).into_iter().enumerate() {
        if got_cfg >= n_cfg && got_split >= n_split {
            break;
        }
        let (g, tags) = crate::gen::gen_cfg(&mut Tape::new(&tp));
        let templated = tags.iter().any(|t| t.starts_with("template:"));
        let split = tags.iter().any(|t| *t == "template:lr1-not-lalr");
        if split {
            if got_split >= n_split {
                continue;
            }
            got_split += 1;
        } else {
            if got_cfg >= n_cfg || (!templated && i % 4 != 0) {
                continue;
            }
            got_cfg += 1;
        }
        let text = g.print(crate::gspec::PrintCfg::new(false, false));
        items.push(Item { name: format!("cfg{i}{}", if split { "-lr1-not-lalr" } else { "" }), text, nontrivial: split, tape: tp });
    }
    // identical texts (the corpus has a few) would be indistinguishable targets: keep the first
    let mut seen_text = std::collections::BTreeSet::new();
    items.retain(|it| seen_text.insert(hash_of(&it.text)));

    let rounds = ctx.tier.pick(8usize, 16usize);
    // round 0: alone, default options: decides acceptance
    let r0: Vec<Batch> = (0..items.len()).map(|i| Batch { mode: Mode::Alone, comments: false, report: false, members: vec![(i, "g.lalrpop".into())] }).collect();
    let res0 = par_map(&r0, ctx.threads, |j, b| run_batch(&ctx, &ctx.work.join(format!("r0_{j}")), &items, b));
    let mut accepted: Vec<usize> = vec![];
    // reference outputs: (item, comments) -> (bytes, batch) ; (item) -> report
    let mut ref_rs: BTreeMap<(usize, bool), (Vec<u8>, Batch)> = BTreeMap::new();
    let mut ref_rep: BTreeMap<usize, (Vec<u8>, Batch)> = BTreeMap::new();
    for (i, r) in res0.into_iter().enumerate() {
        match (&r.error, r.outputs.first()) {
            (None, Some((Some(rs), _))) => {
                accepted.push(i);
                ref_rs.insert((i, false), (rs.clone(), r0[i].clone()));
            }
            _ => ck.skip("grammar rejected by lalrpop"),
        }
    }
    let tape_len = 4 * items.len() + 4096;
    let tapes = tape::sample_tapes(ctx.seed.wrapping_add(0x20), rounds, tape_len, tape_len);
    let mut reported = std::collections::BTreeSet::new();
    let mut runs_per_item: BTreeMap<usize, usize> = BTreeMap::new();
    for r in 1..rounds {
        let tp = &tapes[r];
        let mut t = Tape::new(tp);
        let comments = r % 2 == 1;
        let report = (r / 2) % 2 == 1;
        let mode = match r % 3 {
            0 => Mode::Alone,
            1 => Mode::ProcDir,
            _ => Mode::CliMulti,
        };
        // a tape-driven permutation of the accepted items (Fisher-Yates), chunked into batches
        let mut order = accepted.clone();
        for i in (1..order.len()).rev() {
            let j = t.below(i + 1);
            order.swap(i, j);
        }
        let mut batches: Vec<Batch> = vec![];
        let mut k = 0;
        while k < order.len() {
            let size = if mode == Mode::Alone { 1 } else { t.range(2, 6) };
            let hi = (k + size).min(order.len());
            let mut members = vec![];
            let mut used = std::collections::BTreeSet::new();
            for (n, &i) in order[k..hi].iter().enumerate() {
                // random directory and file name; stems unique inside a batch
                let mut stem = format!("{}", *t.pick(STEMS));
                if !used.insert(stem.clone()) {
                    stem = format!("{stem}{n}");
                    used.insert(stem.clone());
                }
                let d = if mode == Mode::ProcDir { *t.pick(DIRS) } else { "" };
                let rel = if d.is_empty() { format!("{stem}.lalrpop") } else { format!("{d}/{stem}.lalrpop") };
                members.push((i, rel));
            }
            batches.push(Batch { mode, comments, report, members });
            k = hi;
        }
        let results = par_map(&batches, ctx.threads, |j, b| run_batch(&ctx, &ctx.work.join(format!("r{r}_{j}")), &items, b));
        for (b, res) in batches.iter().zip(results) {
            if let Some(e) = &res.error {
                // every member was accepted alone: a failing batch is itself a dependence on composition
                let sig = format!("C20/batch-fails/{}", b.mode.name());
                let what = format!("grammars accepted one by one fail when processed together ({}): {e}", b.mode.name());
                let tgt = b.members[0].0;
                ck.violation(&sig, &what, replay_json(&items, tgt, &r0[tgt], b, &what, "rs"));
                continue;
            }
            for ((i, _), (rs, rep)) in b.members.iter().zip(res.outputs) {
                ck.eval();
                *runs_per_item.entry(*i).or_insert(1) += 1;
                ck.class(&format!("{}{}{}", b.mode.name(), if comments { "+comments" } else { "" }, if report { "+report" } else { "" }));
                let Some(rs) = rs else {
                    let what = format!("no .rs produced for {} in a {} run that exited 0", items[*i].name, b.mode.name());
                    ck.violation(&format!("C20/missing-output/{}", b.mode.name()), &what, replay_json(&items, *i, &r0[*i], b, &what, "rs"));
                    continue;
                };
                match ref_rs.get(&(*i, comments)) {
                    None => {
                        ref_rs.insert((*i, comments), (rs, b.clone()));
                    }
                    Some((want, b0)) => {
                        if *want != rs {
                            let rel = if b0.mode == b.mode { "same-mode".to_string() } else { format!("{}-vs-{}", b0.mode.name(), b.mode.name()) };
                            let sig = format!("C20/rs-differs/{rel}");
                            let what = format!("generated .rs for {} differs between two runs ({rel}, comments={comments}): {}", items[*i].name, first_diff_line(want, &rs));
                            if reported.insert(sig.clone()) || ck.is_known(&sig) {
                                ck.violation(&sig, &what, replay_json(&items, *i, b0, b, &what, "rs"));
                            }
                        }
                    }
                }
                if report {
                    match (rep, ref_rep.get(i)) {
                        (None, _) => {
                            let what = format!("--report given but no .report produced for {}", items[*i].name);
                            ck.violation(&format!("C20/missing-report/{}", b.mode.name()), &what, replay_json(&items, *i, &r0[*i], b, &what, "report"));
                        }
                        (Some(rep), None) => {
                            ref_rep.insert(*i, (rep, b.clone()));
                        }
                        (Some(rep), Some((want, b0))) => {
                            if *want != rep {
                                let rel = if b0.mode == b.mode { "same-mode".to_string() } else { format!("{}-vs-{}", b0.mode.name(), b.mode.name()) };
                                let sig = format!("C20/report-differs/{rel}");
                                let what = format!("generated .report for {} differs between two runs ({rel}): {}", items[*i].name, first_diff_line(want, &rep));
                                if reported.insert(sig.clone()) || ck.is_known(&sig) {
                                    ck.violation(&sig, &what, replay_json(&items, *i, b0, b, &what, "report"));
                                }
                            }
                        }
                    }
                }
            }
        }
    }
    for &i in &accepted {
        ck.class(if items[i].name.starts_with("template") { "grammar:template" } else if items[i].name.contains("lr1-not-lalr") { "grammar:cfg-skeleton-lr1-not-lalr" } else if items[i].name.starts_with("cfg") { "grammar:cfg-skeleton" } else { "grammar:corpus" });
        if items[i].nontrivial {
            ck.nontrivial(&items[i].text);
        }
        if ck.want_sample() && i % 29 == 0 {
            ck.sample(json!({"grammar": items[i].name, "text": items[i].text.chars().take(1200).collect::<String>(), "processes": runs_per_item.get(&i).copied().unwrap_or(1), "outcome": "all outputs byte-identical"}));
        }
    }
    ck.extra.insert("processes_per_grammar".into(), json!(rounds));
    ck.finish()
}
