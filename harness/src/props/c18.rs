//! C18 - LALRPOP never panics: every text yields a parser or a diagnostic.
//!
//! Generators (all decoded from proptest byte tapes):
//!  1. near-valid grammars: a valid template grammar (`grammar_text::gen_valid`)
//!     damaged by 1-3 mistakes from the catalogue in `c18_mistakes.rs`;
//!  2. token-level mutations of the repository's own `.lalrpop` files;
//!  3. arbitrary bytes (dictionary-biased, including invalid UTF-8).
//! Oracle: the real CLI in a subprocess: exit 0 + output file with the two
//! header lines (version, sha3 of the input - recomputed here), or exit 1 + a
//! diagnostic and no output file. Never a panic (101), a signal, another exit
//! code, or the watchdog.

use crate::core::{par_map, Checker, Ctx};
use crate::grammar_text::{self as gt, CorpusFile, GTok, TK};
use crate::run::{Exit, Out};
use crate::tape::{self, Tape};
use serde_json::{json, Value};
use std::path::{Path, PathBuf};

#[path = "c18_mistakes.rs"]
pub mod mistakes;

#[derive(Clone, Debug)]
pub struct Case {
    pub gen: &'static str,
    pub bytes: Vec<u8>,
    pub args: Vec<String>,
    pub label: String,
    pub tape: Vec<u8>,
}

#[derive(Clone, Debug)]
pub struct Verdict {
    pub class: String,
    pub reached_norm: bool,
    pub timeout: bool,
    /// (signature, what)
    pub failure: Option<(String, String)>,
    pub exit: String,
    pub stderr_head: String,
    pub stdout_head: String,
}

fn head(s: &str, n: usize) -> String {
    s.chars().take(n).collect()
}

const PARSE_LEVEL: &[&str] = &[
    "error: unexpected token",
    "error: unrecognized token",
    "error: unexpected end of file",
    "error: unterminated",
    "error: invalid character",
    "error: extra token",
    "error: expected string literal",
    "error: unrecognized escape",
];

/// Run the CLI on `bytes` in a private directory and judge the outcome.
pub fn evaluate(ctx: &Ctx, dir: &Path, bytes: &[u8], args: &[String], timeout_s: u64) -> Verdict {
    let _ = std::fs::remove_dir_all(dir);
    let _ = std::fs::create_dir_all(dir.join("out"));
    let file = dir.join("g.lalrpop");
    if let Err(e) = std::fs::write(&file, bytes) {
        return Verdict {
            class: "infra".into(),
            reached_norm: false,
            timeout: false,
            failure: None,
            exit: format!("write failed: {e}"),
            stderr_head: String::new(),
            stdout_head: String::new(),
        };
    }
    let mut a: Vec<String> = vec!["--force".into(), "-o".into(), dir.join("out").to_string_lossy().into_owned()];
    a.extend(args.iter().cloned());
    a.push(file.to_string_lossy().into_owned());
    let out = gt::cli_cmd(&ctx.cli, &a, timeout_s).run();
    let rs_path = dir.join("out").join("g.rs");
    let rs = std::fs::read(&rs_path).ok();
    let v = judge(bytes, &out, rs.as_deref());
    let _ = std::fs::remove_dir_all(dir);
    v
}

pub fn judge(bytes: &[u8], out: &Out, rs: Option<&[u8]>) -> Verdict {
    let mut v = Verdict {
        class: String::new(),
        reached_norm: false,
        timeout: false,
        failure: None,
        exit: format!("{:?}", out.exit),
        stderr_head: head(&out.stderr, 600),
        stdout_head: head(&out.stdout, 600),
    };
    let diag = format!("{}\n{}", out.stdout, out.stderr);
    if out.panicked() {
        let sig = out.panic_signature().unwrap_or_else(|| "unknown".into());
        v.class = "PANIC".into();
        v.reached_norm = true;
        v.failure = Some((format!("C18/panic/{sig}"), format!("lalrpop panicked: {}", head(out.stderr.trim(), 300))));
        return v;
    }
    match &out.exit {
        Exit::Timeout => {
            v.class = "timeout".into();
            v.timeout = true;
        }
        Exit::SpawnError(e) => {
            v.class = "infra".into();
            v.exit = format!("spawn error {e}");
        }
        Exit::Signal(n) => {
            v.class = "SIGNAL".into();
            v.reached_norm = true;
            let kind = if out.stderr.contains("overflowed its stack") {
                "stack-overflow".to_string()
            } else if out.stderr.contains("memory allocation of") {
                // the only listed way to exhaust memory is macro expansion; an exhaustion on a
                // text that defines no macro is a different defect and must not be covered by it
                let text = String::from_utf8_lossy(bytes);
                let defines_macro = regex::Regex::new(r"[A-Za-z_][A-Za-z0-9_]*\s*<\s*[A-Za-z_][A-Za-z0-9_]*\s*(,\s*[A-Za-z_][A-Za-z0-9_]*\s*)*>\s*(:[^=;]*)?=")
                    .map_or(false, |re| re.is_match(&text));
                if defines_macro { "out-of-memory/text-defines-a-macro".to_string() } else { "out-of-memory/no-macro-definition".to_string() }
            } else {
                format!("signal-{n}")
            };
            v.failure = Some((format!("C18/abort/{kind}"), format!("lalrpop was killed by signal {n}: {}", head(out.stderr.trim(), 300))));
        }
        Exit::Code(0) => {
            v.reached_norm = true;
            v.class = "accepted".into();
            match rs {
                None => {
                    v.failure = Some(("C18/exit0-without-output".into(), "exit status 0 but no output file was written".into()));
                }
                Some(rs) => {
                    let text = String::from_utf8_lossy(rs);
                    let mut lines = text.lines();
                    let l1 = lines.next().unwrap_or("");
                    let l2 = lines.next().unwrap_or("");
                    let want2 = gt::sha3_line(bytes);
                    if !(l1.starts_with("// auto-generated: \"lalrpop ") && l1.ends_with('"')) || l2 != want2 {
                        v.failure = Some((
                            "C18/exit0-bad-header".into(),
                            format!("output file does not start with the version + sha3 header lines: {l1:?} / {l2:?} (expected sha3 line {want2:?})"),
                        ));
                    }
                }
            }
        }
        Exit::Code(1) => {
            if rs.is_some() {
                v.class = "rejected".into();
                v.failure = Some(("C18/exit1-with-output".into(), "exit status 1 but an output file exists".into()));
            } else if diag.trim().is_empty() || !out.stderr.contains("Error encountered processing") {
                v.class = "rejected".into();
                v.failure = Some(("C18/exit1-without-diagnostic".into(), format!("exit status 1 without a diagnostic: {:?}", head(&diag, 200))));
            } else if PARSE_LEVEL.iter().any(|m| out.stdout.contains(m)) {
                v.class = "rejected:parse".into();
            } else if out.stderr.contains("valid UTF-8") {
                v.class = "rejected:utf8".into();
            } else if out.stdout.contains("no public symbols") {
                v.class = "rejected:no-pub".into();
                v.reached_norm = true;
            } else if out.stdout.contains(" error: ") {
                v.class = "rejected:normalize".into();
                v.reached_norm = true;
            } else if out.stdout.to_lowercase().contains("conflict") || out.stdout.to_lowercase().contains("ambigu") {
                v.class = "rejected:lr-conflict".into();
                v.reached_norm = true;
            } else {
                v.class = "rejected:other".into();
                v.reached_norm = true;
            }
        }
        Exit::Code(c) => {
            v.class = "EXIT".into();
            v.failure = Some((format!("C18/exit-code/{c}"), format!("unexpected exit status {c}: {}", head(diag.trim(), 300))));
        }
    }
    v
}

// ---------------------------------------------------------------------------
// generators

fn gen_near_valid(tp: &[u8]) -> Case {
    let mut t = Tape::new(tp);
    let mut g = gt::gen_valid(&mut t);
    let n = 1 + t.weighted(&[6, 3, 1]);
    let mut labels = vec![];
    for _ in 0..n {
        labels.push(mistakes::apply(&mut g, &mut t));
    }
    let mut text = g.print();
    // some mistakes act on the printed text
    for _ in 0..t.weighted(&[5, 1]) {
        let (l, tx) = mistakes::apply_text(&text, &mut t);
        labels.push(l);
        text = tx;
    }
    Case { gen: "near-valid", bytes: text.into_bytes(), args: gt::feature_args(&g), label: labels.join("+"), tape: tp.to_vec() }
}

const POOL: &[&str] = &[
    "grammar", "pub", "extern", "match", "else", "enum", "type", "if", "mut", "use", "where", "for", "dyn", "in", ";", ",", "=", "=>", "=>?", "=>@L", "=>@R",
    "@L", "@R", "<", ">", "(", ")", "{", "}", "[", "]", "#", "!", "?", "*", "+", ":", "::", "..", "_", "&", "->", "==", "!=", "~~", "!~", "\"a\"", "r\"a\"",
    "r#\"a\"#", "'a", "'a'", "`X`", "#[inline]", "#[precedence(level=\"1\")]", "#[assoc(side=\"left\")]", "#[cfg(feature=\"x\")]", "#![x]", "X", "X<", "Y",
    "<>", "()", "\"\"", "r\"\"", "r\"(\"", "é", "\\", "\"\\x\"", "#X#", "/*", "*/", "//", "'", "\"", "`", "r#", "0", "Location", "Error", "Vec<X>", "<x:X>",
    "<(a,b):X>", "X*", "X+", "X?", "(X Y)", "<mut x:X>",
];

fn mutate_tokens(toks: &mut Vec<GTok>, other: &[GTok], t: &mut Tape, labels: &mut Vec<String>) {
    if toks.is_empty() {
        toks.push(GTok::new(TK::Other, *t.pick(POOL)));
        return;
    }
    let n = toks.len();
    // kind-preserving replacement keeps most mutants syntactically valid, so that they reach
    // the normalisation passes (a different name, terminal, attribute word, type or action)
    if t.chance(150) {
        let i = t.below(n);
        let same: Vec<usize> = (0..n).filter(|&j| toks[j].kind == toks[i].kind && toks[j].text != toks[i].text).collect();
        if !same.is_empty() {
            let j = same[t.below(same.len())];
            toks[i].text = toks[j].text.clone();
            labels.push("replace-same-kind".into());
            return;
        }
    }
    match t.weighted(&[4, 3, 3, 4, 3, 2, 2, 2]) {
        0 => {
            let i = t.below(n);
            let k = 1 + t.weighted(&[6, 2, 1]);
            let hi = (i + k).min(n);
            toks.drain(i..hi);
            labels.push("delete".into());
        }
        1 => {
            let i = t.below(n);
            let tok = toks[i].clone();
            toks.insert(i, tok);
            labels.push("duplicate".into());
        }
        2 => {
            let i = t.below(n);
            let j = if t.chance(128) { (i + 1).min(n - 1) } else { t.below(n) };
            toks.swap(i, j);
            labels.push("swap".into());
        }
        3 => {
            let i = t.below(n);
            toks[i] = GTok::new(TK::Other, *t.pick(POOL));
            labels.push("replace-pool".into());
        }
        4 => {
            let i = t.below(n);
            let j = t.below(n);
            toks[i] = toks[j].clone();
            labels.push("replace-own".into());
        }
        5 => {
            let i = t.below(n + 1);
            toks.insert(i, GTok::new(TK::Other, *t.pick(POOL)));
            labels.push("insert-pool".into());
        }
        6 => {
            // splice: prefix of this file + suffix of another
            if !other.is_empty() {
                let i = t.below(n + 1);
                let j = t.below(other.len() + 1);
                toks.truncate(i);
                toks.extend_from_slice(&other[j..]);
                labels.push("splice".into());
            }
        }
        _ => {
            let i = t.below(n + 1);
            toks.truncate(i);
            labels.push("truncate".into());
        }
    }
}

fn gen_corpus_mutant(tp: &[u8], files: &[(String, Vec<GTok>, String)]) -> Case {
    let mut t = Tape::new(tp);
    let fi = t.below(files.len());
    let oi = t.below(files.len());
    let mut toks = files[fi].1.clone();
    let mut labels = vec![files[fi].0.clone()];
    let n = 1 + t.weighted(&[5, 3, 2, 1]);
    for _ in 0..n {
        mutate_tokens(&mut toks, &files[oi].1, &mut t, &mut labels);
    }
    let mut bytes = gt::join(&toks).into_bytes();
    if t.chance(40) && !bytes.is_empty() {
        // flip a byte (may produce invalid UTF-8)
        let i = t.below(bytes.len().min(65535));
        let bit = t.below(8);
        bytes[i] ^= 1 << bit;
        labels.push("byteflip".into());
    }
    Case { gen: "corpus-mutant", bytes, args: vec![], label: labels.join("+"), tape: tp.to_vec() }
}

fn gen_bytes(tp: &[u8]) -> Case {
    let mut t = Tape::new(tp);
    let mut bytes: Vec<u8> = vec![];
    let mode = t.weighted(&[2, 3, 3]);
    if mode >= 1 && t.chance(200) {
        bytes.extend_from_slice(b"grammar;\n");
    }
    let n = t.range(0, 40);
    for _ in 0..n {
        match mode {
            0 => bytes.push(t.byte()),
            1 => {
                if t.chance(200) {
                    bytes.extend_from_slice((*t.pick(POOL)).as_bytes());
                    bytes.push(b' ');
                } else {
                    bytes.push(t.byte());
                }
            }
            _ => {
                bytes.extend_from_slice((*t.pick(POOL)).as_bytes());
                if t.chance(200) {
                    bytes.push(b' ');
                }
            }
        }
    }
    Case { gen: "bytes", bytes, args: vec![], label: format!("mode{mode}"), tape: tp.to_vec() }
}

// ---------------------------------------------------------------------------
// replay / violation reporting

fn replay_json(case: &Case, v: &Verdict, minimized: &[u8], original_len: usize) -> Value {
    let text = String::from_utf8(minimized.to_vec()).ok();
    json!({
        "generator": case.gen,
        "mutations": case.label,
        "tape_hex": tape::hex(&case.tape),
        "grammars": [{
            "name": "g.lalrpop",
            "text": text,
            "text_hex": tape::hex(minimized),
            "flags": case.args,
        }],
        "original_len": original_len,
        "expected": "exit 0 with an output file starting with the version + sha3 header lines, or exit 1 with a diagnostic and no output file",
        "observed": {"exit": v.exit, "class": v.class, "stderr": v.stderr_head, "stdout": v.stdout_head},
    })
}

fn replay_case(ck: &mut Checker, v: &Value) {
    let g = &v["grammars"][0];
    let bytes = match g["text_hex"].as_str() {
        Some(h) => tape::unhex(h),
        None => g["text"].as_str().unwrap_or("").as_bytes().to_vec(),
    };
    let args: Vec<String> = g["flags"].as_array().map(|a| a.iter().filter_map(|x| x.as_str().map(|s| s.to_string())).collect()).unwrap_or_default();
    let ctx = ck.ctx.clone();
    let dir = ctx.work.join("replay_run");
    let mut verdict = evaluate(&ctx, &dir, &bytes, &args, 60);
    if verdict.timeout {
        verdict = confirm_hang(&ctx, &dir, &bytes, &args, "replay", ck);
    }
    ck.eval();
    if let Some((sig, what)) = verdict.failure.clone() {
        let case = Case { gen: "replay", bytes: bytes.clone(), args, label: v["mutations"].as_str().unwrap_or("").to_string(), tape: tape::unhex(v["tape_hex"].as_str().unwrap_or("")) };
        let rj = replay_json(&case, &verdict, &bytes, bytes.len());
        ck.violation(&sig, &what, rj);
    }
}

/// A watchdog hit: re-run with 180 s, twice; a violation only if both hang.
fn confirm_hang(ctx: &Ctx, dir: &Path, bytes: &[u8], args: &[String], gen: &str, ck: &mut Checker) -> Verdict {
    let v2 = evaluate(ctx, dir, bytes, args, 180);
    if !v2.timeout {
        ck.class("slow(>60s)");
        return v2;
    }
    let mut v3 = evaluate(ctx, dir, bytes, args, 180);
    if !v3.timeout {
        ck.inconclusive += 1;
        ck.infra("a 180 s watchdog hit did not reproduce");
        return v3;
    }
    v3.failure = Some((format!("C18/hang/{gen}"), "lalrpop did not terminate within 60 s, 180 s and 180 s (three runs)".to_string()));
    v3
}

/// Minimise the failing input of `case` (same signature), text level.
fn minimise(ctx: &Ctx, case: &Case, sig: &str) -> (Case, Vec<u8>) {
    let fails = |slot: usize, bytes: &[u8], args: &[String]| -> bool {
        let v = evaluate(ctx, &ctx.work.join(format!("shrink{slot}")), bytes, args, 30);
        v.failure.as_ref().map_or(false, |f| f.0 == sig)
    };
    let mut case = case.clone();
    // resource-exhaustion cases are expensive to re-run: keep the budget small
    let budget = if sig.starts_with("C18/abort/out-of-memory") { 60 } else { 1500 };
    // drop the feature flags if they are not needed
    if !case.args.is_empty() && fails(0, &case.bytes, &[]) {
        case.args.clear();
    }
    let args = case.args.clone();
    let min = match std::str::from_utf8(&case.bytes) {
        Ok(text) => {
            let s = gt::shrink_text(text, budget, ctx.threads, |slot, cand| fails(slot, cand.as_bytes(), &args));
            if fails(0, s.as_bytes(), &args) {
                s.into_bytes()
            } else {
                case.bytes.clone()
            }
        }
        Err(_) => gt::shrink_bytes(&case.bytes, budget.min(400), |cand| fails(0, cand, &args)),
    };
    (case, min)
}

// ---------------------------------------------------------------------------

pub fn run(ctx: Ctx, replay: Option<PathBuf>) -> i32 {
    let mut ck = Checker::new(
        ctx.clone(),
        "exploration",
        "texts given to the real lalrpop CLI: (1) valid template grammars damaged by 1-3 catalogue mistakes, (2) token-level mutants (delete/duplicate/swap/replace/insert/splice/truncate/byte flip) \
         of the repository's .lalrpop files, (3) dictionary-biased arbitrary bytes incl. invalid UTF-8; non-trivial = the text got past tokenizer and parser \
         (accepted, or rejected by normalisation / LR construction with a diagnostic); distinct = distinct text",
    );
    ck.assume("nesting depth of generated text <= 64 (stack exhaustion by thousands of nested delimiters is outside the explored domain)");
    ck.assume(&format!("each lalrpop process runs under an address-space limit of {} MiB; hitting it is reported as C18/abort/out-of-memory", gt::MEM_LIMIT_KIB / 1024));
    if let Some(p) = replay {
        ck.strict = true;
        match super::load_replay(&p) {
            Ok(v) => replay_case(&mut ck, &v),
            Err(c) => return c,
        }
        return ck.finish();
    }
    ck.replay_listed(replay_case);

    let corpus: Vec<CorpusFile> = gt::corpus(&ctx.root);
    if corpus.len() < 20 {
        ck.infra(format!("corpus has only {} .lalrpop files under repo_link", corpus.len()));
        return ck.finish();
    }
    let max_size = ctx.tier.pick(6_000usize, 100_000usize);
    let files: Vec<(String, Vec<GTok>, String)> =
        corpus.iter().filter(|f| f.text.len() <= max_size).map(|f| (f.rel.clone(), gt::split(&f.text), f.text.clone())).collect();

    let (n_near, n_mut, n_bytes) = ctx.tier.pick((3000usize, 1600usize, 400usize), (120_000, 70_000, 10_000));
    let mut cases: Vec<Case> = vec![];
    for tp in tape::sample_tapes(ctx.seed, n_near, 0, 160) {
        cases.push(gen_near_valid(&tp));
    }
    for tp in tape::sample_tapes(ctx.seed.wrapping_add(0x1000_0000), n_mut, 4, 48) {
        cases.push(gen_corpus_mutant(&tp, &files));
    }
    for tp in tape::sample_tapes(ctx.seed.wrapping_add(0x2000_0000), n_bytes, 0, 96) {
        cases.push(gen_bytes(&tp));
    }

    // evaluate in chunks so that memory for verdicts stays small in the thorough tier
    let chunk = 4000;
    let mut idx0 = 0;
    let mut reported: std::collections::BTreeSet<String> = Default::default();
    while idx0 < cases.len() {
        let hi = (idx0 + chunk).min(cases.len());
        let slice = &cases[idx0..hi];
        let t0 = std::time::Instant::now();
        let verdicts = par_map(slice, ctx.threads, |i, c| {
            let t1 = std::time::Instant::now();
            let v = evaluate(&ctx, &ctx.work.join(format!("c{}", idx0 + i)), &c.bytes, &c.args, 60);
            if t1.elapsed().as_secs() >= 10 {
                eprintln!("note: slow case {} ({} s, {}): {} / {}", idx0 + i, t1.elapsed().as_secs(), v.class, c.gen, c.label);
                let d = ctx.work.join("slow");
                let _ = std::fs::create_dir_all(&d);
                let _ = std::fs::write(d.join(format!("{}.lalrpop", idx0 + i)), &c.bytes);
            }
            v
        });
        eprintln!("note: evaluated cases {}..{} in {:.1} s", idx0, hi, t0.elapsed().as_secs_f64());
        for (c, v) in slice.iter().zip(verdicts) {
            let mut v = v;
            if v.timeout {
                v = confirm_hang(&ctx, &ctx.work.join("hang"), &c.bytes, &c.args, c.gen, &mut ck);
            }
            ck.eval();
            ck.class(&format!("{}:{}", c.gen, v.class));
            if v.class == "infra" {
                ck.infra(format!("could not run case: {}", v.exit));
                continue;
            }
            if v.reached_norm {
                ck.nontrivial(&c.bytes);
                if ck.want_sample() && ck.evaluations % 397 == 0 {
                    ck.sample(json!({"generator": c.gen, "mutations": c.label, "text": String::from_utf8_lossy(&c.bytes), "outcome": v.class}));
                }
            }
            if let Some((sig, what)) = v.failure.clone() {
                if ck.is_known(&sig) || !reported.insert(sig.clone()) {
                    ck.violation(&sig, &what, json!({}));
                    continue;
                }
                // first case of a new signature: minimise, then report
                let (mc, min) = if sig.starts_with("C18/hang") { (c.clone(), c.bytes.clone()) } else { minimise(&ctx, c, &sig) };
                let rj = replay_json(&mc, &v, &min, c.bytes.len());
                ck.violation(&sig, &what, rj);
            }
        }
        idx0 = hi;
    }
    if ctx.tier == crate::core::Tier::Thorough || std::env::var("VERIF_FUZZ").is_ok() {
        fuzz_stage(&ctx, &mut ck, &corpus, &mut reported);
    }
    ck.finish()
}

/// E7: coverage-guided stage (thorough tier): libFuzzer drives the whole
/// pipeline in process (fuzz/fuzz_targets/grammar_text.rs, oracle "never
/// panics", known panic messages allow-listed); every crash artifact and every
/// coverage-increasing input it keeps is then judged by the same CLI oracle as
/// the generated cases, so a crash becomes an ordinary, minimised replay file.
fn fuzz_stage(ctx: &Ctx, ck: &mut Checker, corpus: &[CorpusFile], reported: &mut std::collections::BTreeSet<String>) {
    let fuzz_dir = ctx.root.join("fuzz");
    if !fuzz_dir.join("Cargo.toml").exists() {
        ck.skip("fuzz stage: fuzz/ crate missing");
        return;
    }
    let cdir = ctx.work.join("fuzz_corpus");
    let adir = ctx.work.join("fuzz_artifacts");
    let _ = std::fs::create_dir_all(&cdir);
    let _ = std::fs::create_dir_all(&adir);
    for (i, f) in corpus.iter().filter(|f| f.text.len() <= 2048).enumerate() {
        let _ = std::fs::write(cdir.join(format!("seed{i}.lalrpop")), &f.text);
    }
    let runs = std::env::var("VERIF_FUZZ_RUNS").ok().and_then(|s| s.parse::<u64>().ok()).unwrap_or(400_000);
    let target = ctx.root.join("target").join("fuzz");
    let out = crate::run::Cmd::new("cargo")
        .args(["+nightly", "fuzz", "run", "-s", "none", "--fuzz-dir"])
        .arg(&fuzz_dir)
        .arg("--target-dir")
        .arg(&target)
        .arg("grammar_text")
        .arg(&cdir)
        .arg("--")
        .arg(format!("-runs={runs}"))
        .arg(format!("-seed={}", (ctx.seed % 0x7fff_ffff) + 1))
        .args(["-max_len=2048", "-close_fd_mask=3", "-timeout=60", "-rss_limit_mb=2048"])
        .arg(format!("-artifact_prefix={}/", adir.display()))
        .env("CARGO_NET_OFFLINE", "true")
        .timeout_s(6 * 3600)
        .run();
    ck.class("fuzz_stage_runs_requested");
    ck.extra.insert("libfuzzer_runs".into(), json!(runs));
    ck.extra.insert("libfuzzer_exit".into(), json!(format!("{:?}", out.exit)));
    if out.stderr.contains("error: could not compile") || out.stderr.contains("could not find `Cargo.toml`") {
        ck.infra(format!("fuzz stage: the libFuzzer target did not build: {}", head(&out.stderr, 600)));
        return;
    }
    // judge crash artifacts and the corpus libFuzzer built, through the CLI oracle
    let mut inputs: Vec<(String, Vec<u8>)> = vec![];
    for (dir, tag) in [(&adir, "libfuzzer-artifact"), (&cdir, "libfuzzer-corpus")] {
        if let Ok(rd) = std::fs::read_dir(dir) {
            let mut names: Vec<_> = rd.filter_map(|e| e.ok()).map(|e| e.path()).collect();
            names.sort();
            for p in names {
                if p.file_name().map_or(false, |n| n.to_string_lossy().starts_with("seed")) {
                    continue;
                }
                if let Ok(b) = std::fs::read(&p) {
                    inputs.push((tag.to_string(), b));
                }
            }
        }
    }
    ck.extra.insert("libfuzzer_inputs_judged".into(), json!(inputs.len()));
    let verdicts = par_map(&inputs, ctx.threads, |i, (_, b)| evaluate(ctx, &ctx.work.join(format!("f{i}")), b, &[], 60));
    for ((tag, bytes), v) in inputs.iter().zip(verdicts) {
        ck.eval();
        ck.class(&format!("{}:{}", tag, v.class));
        if v.reached_norm {
            ck.nontrivial(bytes);
        }
        if let Some((sig, what)) = v.failure.clone() {
            let case = Case { gen: "libfuzzer", bytes: bytes.clone(), args: vec![], label: tag.clone(), tape: vec![] };
            if ck.is_known(&sig) || !reported.insert(sig.clone()) {
                ck.violation(&sig, &what, json!({}));
                continue;
            }
            let (mc, min) = if sig.starts_with("C18/hang") { (case.clone(), bytes.clone()) } else { minimise(ctx, &case, &sig) };
            let rj = replay_json(&mc, &v, &min, bytes.len());
            ck.violation(&sig, &what, rj);
        }
    }
}
