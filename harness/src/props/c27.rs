//! C27 - generated parsers are reentrant and safe to share across threads.
//! See suite.rs (run_c27) and DESIGN.md section 3.
use crate::core::Ctx;
use std::path::PathBuf;
pub fn run(ctx: Ctx, replay: Option<PathBuf>) -> i32 {
    super::suite::run_c27(ctx, replay)
}
