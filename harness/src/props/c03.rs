//! C03 - a grammar is accepted exactly when it is deterministic for the chosen
//! algorithm. Generated CFG skeletons (random + template families) are run
//! through the real lalrpop CLI under lane-table / canonical LR(1) / LALR(1),
//! and the verdict is compared with the harness's own textbook LR(1) / LALR(1)
//! constructions on the model-expanded, model-inlined grammar.

use crate::core::{par_map, Checker, Ctx};
use crate::gen;
use crate::gspec::{Elab, GSpec, PrintCfg};
use crate::model::cfg::inline_expand;
use crate::model::lr::{classify, Class, Lr, Verdict};
use crate::run::{Algo, Cmd, Exit};
use crate::tape::{self, Tape};
use serde_json::{json, Value};
use std::collections::BTreeSet;
use std::path::PathBuf;

const RULE: &str = "CFG skeletons decoded from proptest byte tapes (<= 7+template nonterminals, <= 6 terminals, RHS <= 4; random alternatives with left/right/middle recursion, empty alternatives, `? * +`, groups, #[inline], several pub symbols, unreachable nonterminals) spliced with template families (LR(1)-not-LALR(1), LR(2), ambiguous expression, dangling else, nullable chains, unproductive nonterminals, bracket families) x {lane table, canonical LR(1), LALR(1), lane+#[LALR]}; oracle: own canonical LR(1)/LALR(1) automata per pub symbol. Non-trivial = grammar that is not LR(0) for some pub symbol; distinct = distinct (grammar text, configuration)";

#[derive(Clone, Copy, Debug, PartialEq, Eq)]
enum Cfg4 {
    Lane,
    Lr1,
    Lalr,
    LaneLalrAttr,
}

impl Cfg4 {
    const ALL: [Cfg4; 4] = [Cfg4::Lane, Cfg4::Lr1, Cfg4::Lalr, Cfg4::LaneLalrAttr];
    fn name(self) -> &'static str {
        match self {
            Cfg4::Lane => "lane",
            Cfg4::Lr1 => "lr1",
            Cfg4::Lalr => "lalr",
            Cfg4::LaneLalrAttr => "lane+LALR-attr",
        }
    }
    fn lalr_attr(self) -> bool {
        matches!(self, Cfg4::Lalr | Cfg4::LaneLalrAttr)
    }
    fn disabled(self) -> bool {
        matches!(self, Cfg4::Lr1 | Cfg4::Lalr)
    }
    /// The statement makes LALR(1) the criterion only for `#[LALR]` together
    /// with LALRPOP_LANE_TABLE=disabled; with the lane table on, `#[LALR]` is
    /// documented to have no effect (LALRPOP prints a warning), so the
    /// criterion stays canonical LR(1).
    fn criterion_is_lalr(self) -> bool {
        matches!(self, Cfg4::Lalr)
    }
}

struct ModelVerdict {
    /// per pub symbol: textbook verdict (a) and empty-lookahead variant (b)
    per_start: Vec<(String, Verdict, Verdict)>,
    class: Class,
    aborted: bool,
}

fn model_verdict(spec: &GSpec) -> Result<ModelVerdict, String> {
    let el = Elab::run(spec, &BTreeSet::new()).map_err(|e| format!("{e:?}"))?;
    let flat = inline_expand(&el.core).ok_or("inline expansion failed (recursive inline or too large)")?;
    let mut per_start = vec![];
    let mut worst = Class::Lr0;
    let mut aborted = false;
    for &s in &el.core.starts {
        let va = Lr::new(&flat, s, false).verdict(4000);
        let vb = Lr::new(&flat, s, true).verdict(4000);
        aborted |= va.aborted || vb.aborted;
        let c = classify(&va);
        if c > worst {
            worst = c;
        }
        per_start.push((el.core.nts[s].name.clone(), va, vb));
    }
    Ok(ModelVerdict { per_start, class: worst, aborted })
}

#[derive(Clone, Debug, PartialEq, Eq)]
enum Observed {
    Accepted,
    Conflict,
    OtherError(String),
    Panic(String),
    Timeout,
}

fn run_lalrpop(ctx: &Ctx, dir: &std::path::Path, text: &str, cfg: Cfg4) -> Observed {
    let _ = std::fs::create_dir_all(dir);
    let f = dir.join("g.lalrpop");
    let out_rs = dir.join("g.rs");
    let _ = std::fs::remove_file(&out_rs);
    std::fs::write(&f, text).unwrap();
    let mut c = Cmd::new(&ctx.cli).arg("--force").arg(&f).timeout_s(120);
    if cfg.disabled() {
        c = c.env("LALRPOP_LANE_TABLE", "disabled");
    }
    let o = c.run();
    match &o.exit {
        Exit::Code(0) if out_rs.exists() => Observed::Accepted,
        Exit::Code(0) => Observed::OtherError("exit 0 without output file".into()),
        Exit::Timeout => Observed::Timeout,
        _ if o.panicked() => Observed::Panic(o.panic_signature().unwrap_or_default()),
        Exit::Code(1) => {
            let conflict = o.stdout.contains("Conflict detected")
                || o.stdout.contains("ambiguity detected")
                || o.stdout.contains("Ambiguous grammar detected")
                || o.stdout.contains("Local ambiguity detected")
                || o.stdout.contains("Multiple productions for the same reduction");
            if out_rs.exists() {
                Observed::OtherError("exit 1 but an output file exists".into())
            } else if conflict {
                Observed::Conflict
            } else {
                Observed::OtherError(o.stdout.lines().next().unwrap_or("").chars().take(160).collect())
            }
        }
        e => Observed::OtherError(format!("{e:?}")),
    }
}

struct CaseOut {
    spec: GSpec,
    text: String,
    tags: Vec<&'static str>,
    mv: Result<ModelVerdict, String>,
    obs: Vec<(Cfg4, Observed)>,
}

fn eval_tape(ctx: &Ctx, idx: usize, tape_bytes: &[u8], sub: &str) -> CaseOut {
    eval_tape_cfgs(ctx, idx, tape_bytes, sub, &Cfg4::ALL)
}

fn eval_tape_cfgs(ctx: &Ctx, idx: usize, tape_bytes: &[u8], sub: &str, cfgs: &[Cfg4]) -> CaseOut {
    let mut t = Tape::new(tape_bytes);
    let (spec, tags) = gen::gen_cfg(&mut t);
    eval_spec_cfgs(ctx, idx, spec, tags, sub, cfgs)
}

fn eval_spec_cfgs(ctx: &Ctx, idx: usize, spec: GSpec, tags: Vec<&'static str>, sub: &str, cfgs: &[Cfg4]) -> CaseOut {
    let mv = model_verdict(&spec);
    let mut obs = vec![];
    let text_plain = spec.print(PrintCfg::new(false, false));
    if mv.is_ok() {
        for &cfg in cfgs {
            let text = spec.print(PrintCfg::new(cfg.lalr_attr(), false));
            let dir = ctx.work.join(sub).join(format!("g{idx}_{}", cfg.name().replace('+', "_")));
            let o = run_lalrpop(ctx, &dir, &text, cfg);
            let _ = std::fs::remove_dir_all(&dir);
            obs.push((cfg, o));
        }
    }
    CaseOut { text: text_plain, tags, mv, obs, spec }
}

/// (signature, what) of the first disagreement of a case, if any
fn judge(c: &CaseOut) -> Vec<(String, String, Cfg4)> {
    let mut out = vec![];
    let Ok(mv) = &c.mv else { return out };
    if mv.aborted {
        return out;
    }
    for (cfg, o) in &c.obs {
        let want_a = mv.per_start.iter().any(|(_, a, _)| if cfg.criterion_is_lalr() { a.lalr_conflict } else { a.lr1_conflict });
        let want_b = mv.per_start.iter().any(|(_, _, b)| if cfg.criterion_is_lalr() { b.lalr_conflict } else { b.lr1_conflict });
        match o {
            Observed::Accepted => {
                if want_a {
                    out.push((
                        format!("C03/accepted-nondeterministic/{}", cfg.name()),
                        format!(
                            "LALRPOP ({}) emitted a parser although the {} automaton has a conflict",
                            cfg.name(),
                            if cfg.criterion_is_lalr() { "LALR(1)" } else { "canonical LR(1)" }
                        ),
                        *cfg,
                    ));
                }
            }
            Observed::Conflict => {
                if !want_a {
                    let sig = if want_b {
                        "C03/spurious-conflict/empty-lookahead-context".to_string()
                    } else {
                        format!("C03/spurious-conflict/{}", cfg.name())
                    };
                    out.push((
                        sig,
                        format!(
                            "LALRPOP ({}) reported a conflict although the {} automaton is conflict-free for every pub symbol",
                            cfg.name(),
                            if cfg.criterion_is_lalr() { "LALR(1)" } else { "canonical LR(1)" }
                        ),
                        *cfg,
                    ));
                }
            }
            Observed::OtherError(m) => {
                out.push((format!("C03/other-error/{}", crate::run::normalise_msg(m)), format!("unexpected failure ({}): {m}", cfg.name()), *cfg))
            }
            Observed::Panic(_) | Observed::Timeout => { /* C18 domain */ }
        }
    }
    out
}

fn replay_json(tape_bytes: &[u8], c: &CaseOut, cfg: Cfg4) -> Value {
    let mvs: Vec<Value> = match &c.mv {
        Ok(mv) => mv
            .per_start
            .iter()
            .map(|(n, a, b)| {
                json!({"start": n, "lr1_conflict": a.lr1_conflict, "lalr_conflict": a.lalr_conflict, "lr1_states": a.lr1_states,
                       "variant_b_lr1_conflict": b.lr1_conflict, "variant_b_lalr_conflict": b.lalr_conflict})
            })
            .collect(),
        Err(e) => vec![json!(e)],
    };
    json!({
        "tape_hex": tape::hex(tape_bytes),
        "spec": serde_json::to_value(&c.spec).unwrap_or(Value::Null),
        "grammar": c.text,
        "config": cfg.name(),
        "model": mvs,
        "observed": c.obs.iter().map(|(k, o)| json!({"config": k.name(), "outcome": format!("{o:?}")})).collect::<Vec<_>>(),
    })
}

fn replay_case(ctx: &Ctx, ck: &mut Checker, v: &Value) {
    // self-contained: the stored grammar spec is re-evaluated (the tape is kept for reference)
    let tp = tape::unhex(v["tape_hex"].as_str().unwrap_or(""));
    let c = match serde_json::from_value::<GSpec>(v["spec"].clone()) {
        Ok(spec) => eval_spec_cfgs(ctx, 0, spec, vec![], "replay", &Cfg4::ALL),
        Err(_) => {
            let c = eval_tape(ctx, 0, &tp, "replay");
            if Some(c.text.as_str()) != v["grammar"].as_str() {
                ck.infra("pinned replay without a stored spec: the tape no longer decodes to the stored grammar text; regenerate the repro");
                return;
            }
            c
        }
    };
    ck.eval();
    for (sig, what, cfg) in judge(&c) {
        ck.violation(&sig, &what, replay_json(&tp, &c, cfg));
    }
}

pub fn run(ctx: Ctx, replay: Option<PathBuf>) -> i32 {
    let mut ck = Checker::new(ctx.clone(), "exploration", RULE);
    ck.assume("own textbook LR(1)/LALR(1) construction and the model expansion of `? * +`, groups and #[inline] (A.4, A.5)");
    if let Some(p) = replay {
        ck.strict = true;
        match super::load_replay(&p) {
            Ok(v) => replay_case(&ctx, &mut ck, &v),
            Err(c) => return c,
        }
        return ck.finish();
    }
    {
        let c2 = ctx.clone();
        ck.replay_listed(|ck, v| replay_case(&c2, ck, v));
    }
    let n = ctx.tier.pick(1200usize, 60_000usize);
    let n = std::env::var("VERIF_N").ok().and_then(|s| s.parse().ok()).unwrap_or(n);
    let tapes = tape::sample_tapes(ctx.seed, n, 8, 160);
    let idx: Vec<usize> = (0..tapes.len()).collect();
    let outs: Vec<CaseOut> = par_map(&idx, ctx.threads, |_, &i| eval_tape(&ctx, i, &tapes[i], "run"));
    let mut first: std::collections::BTreeMap<String, (usize, String, Cfg4)> = Default::default();
    for (i, c) in outs.iter().enumerate() {
        let mv = match &c.mv {
            Ok(mv) => mv,
            Err(_) => {
                ck.skip("model could not expand the grammar (recursive inline / too large)");
                continue;
            }
        };
        if mv.aborted {
            ck.skip("own LR(1) construction exceeded 4000 states");
            continue;
        }
        ck.class(&format!("class:{}", mv.class.name()));
        for tg in &c.tags {
            ck.class(tg);
        }
        for (cfg, o) in &c.obs {
            ck.eval();
            match o {
                Observed::Accepted => ck.class("lalrpop_accepted"),
                Observed::Conflict => ck.class("lalrpop_conflict"),
                Observed::Panic(_) => ck.class("lalrpop_panicked(C18 domain)"),
                Observed::Timeout => ck.class("lalrpop_timeout"),
                Observed::OtherError(_) => ck.class("lalrpop_other_error"),
            }
            if mv.class != Class::Lr0 {
                ck.nontrivial(&(c.text.clone(), cfg.name()));
            }
        }
        if mv.class == Class::Lr1NotLalr {
            let lane_ok = c.obs.iter().any(|(k, o)| *k == Cfg4::Lane && *o == Observed::Accepted);
            let lalr_rej = c.obs.iter().any(|(k, o)| *k == Cfg4::Lalr && *o == Observed::Conflict);
            if lane_ok && lalr_rej {
                ck.class("lr1-not-lalr: accepted by lane, rejected by LALR");
            }
        }
        if ck.want_sample() && i % 97 == 0 {
            ck.sample(json!({"grammar": c.text, "class": mv.class.name(), "tags": c.tags,
                "observed": c.obs.iter().map(|(k, o)| format!("{}: {:?}", k.name(), o)).collect::<Vec<_>>()}));
        }
        for (sig, what, cfg) in judge(c) {
            if ck.is_known(&sig) {
                ck.violation(&sig, &what, replay_json(&tapes[i], c, cfg));
            } else {
                first.entry(sig).or_insert((i, what, cfg));
            }
        }
    }
    for (sig, (i, what, cfg)) in first {
        // minimise: keep the same signature
        let small = tape::shrink_tape_par(&tapes[i], 40, 64, ctx.threads, |cand| {
            let sub = format!("shrink/{:016x}", crate::core::hash_of(&cand));
            let c = eval_tape_cfgs(&ctx, 0, cand, &sub, &[cfg]);
            let _ = std::fs::remove_dir_all(ctx.work.join(&sub));
            judge(&c).iter().any(|(s, _, _)| *s == sig)
        });
        let c = eval_tape(&ctx, 0, &small, "shrink");
        let cfg = judge(&c).iter().find(|(s, _, _)| *s == sig).map(|x| x.2).unwrap_or(cfg);
        ck.violation(&sig, &what, replay_json(&small, &c, cfg));
    }
    ck.finish()
}
