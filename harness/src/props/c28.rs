//! C28 - ParseError helpers transform and display errors as documented.
//!
//! Domain: all `ParseError<L,T,E>` over small domains, decoded from a tape.
//! Oracle: field-wise reference for the three `map_*` helpers (with call
//! counting and argument recording), composition laws, a reference formatter
//! written from the doc comments for `Display`, and `From<E>`.

use crate::core::{Checker, Ctx};
use crate::tape::{self, Tape};
use lalrpop_util::ParseError;
use serde_json::{json, Value};
use std::cell::RefCell;
use std::fmt;
use std::path::PathBuf;

#[derive(Clone, Copy, Debug, PartialEq, Eq, Hash)]
enum Tok {
    A,
    B,
    C,
}
impl fmt::Display for Tok {
    fn fmt(&self, f: &mut fmt::Formatter<'_>) -> fmt::Result {
        f.write_str(match self {
            Tok::A => "tokA",
            Tok::B => "+",
            Tok::C => "`c`",
        })
    }
}
#[derive(Clone, Copy, Debug, PartialEq, Eq, Hash)]
enum UErr {
    X,
    Y,
    Z,
}
impl fmt::Display for UErr {
    fn fmt(&self, f: &mut fmt::Formatter<'_>) -> fmt::Result {
        f.write_str(match self {
            UErr::X => "user error x",
            UErr::Y => "",
            UErr::Z => "z\nz",
        })
    }
}

type PE = ParseError<u8, Tok, UErr>;

const WORDS: &[&str] = &[
    "a", "b", "\"+\"", "r#\"[a-z]+\"#", "ID", "", " ", "or", ",", "Expected one of", "é", "x y",
];

fn gen_expected(t: &mut Tape) -> Vec<String> {
    let n = t.below(7);
    (0..n)
        .map(|_| {
            if t.chance(64) {
                // arbitrary printable string
                let len = t.below(6);
                (0..len).map(|_| (0x20 + t.below(0x5f) as u8) as char).collect()
            } else {
                t.pick(WORDS).to_string()
            }
        })
        .collect()
}

fn gen_case(t: &mut Tape) -> PE {
    let tok = |t: &mut Tape| *t.pick(&[Tok::A, Tok::B, Tok::C]);
    match t.below(5) {
        0 => ParseError::InvalidToken { location: t.below(8) as u8 },
        1 => ParseError::UnrecognizedEof { location: t.below(8) as u8, expected: gen_expected(t) },
        2 => {
            let s = t.below(8) as u8;
            let k = tok(t);
            let e = t.below(8) as u8;
            ParseError::UnrecognizedToken { token: (s, k, e), expected: gen_expected(t) }
        }
        3 => {
            let s = t.below(8) as u8;
            let k = tok(t);
            let e = t.below(8) as u8;
            ParseError::ExtraToken { token: (s, k, e) }
        }
        _ => ParseError::User { error: *t.pick(&[UErr::X, UErr::Y, UErr::Z]) },
    }
}

// ---- reference model (written from the doc comments, not from the code) ----

fn ref_map<L2, T2, E2>(
    e: &PE,
    fl: impl Fn(u8) -> L2,
    ft: impl Fn(Tok) -> T2,
    fe: impl Fn(UErr) -> E2,
) -> ParseError<L2, T2, E2> {
    match e {
        ParseError::InvalidToken { location } => ParseError::InvalidToken { location: fl(*location) },
        ParseError::UnrecognizedEof { location, expected } => {
            ParseError::UnrecognizedEof { location: fl(*location), expected: expected.clone() }
        }
        ParseError::UnrecognizedToken { token: (s, t, e2), expected } => ParseError::UnrecognizedToken {
            token: (fl(*s), ft(*t), fl(*e2)),
            expected: expected.clone(),
        },
        ParseError::ExtraToken { token: (s, t, e2) } => ParseError::ExtraToken { token: (fl(*s), ft(*t), fl(*e2)) },
        ParseError::User { error } => ParseError::User { error: fe(*error) },
    }
}

fn ref_locations(e: &PE) -> Vec<u8> {
    match e {
        ParseError::InvalidToken { location } | ParseError::UnrecognizedEof { location, .. } => vec![*location],
        ParseError::UnrecognizedToken { token: (s, _, e2), .. } | ParseError::ExtraToken { token: (s, _, e2) } => {
            vec![*s, *e2]
        }
        ParseError::User { .. } => vec![],
    }
}

fn ref_expected(exp: &[String]) -> String {
    match exp.len() {
        0 => String::new(),
        1 => format!("\nExpected one of {}", exp[0]),
        n => format!("\nExpected one of {} or {}", exp[..n - 1].join(", "), exp[n - 1]),
    }
}

fn ref_display(e: &PE) -> String {
    match e {
        ParseError::User { error } => format!("{error}"),
        ParseError::InvalidToken { location } => format!("Invalid token at {location}"),
        ParseError::UnrecognizedEof { location, expected } => {
            format!("Unrecognized EOF found at {location}{}", ref_expected(expected))
        }
        ParseError::UnrecognizedToken { token: (s, t, e2), expected } => {
            format!("Unrecognized token `{t}` found at {s}:{e2}{}", ref_expected(expected))
        }
        ParseError::ExtraToken { token: (s, t, e2) } => format!("Extra token {t} found at {s}:{e2}"),
    }
}

fn check_case(e: &PE) -> Result<(), (String, String)> {
    // map_location: value, number of calls, arguments (as a multiset - the
    // statement does not fix the order of the two calls).
    let calls: RefCell<Vec<u8>> = RefCell::new(vec![]);
    let got = e.clone().map_location(|l| {
        calls.borrow_mut().push(l);
        (l as u32) * 3 + 1
    });
    let want = ref_map(e, |l| (l as u32) * 3 + 1, |t| t, |x| x);
    if got != want {
        return Err(("C28/map_location/value".into(), format!("map_location gave {got:?}, reference {want:?}")));
    }
    let mut c = calls.into_inner();
    let mut w = ref_locations(e);
    c.sort();
    w.sort();
    if c != w {
        return Err((
            "C28/map_location/calls".into(),
            format!("map_location called the function on {c:?}, the error holds locations {w:?}"),
        ));
    }
    // map_token / map_error touch only their field
    let got = e.clone().map_token(|t| format!("<{t:?}>"));
    let want = ref_map(e, |l| l, |t| format!("<{t:?}>"), |x| x);
    if got != want {
        return Err(("C28/map_token/value".into(), format!("map_token gave {got:?}, reference {want:?}")));
    }
    let got = e.clone().map_error(|x| format!("<{x:?}>"));
    let want = ref_map(e, |l| l, |t| t, |x| format!("<{x:?}>"));
    if got != want {
        return Err(("C28/map_error/value".into(), format!("map_error gave {got:?}, reference {want:?}")));
    }
    // composition
    let f = |l: u8| l as u16 + 7;
    let g = |l: u16| (l * 2) as u64;
    let a = e.clone().map_location(f).map_location(g);
    let b = e.clone().map_location(|l| g(f(l)));
    if a != b {
        return Err(("C28/map_location/composition".into(), format!("{a:?} != {b:?}")));
    }
    // commuting maps
    let a = e.clone().map_token(|t| t as u8).map_error(|x| x as u8).map_location(|l| l as i32 - 3);
    let b = e.clone().map_location(|l| l as i32 - 3).map_error(|x| x as u8).map_token(|t| t as u8);
    let want = ref_map(e, |l| l as i32 - 3, |t| t as u8, |x| x as u8);
    if a != b || a != want {
        return Err(("C28/map/commute".into(), format!("{a:?} / {b:?} / reference {want:?}")));
    }
    // Display
    let got = format!("{e}");
    let want = ref_display(e);
    if got != want {
        return Err(("C28/display".into(), format!("Display gave {got:?}, documented form {want:?}")));
    }
    // From<E>
    if let ParseError::User { error } = e {
        let from: PE = (*error).into();
        if from != *e {
            return Err(("C28/from".into(), format!("From gave {from:?}")));
        }
    }
    Ok(())
}

fn nontrivial(e: &PE) -> bool {
    match e {
        ParseError::UnrecognizedToken { token: (s, _, e2), expected } => s != e2 || expected.len() >= 2,
        ParseError::ExtraToken { token: (s, _, e2) } => s != e2,
        ParseError::UnrecognizedEof { expected, .. } => expected.len() >= 2,
        _ => false,
    }
}

fn replay_case(ck: &mut Checker, v: &Value) {
    let tape = tape::unhex(v["tape_hex"].as_str().unwrap_or(""));
    let e = gen_case(&mut Tape::new(&tape));
    ck.eval();
    if let Err((sig, what)) = check_case(&e) {
        ck.violation(&sig, &what, json!({"tape_hex": tape::hex(&tape), "case": format!("{e:?}")}));
    }
}

pub fn run(ctx: Ctx, replay: Option<PathBuf>) -> i32 {
    let mut ck = Checker::new(
        ctx.clone(),
        "exploration",
        "ParseError<u8,Tok,UErr> values decoded from proptest byte tapes (5 variants, locations 0..8, 3 tokens, 3 user errors, \
         expected lists of 0..6 strings incl. empty/odd strings); non-trivial = token variant with start != end, or an expected list of >= 2 entries; \
         distinct = distinct decoded value",
    );
    ck.assume("reference formatter and field-wise map written from the doc comments of lalrpop-util/src/lib.rs");
    if let Some(p) = replay {
        ck.strict = true;
        match super::load_replay(&p) {
            Ok(v) => replay_case(&mut ck, &v),
            Err(c) => return c,
        }
        return ck.finish();
    }
    ck.replay_listed(replay_case);
    let cases = ctx.tier.pick(200_000u32, 1_000_000u32);
    let state = RefCell::new((ck, false));
    let fail = tape::run_tapes(ctx.seed, cases, 0, 40, |t| {
        let e = gen_case(&mut Tape::new(t));
        let mut st = state.borrow_mut();
        let (ck, failed) = &mut *st;
        if !*failed {
            ck.eval();
            let name = match &e {
                ParseError::InvalidToken { .. } => "InvalidToken",
                ParseError::UnrecognizedEof { .. } => "UnrecognizedEof",
                ParseError::UnrecognizedToken { .. } => "UnrecognizedToken",
                ParseError::ExtraToken { .. } => "ExtraToken",
                ParseError::User { .. } => "User",
            };
            ck.class(name);
            if nontrivial(&e) {
                ck.nontrivial(&format!("{e:?}"));
                if ck.want_sample() && ck.evaluations % 7 == 0 {
                    ck.sample(json!({"case": format!("{e:?}"), "display": format!("{e}")}));
                }
            }
        }
        match check_case(&e) {
            Ok(()) => Ok(()),
            Err((sig, what)) => {
                *failed = true;
                Err(format!("{sig}|{what}"))
            }
        }
    });
    let (mut ck, _) = state.into_inner();
    if let Some(f) = fail {
        let e = gen_case(&mut Tape::new(&f.tape));
        let (sig, what) = f.message.split_once('|').map(|(a, b)| (a.to_string(), b.to_string())).unwrap_or((
            "C28/unknown".into(),
            f.message.clone(),
        ));
        ck.violation(&sig, &what, json!({"tape_hex": tape::hex(&f.tape), "case": format!("{e:?}")}));
    }
    ck.finish()
}
