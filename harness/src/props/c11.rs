//! C11 - lexer ambiguity is reported exactly when two equal-precedence
//! terminals overlap.
//!
//! Domain: 2-5 literal/regex terminals in one rung (no `match`) or 1-3 rungs,
//! biased towards partial overlaps, incl. non-ASCII literals vs Unicode
//! classes; plus regexes using look-around, non-greedy repetition, named
//! captures.
//! Oracle: dense anchored DFAs (regex-automata) per pattern and a product BFS
//! (lexoverlap) deciding whether some string is matched in full by two
//! patterns of equal precedence and by no pattern of higher precedence.

use crate::core::{par_map, Checker, Ctx};
use crate::lexgen::{gen_spec, gen_unsupported_regex, SpecOpts};
use crate::lexmodel::{extract, model_json, run_lalrpop, Entry, Item, LalrOut, LexSpec, Mapping, Pat, RealEnd, RealLexer, Tally, Term};
use crate::lexoverlap::{analyse, bytewise_literals, dfa_from_hir, has_non_ascii_literal, pat_hir, prec_key, relation, OverlapReport};
use crate::tape::{self, Tape};
use regex_syntax::hir::{Hir, HirKind};
use serde_json::{json, Value};
use std::path::{Path, PathBuf};

const OPTS: SpecOpts =
    SpecOpts { min_pats: 2, max_pats: 5, allow_skip: false, allow_rename: true, allow_unused: false, gen_regex_p: 45, separate_p: 40 };
const BFS_CAP: usize = 150_000;

/// look-around / non-greedy repetition / named capture anywhere in the HIR
fn unsupported_feature(h: &Hir) -> Option<&'static str> {
    match h.kind() {
        HirKind::Look(_) => Some("look"),
        HirKind::Empty | HirKind::Literal(_) | HirKind::Class(_) => None,
        HirKind::Repetition(r) => {
            if !r.greedy {
                Some("lazy")
            } else {
                unsupported_feature(&r.sub)
            }
        }
        HirKind::Capture(c) => {
            if c.name.is_some() {
                Some("named")
            } else {
                unsupported_feature(&c.sub)
            }
        }
        HirKind::Concat(v) | HirKind::Alternation(v) => v.iter().find_map(unsupported_feature),
    }
}

struct Case {
    spec: LexSpec,
    /// feature the generator injected on purpose (if any)
    injected: Option<&'static str>,
}

fn gen_case(tape: &[u8]) -> Case {
    let mut t = Tape::new(tape);
    let (mut spec, _) = gen_spec(&mut t, &OPTS);
    let mut injected = None;
    if t.chance(30) {
        let (r, kind) = gen_unsupported_regex(&mut t);
        let p = Pat::Re(r);
        if !spec.entries().iter().any(|e| e.pat == p) {
            match spec.rungs.as_mut() {
                Some(rungs) => {
                    let k = t.below(rungs.len());
                    rungs[k].push(Item::Entry { pat: p, map: Mapping::Id });
                }
                None => spec.extra.push(p),
            }
            injected = Some(kind);
        }
    }
    Case { spec, injected }
}

fn entries_from_json(v: &Value) -> Vec<Entry> {
    v.as_array()
        .map(|a| {
            a.iter()
                .map(|e| {
                    let text = e["text"].as_str().unwrap_or("").to_string();
                    Entry {
                        pat: if e["kind"] == "lit" { Pat::Lit(text) } else { Pat::Re(text) },
                        rung: e["rung"].as_u64().unwrap_or(0) as usize,
                        term: e["term"].as_str().map(|s| Term::Bare(s.to_string())),
                    }
                })
                .collect()
        })
        .unwrap_or_default()
}

fn witness_str(w: &[u8]) -> String {
    String::from_utf8_lossy(w).into_owned()
}

/// Both patterns of a pair, as rendered in the generated table, match the
/// witness in full at run time? (evidence for the replay file)
fn runtime_confirms(rs: &str, entries: &[Entry], i: usize, j: usize, w: &str) -> Option<bool> {
    if w.is_empty() {
        return None;
    }
    let ex = extract(rs).ok()?;
    let mut all = true;
    for k in [i, j] {
        let name = entries[k].term.as_ref()?.display();
        let ks = ex.patterns_of(&name);
        let real = RealLexer::single(&ex.strs[*ks.first()?].0).ok()?;
        let run = real.run(w);
        all &= run.toks.len() == 1 && run.toks[0].2 == w.len() && run.end == RealEnd::Eof;
    }
    Some(all)
}

fn eval_text(cli: &Path, dir: &Path, text: &str, entries: &[Entry], injected: Option<&'static str>, tape_hex: &str, tl: &mut Tally) {
    tl.evals += 1;
    let replay = |expected: Value, observed: Value| {
        json!({
            "tape_hex": tape_hex,
            "grammars": [{"name": "g.lalrpop", "text": text}],
            "model": model_json(entries),
            "expected": expected,
            "observed": observed,
        })
    };
    // ---- what the statement demands -------------------------------------
    let mut hirs = vec![];
    for e in entries {
        match pat_hir(&e.pat) {
            Ok(h) => hirs.push(h),
            Err(_) => {
                tl.skip("a generated regex is not valid Rust regex syntax (generator filter)");
                return;
            }
        }
    }
    let unsupported = hirs.iter().find_map(unsupported_feature);
    if injected.is_some() && unsupported.is_none() {
        tl.skip("injected unsupported construct was simplified away by regex-syntax (grey)");
    }
    let out = run_lalrpop(cli, dir, text);
    match &out {
        LalrOut::Timeout => {
            tl.inconclusive += 1;
            tl.infra.push("lalrpop timed out".into());
            return;
        }
        LalrOut::Infra(m) => {
            tl.infra.push(m.clone());
            return;
        }
        _ => {}
    }
    if let Some(kind) = unsupported {
        tl.class(&format!("unsupported_{kind}"));
        match &out {
            LalrOut::Unsupported(_) => tl.class("verdict_unsupported_diagnostic"),
            other => tl.violation(
                &format!("C11/unsupported-feature/{}/{}", kind, other.name()),
                &format!("a terminal uses {kind}; expected the `not supported in regular expressions` diagnostic, got {}: {}", other.name(), other.detail()),
                replay(json!("unsupported-feature diagnostic"), json!({"verdict": other.name(), "detail": other.detail()})),
            ),
        }
        return;
    }
    let rep = match analyse(entries, &hirs, BFS_CAP) {
        Ok(r) => r,
        Err(e) => {
            tl.skip(&format!("oracle DFA not built: {}", e.chars().take(40).collect::<String>()));
            return;
        }
    };
    if !rep.unknown.is_empty() && rep.overlaps.is_empty() {
        tl.skip("oracle product BFS hit its state cap");
        return;
    }
    classify(entries, &hirs, &rep, text, tl);
    let want_ambig = rep.ambiguous();
    let got_ambig = match &out {
        LalrOut::Ambiguity(_) => true,
        LalrOut::Accepted(_) => false,
        other => {
            tl.violation(
                &format!("C11/unexpected-outcome/{}", match other { LalrOut::Panic(p) => format!("panic/{p}"), o => o.name().to_string() }),
                &format!("supported terminals only, expected {}; lalrpop: {}", if want_ambig { "an ambiguity error" } else { "a parser" }, other.detail()),
                replay(json!(if want_ambig { "ambiguity" } else { "accepted" }), json!({"verdict": other.name(), "detail": other.detail()})),
            );
            return;
        }
    };
    tl.class(if got_ambig { "verdict_ambiguity" } else { "verdict_accepted" });
    if want_ambig == got_ambig {
        return;
    }
    // ---- disagreement: is it the byte-wise reading of non-ASCII literals (F7)?
    let bw: Vec<Hir> = hirs.iter().map(bytewise_literals).collect();
    let f7 = hirs.iter().any(has_non_ascii_literal)
        && analyse(entries, &bw, BFS_CAP).map(|r| r.unknown.is_empty() && r.ambiguous() == got_ambig).unwrap_or(false);
    if want_ambig {
        let (i, j, w) = rep.overlaps[0].clone();
        let ws = witness_str(&w);
        let confirms = if let LalrOut::Accepted(rs) = &out { runtime_confirms(rs, entries, i, j, &ws) } else { None };
        let sig = if f7 { "C11/non-ascii-literal-bytewise/missed-overlap".to_string() } else { "C11/missed-overlap".to_string() };
        tl.violation(
            &sig,
            &format!(
                "terminals {} and {} have equal precedence and both match {:?} (no higher-precedence terminal does), but lalrpop generated a parser{}",
                entries[i].pat.show(),
                entries[j].pat.show(),
                ws,
                if f7 { " [explained by reading non-ASCII literals byte by byte]" } else { "" }
            ),
            replay(
                json!({"verdict": "ambiguity", "pair": [entries[i].pat.show(), entries[j].pat.show()], "witness": ws}),
                json!({"verdict": "accepted", "both_rendered_patterns_match_witness_at_runtime": confirms}),
            ),
        );
    } else {
        let sig = if f7 { "C11/non-ascii-literal-bytewise/spurious-ambiguity".to_string() } else { "C11/spurious-ambiguity".to_string() };
        tl.violation(
            &sig,
            &format!(
                "no two terminals of equal, maximal precedence share a string, but lalrpop reports: {}{}",
                out.detail(),
                if f7 { " [explained by reading non-ASCII literals byte by byte]" } else { "" }
            ),
            replay(json!({"verdict": "accepted", "shadowed_pairs": rep.shadowed.len()}), json!({"verdict": "ambiguity", "detail": out.detail()})),
        );
    }
}

fn classify(entries: &[Entry], hirs: &[Hir], rep: &OverlapReport, text: &str, tl: &mut Tally) {
    tl.class(if rep.ambiguous() { "oracle_ambiguous" } else { "oracle_unambiguous" });
    if !rep.ambiguous() && !rep.shadowed.is_empty() {
        tl.class("only_shadowed_ties (don't care, not asserted either way beyond the maximal-precedence rule)");
    }
    if rep.overlaps.iter().any(|o| o.2.is_empty()) {
        tl.class("witness_is_empty_string");
    }
    let non_ascii = entries.iter().any(|e| !e.pat.text().is_ascii()) || hirs.iter().any(has_non_ascii_literal);
    if non_ascii {
        tl.class("non_ascii_pattern");
    }
    if hirs.iter().any(has_non_ascii_literal) && rep.pairs > 0 {
        tl.class("non_ascii_literal_in_equal_precedence_pair_set");
    }
    let rungs = entries.iter().map(|e| e.rung).max().unwrap_or(0) + 1;
    tl.class(&format!("rungs_{rungs}"));
    // relation of equal-precedence pairs
    let mut partial = false;
    if rep.pairs > 0 {
        let dfas: Vec<_> = hirs.iter().map(|h| dfa_from_hir(h).ok()).collect();
        for i in 0..entries.len() {
            for j in i + 1..entries.len() {
                if prec_key(&entries[i]) != prec_key(&entries[j]) {
                    continue;
                }
                let (Some(a), Some(b)) = (&dfas[i], &dfas[j]) else { continue };
                match relation(a, b, 60_000) {
                    Some((true, true, true)) => {
                        partial = true;
                        tl.class("pair_partial_overlap");
                    }
                    Some((_, _, true)) => tl.class("pair_containment_or_equal"),
                    Some((_, _, false)) => tl.class("pair_disjoint"),
                    None => tl.class("pair_relation_unknown"),
                }
            }
        }
    } else {
        tl.class("no_equal_precedence_pair");
    }
    if partial || (non_ascii && rep.pairs > 0) {
        tl.nontrivial(&text);
        if tl.samples.is_empty() {
            tl.samples.push(json!({"grammar": text, "oracle_ambiguous": rep.ambiguous(),
                "witness": rep.overlaps.first().map(|o| witness_str(&o.2)), "partial_overlap": partial}));
        }
    }
}

fn eval_tape(ctx: &Ctx, idx: usize, tape: &[u8]) -> Tally {
    let mut tl = Tally::default();
    let case = gen_case(tape);
    let dir = ctx.work.join(format!("a{idx}"));
    eval_text(&ctx.cli, &dir, &case.spec.to_lalrpop(), &case.spec.entries(), case.injected, &tape::hex(tape), &mut tl);
    let _ = std::fs::remove_dir_all(&dir);
    tl
}

fn replay_case(ck: &mut Checker, v: &Value) {
    let text = v["grammars"][0]["text"].as_str().unwrap_or("").to_string();
    let entries = entries_from_json(&v["model"]);
    let mut tl = Tally::default();
    let dir = ck.ctx.work.join("replay_run");
    eval_text(&ck.ctx.cli, &dir, &text, &entries, None, v["tape_hex"].as_str().unwrap_or(""), &mut tl);
    tl.samples.clear();
    tl.skips.clear();
    tl.merge(ck);
}

pub fn run(ctx: Ctx, replay: Option<PathBuf>) -> i32 {
    let mut ck = Checker::new(
        ctx.clone(),
        "exploration",
        "2-5 literal/regex terminals (overlapping pools + generated regexes, sometimes one with look-around / non-greedy / named capture) in one rung or 1-3 match rungs; \
         non-trivial = grammar with an equal-precedence pair that overlaps partially (neither language contains the other) or with an equal-precedence pair and a non-ASCII pattern; \
         distinct = distinct grammar text",
    );
    ck.assume("'two terminals of equal precedence both match a common string' is decided on full matches by dense anchored DFAs (MatchKind::All) of the original patterns, product BFS with witness; a common string also matched by a strictly higher-precedence terminal is a don't-care (counted)");
    ck.assume("the empty string counts as a common string (LALRPOP's own check and the runtime both treat an empty match as a match)");
    ck.assume("the implicit whitespace skip and explicit skip rules are not terminals and are left out of the domain");
    if let Some(p) = replay {
        ck.strict = true;
        match super::load_replay(&p) {
            Ok(v) => replay_case(&mut ck, &v),
            Err(c) => return c,
        }
        return ck.finish();
    }
    ck.replay_listed(replay_case);
    let n = ctx.tier.pick(4000usize, 80_000usize);
    let tapes = tape::sample_tapes(ctx.seed, n, 0, 260);
    let tallies = par_map(&tapes, ctx.threads, |i, t| eval_tape(&ctx, i, t));
    let mut to_shrink: Vec<(String, usize)> = vec![];
    for (i, tl) in tallies.into_iter().enumerate() {
        for sig in tl.merge(&mut ck) {
            to_shrink.push((sig, i));
        }
    }
    for (sig, i) in to_shrink {
        let small = tape::shrink_tape(&tapes[i], 200, |t| eval_tape(&ctx, 1_000_000 + i, t).violations.iter().any(|v| v.0 == sig));
        let tl = eval_tape(&ctx, 1_000_000 + i, &small);
        if let Some((_, what, mut r)) = tl.violations.into_iter().find(|v| v.0 == sig) {
            let path = ctx.work.join("replay").join(format!("{}.min.json", crate::core::sanitize(&sig)));
            r["property"] = json!("C11");
            r["signature"] = json!(sig);
            r["what"] = json!(what);
            let _ = std::fs::write(&path, serde_json::to_string_pretty(&r).unwrap());
            println!("  minimised replay: {}", path.display());
        }
    }
    ck.finish()
}
