//! C22 - a crash during generation never leaves output that a later build accepts.
//!
//! Domain: small grammars x {--report on/off} x {in-source, -o out} x
//! {output absent / current / stale beforehand} x every crash point of the
//! build: (a) cumulative byte offsets of all regular-file writes
//! (`FAULT_BYTES`), (b) every boundary between file-system operations
//! (`FAULT_OP`), (c) "a write fails" instead of a kill (`FAULT_MODE=error`),
//! (d) sequences of one or two crashed builds (tape-generated), always
//! followed by one normal, non-forced build.
//!
//! Oracle: after the final normal build the `.rs` file (and with `--report`
//! the report) equals the output of a forced build of the current grammar in
//! a separate directory, byte for byte.
//!
//! Crash injection: LD_PRELOAD shim `faultinj/faultinj.c` (compiled here when
//! missing); a sample of byte crashes is repeated with `RLIMIT_FSIZE`
//! (kernel-enforced, no shim) and both must leave identical files.

use super::driver_common::{describe_bytes, header_len, valid_texts, RefBuilder};
use crate::core::{par_map, Checker, Ctx};
use crate::run::{Cmd, Exit};
use crate::tape::{self, Tape};
use serde_json::{json, Value};
use std::os::unix::process::{CommandExt, ExitStatusExt};
use std::path::{Path, PathBuf};
use std::process::{Command, Stdio};
use std::time::{Duration, Instant};

#[derive(Clone, Copy, Debug, PartialEq, Eq, Hash)]
enum Prior {
    Absent,
    Current,
    Stale,
}

impl Prior {
    fn name(self) -> &'static str {
        match self {
            Prior::Absent => "absent",
            Prior::Current => "current",
            Prior::Stale => "stale",
        }
    }
    fn from(s: &str) -> Prior {
        match s {
            "current" => Prior::Current,
            "stale" => Prior::Stale,
            _ => Prior::Absent,
        }
    }
}

#[derive(Clone, Debug, PartialEq, Eq, Hash)]
struct Scn {
    text: String,
    old_text: String,
    report: bool,
    outdir: bool,
    prior: Prior,
}

impl Scn {
    fn label(&self) -> String {
        format!(
            "g{:04x}/{}/{}/{}",
            crate::core::hash_of(&self.text) & 0xffff,
            if self.report { "report" } else { "noreport" },
            if self.outdir { "outdir" } else { "insrc" },
            self.prior.name()
        )
    }
    fn to_json(&self) -> Value {
        json!({"text": self.text, "old_text": self.old_text, "report": self.report, "outdir": self.outdir, "prior": self.prior.name()})
    }
    fn from_json(v: &Value) -> Scn {
        Scn {
            text: v["text"].as_str().unwrap_or("").to_string(),
            old_text: v["old_text"].as_str().unwrap_or("").to_string(),
            report: v["report"].as_bool().unwrap_or(false),
            outdir: v["outdir"].as_bool().unwrap_or(false),
            prior: Prior::from(v["prior"].as_str().unwrap_or("")),
        }
    }
}

#[derive(Clone, Copy, Debug, PartialEq, Eq, Hash)]
enum Fault {
    /// SIGKILL after k bytes in total went to regular files
    Bytes(u64),
    /// SIGKILL before the K-th file-system operation
    Op(u64),
    /// the write reaching byte k is shortened, later writes fail (ENOSPC)
    ErrBytes(u64),
    /// RLIMIT_FSIZE = k (no shim): kernel truncates, SIGXFSZ
    Rlimit(u64),
}

impl Fault {
    fn to_json(self) -> Value {
        match self {
            Fault::Bytes(k) => json!({"kind": "bytes", "k": k}),
            Fault::Op(k) => json!({"kind": "op", "k": k}),
            Fault::ErrBytes(k) => json!({"kind": "write-error", "k": k}),
            Fault::Rlimit(k) => json!({"kind": "rlimit-fsize", "k": k}),
        }
    }
    fn from_json(v: &Value) -> Fault {
        let k = v["k"].as_u64().unwrap_or(0);
        match v["kind"].as_str().unwrap_or("") {
            "op" => Fault::Op(k),
            "write-error" => Fault::ErrBytes(k),
            "rlimit-fsize" => Fault::Rlimit(k),
            _ => Fault::Bytes(k),
        }
    }
}

#[derive(Clone, Debug, PartialEq, Eq, Hash)]
struct Step {
    fault: Fault,
    /// the crashed build is run with --force
    force: bool,
}

#[derive(Clone, Debug, PartialEq, Eq, Hash)]
struct Case {
    scn: Scn,
    steps: Vec<Step>,
    /// origin: "bytes", "ops", "write-error", "sequence", "rlimit"
    family: &'static str,
    tape_hex: String,
}

impl Case {
    fn to_json(&self) -> Value {
        json!({
            "scenario": self.scn.to_json(),
            "crashed_builds": self.steps.iter().map(|s| { let mut v = s.fault.to_json(); v["force"] = json!(s.force); v }).collect::<Vec<_>>(),
            "then": "one normal non-forced build with the same flags",
            "family": self.family,
            "tape_hex": self.tape_hex,
        })
    }
    fn from_json(v: &Value) -> Case {
        Case {
            scn: Scn::from_json(&v["scenario"]),
            steps: v["crashed_builds"]
                .as_array()
                .map(|a| a.iter().map(|s| Step { fault: Fault::from_json(s), force: s["force"].as_bool().unwrap_or(false) }).collect())
                .unwrap_or_default(),
            family: "replay",
            tape_hex: v["tape_hex"].as_str().unwrap_or("").to_string(),
        }
    }
}

/// One traced operation of an uninterrupted build.
#[derive(Clone, Debug)]
struct TraceOp {
    kind: String,
    bytes_before: u64,
    n: u64,
}

/// What an uninterrupted build of a scenario does (from the shim's trace).
#[derive(Clone, Debug)]
struct Profile {
    ops: Vec<TraceOp>,
    total: u64,
    /// byte ranges [start, end) of each file written, in order of creation
    files: Vec<(u64, u64)>,
    /// start offset of the final .rs file within the byte stream
    rs_start: u64,
    /// length of the two header lines of the reference output
    header: u64,
}

struct Env {
    ctx: Ctx,
    shim: PathBuf,
    refs: RefBuilder,
}

fn ensure_shim(ctx: &Ctx) -> Result<PathBuf, String> {
    let src = ctx.root.join("faultinj/faultinj.c");
    let dir = ctx.root.join("target/faultinj");
    let so = dir.join("faultinj.so");
    let fresh = match (std::fs::metadata(&src), std::fs::metadata(&so)) {
        (Ok(s), Ok(o)) => match (s.modified(), o.modified()) {
            (Ok(sm), Ok(om)) => om >= sm,
            _ => true,
        },
        (Err(_), Ok(_)) => true,
        _ => false,
    };
    if fresh {
        return Ok(so);
    }
    if !src.exists() {
        return Err(format!("{} missing", src.display()));
    }
    let _ = std::fs::create_dir_all(&dir);
    let tmp = dir.join(format!("faultinj.{}.so", std::process::id()));
    let out = Cmd::new("cc")
        .args(["-O1", "-shared", "-fPIC", "-o"])
        .arg(tmp.as_os_str())
        .arg(src.as_os_str())
        .arg("-ldl")
        .timeout_s(120)
        .run();
    if !out.ok() {
        return Err(format!("cc failed for faultinj.c: {:?} {}", out.exit, out.stderr));
    }
    std::fs::rename(&tmp, &so).map_err(|e| e.to_string())?;
    Ok(so)
}

struct RunRes {
    exit: Exit,
    stderr: String,
}

/// Run the CLI once in `dir`. `fault` selects the injection mechanism.
fn run_cli(env: &Env, dir: &Path, scn: &Scn, force: bool, fault: Option<Fault>, trace: Option<&Path>) -> RunRes {
    let mut c = Command::new(&env.ctx.cli);
    if force {
        c.arg("--force");
    }
    if scn.report {
        c.arg("--report");
    }
    if scn.outdir {
        c.arg("-o").arg("out");
    }
    c.arg("g.lalrpop");
    c.current_dir(dir);
    for (k, _) in std::env::vars() {
        if k.starts_with("CARGO_FEATURE_") || k == "OUT_DIR" || k == "LALRPOP_LANE_TABLE" || k.starts_with("FAULT_") || k == "LD_PRELOAD" {
            c.env_remove(k);
        }
    }
    c.env("RUST_BACKTRACE", "0");
    let mut rlimit = None;
    match fault {
        Some(Fault::Rlimit(k)) => rlimit = Some(k),
        Some(f) => {
            c.env("LD_PRELOAD", &env.shim);
            match f {
                Fault::Bytes(k) => {
                    c.env("FAULT_BYTES", k.to_string());
                }
                Fault::ErrBytes(k) => {
                    c.env("FAULT_BYTES", k.to_string());
                    c.env("FAULT_MODE", "error");
                }
                Fault::Op(k) => {
                    c.env("FAULT_OP", k.to_string());
                }
                Fault::Rlimit(_) => {}
            }
        }
        None => {}
    }
    if let Some(t) = trace {
        c.env("LD_PRELOAD", &env.shim);
        c.env("FAULT_TRACE", t);
    }
    if let Some(k) = rlimit {
        // SAFETY: only async-signal-safe calls (setrlimit) between fork and exec.
        unsafe {
            c.pre_exec(move || {
                let lim = libc::rlimit { rlim_cur: k as libc::rlim_t, rlim_max: k as libc::rlim_t };
                if libc::setrlimit(libc::RLIMIT_FSIZE, &lim) != 0 {
                    return Err(std::io::Error::last_os_error());
                }
                let core = libc::rlimit { rlim_cur: 0, rlim_max: 0 };
                libc::setrlimit(libc::RLIMIT_CORE, &core);
                Ok(())
            });
        }
    }
    c.stdin(Stdio::null()).stdout(Stdio::null()).stderr(Stdio::piped());
    let start = Instant::now();
    let mut child = match c.spawn() {
        Ok(ch) => ch,
        Err(e) => return RunRes { exit: Exit::SpawnError(e.to_string()), stderr: String::new() },
    };
    let mut se = child.stderr.take().unwrap();
    let t_err = std::thread::spawn(move || {
        use std::io::Read;
        let mut v = Vec::new();
        let _ = se.read_to_end(&mut v);
        v
    });
    let mut sleep = Duration::from_micros(300);
    let exit = loop {
        match child.try_wait() {
            Ok(Some(st)) => {
                break if let Some(c) = st.code() { Exit::Code(c) } else { Exit::Signal(st.signal().unwrap_or(-1)) };
            }
            Ok(None) => {
                if start.elapsed() > Duration::from_secs(120) {
                    let _ = child.kill();
                    let _ = child.wait();
                    break Exit::Timeout;
                }
                std::thread::sleep(sleep);
                if sleep < Duration::from_millis(4) {
                    sleep *= 2;
                }
            }
            Err(e) => break Exit::SpawnError(e.to_string()),
        }
    };
    let stderr = String::from_utf8_lossy(&t_err.join().unwrap_or_default()).into_owned();
    RunRes { exit, stderr }
}

/// All regular files below `dir` except the grammar: name (digit runs
/// normalised, so process-specific temporary names compare equal) -> bytes.
fn dir_state(dir: &Path) -> std::collections::BTreeMap<String, Vec<u8>> {
    fn rec(root: &Path, d: &Path, out: &mut std::collections::BTreeMap<String, Vec<u8>>) {
        let Ok(rd) = std::fs::read_dir(d) else { return };
        for e in rd.flatten() {
            let p = e.path();
            if p.is_dir() {
                rec(root, &p, out);
            } else {
                let rel = p.strip_prefix(root).unwrap_or(&p).to_string_lossy().into_owned();
                if rel == "g.lalrpop" {
                    continue;
                }
                let mut name = String::new();
                let mut in_digits = false;
                for c in rel.chars() {
                    if c.is_ascii_digit() {
                        if !in_digits {
                            name.push('N');
                        }
                        in_digits = true;
                    } else {
                        in_digits = false;
                        name.push(c);
                    }
                }
                out.insert(name, std::fs::read(&p).unwrap_or_default());
            }
        }
    }
    let mut out = Default::default();
    rec(dir, dir, &mut out);
    out
}

fn rs_path(dir: &Path, scn: &Scn) -> PathBuf {
    if scn.outdir {
        dir.join("out/g.rs")
    } else {
        dir.join("g.rs")
    }
}
fn report_path(dir: &Path, scn: &Scn) -> PathBuf {
    rs_path(dir, scn).with_extension("report")
}

/// Create the scenario's starting state in a fresh directory.
fn setup(env: &Env, dir: &Path, scn: &Scn) -> Result<(), String> {
    let _ = std::fs::remove_dir_all(dir);
    std::fs::create_dir_all(dir).map_err(|e| e.to_string())?;
    std::fs::write(dir.join("g.lalrpop"), &scn.text).map_err(|e| e.to_string())?;
    let src = match scn.prior {
        Prior::Absent => return Ok(()),
        Prior::Current => &scn.text,
        Prior::Stale => &scn.old_text,
    };
    // The prior output is what a complete earlier build left behind.
    let r = env.refs.build(src, scn.report);
    let rs = r.rs.ok_or("reference build gave no output")?;
    let p = rs_path(dir, scn);
    std::fs::create_dir_all(p.parent().unwrap()).map_err(|e| e.to_string())?;
    std::fs::write(&p, rs).map_err(|e| e.to_string())?;
    if scn.report {
        std::fs::write(report_path(dir, scn), r.report.ok_or("reference build gave no report")?).map_err(|e| e.to_string())?;
    }
    Ok(())
}

fn profile(env: &Env, scn: &Scn, idx: usize) -> Result<Profile, String> {
    let dir = env.ctx.work.join(format!("profile/p{idx}"));
    setup(env, &dir, scn)?;
    let tr = dir.join("trace.txt");
    let force = scn.prior == Prior::Current;
    let r = run_cli(env, &dir, scn, force, None, Some(&tr));
    if r.exit != Exit::Code(0) {
        return Err(format!("uninterrupted traced build failed: {:?} {}", r.exit, r.stderr));
    }
    let text = std::fs::read_to_string(&tr).map_err(|e| format!("no trace written by the shim: {e}"))?;
    let mut ops = vec![];
    for line in text.lines() {
        let mut it = line.splitn(4, ' ');
        let _num = it.next();
        let kind = it.next().unwrap_or("").to_string();
        let before: u64 = it.next().and_then(|s| s.parse().ok()).unwrap_or(0);
        let detail = it.next().unwrap_or("");
        let n = detail.split("n=").nth(1).and_then(|s| s.trim().parse().ok()).unwrap_or(0);
        ops.push(TraceOp { kind, bytes_before: before, n });
    }
    let total = ops.iter().filter(|o| o.kind == "write").map(|o| o.bytes_before + o.n).max().unwrap_or(0);
    let mut starts: Vec<u64> = ops.iter().filter(|o| o.kind == "open").map(|o| o.bytes_before).collect();
    starts.push(total);
    let files: Vec<(u64, u64)> = starts.windows(2).map(|w| (w[0], w[1])).filter(|(a, b)| b > a).collect();
    let rref = env.refs.build(&scn.text, scn.report);
    let rs = rref.rs.ok_or("no reference output")?;
    // the uninterrupted build under the shim must itself produce the reference
    let got = std::fs::read(rs_path(&dir, scn)).ok();
    if got.as_deref() != Some(&rs[..]) {
        return Err("build under the transparent shim differs from the reference build".into());
    }
    if total < rs.len() as u64 || (!scn.report && total != rs.len() as u64) {
        return Err(format!("shim counted {total} bytes, the output alone has {}", rs.len()));
    }
    let header = header_len(&rs).ok_or("reference output has no two header lines")? as u64;
    let _ = std::fs::remove_dir_all(&dir);
    Ok(Profile { ops, total, files, rs_start: total - rs.len() as u64, header })
}

/// Where a fault lands, relative to the uninterrupted profile.
fn phase(p: &Profile, f: Fault) -> &'static str {
    match f {
        Fault::Bytes(k) | Fault::ErrBytes(k) | Fault::Rlimit(k) => {
            if k >= p.total {
                "after-last-byte"
            } else if k < p.rs_start {
                "report"
            } else if k < p.rs_start + p.header - 1 {
                "rs-header"
            } else {
                "rs-body"
            }
        }
        Fault::Op(k) => {
            if k == 0 || k as usize > p.ops.len() {
                "after-last-op"
            } else {
                match p.ops[k as usize - 1].kind.as_str() {
                    "unlink" => "before-unlink",
                    "open" => "before-create",
                    "mkdir" => "before-mkdir",
                    "rename" => "before-rename",
                    "write" => {
                        let o = &p.ops[k as usize - 1];
                        if o.bytes_before < p.rs_start {
                            "before-report-write"
                        } else if o.bytes_before < p.rs_start + p.header {
                            "before-rs-header-write"
                        } else {
                            "before-rs-body-write"
                        }
                    }
                    _ => "before-other-op",
                }
            }
        }
    }
}

fn is_nontrivial(p: &Profile, f: Fault) -> bool {
    match f {
        Fault::Bytes(k) | Fault::ErrBytes(k) | Fault::Rlimit(k) => k >= p.rs_start + p.header && k < p.total,
        Fault::Op(k) => k >= 2 && (k as usize) <= p.ops.len(),
    }
}

struct Verdict {
    /// (signature, what, observed)
    fail: Option<(String, String, Value)>,
    infra: Option<String>,
    classes: Vec<String>,
    /// state of the .rs file after each crashed build
    after_crash: Vec<String>,
}

fn file_state(bytes: &Option<Vec<u8>>, reference: &[u8]) -> &'static str {
    match bytes {
        None => "absent",
        Some(b) if b.is_empty() => "empty",
        Some(b) if b[..] == reference[..] => "complete",
        Some(b) => {
            let h = header_len(reference).unwrap_or(0);
            if reference.starts_with(b) {
                // a strict prefix; the header counts as intact as soon as
                // the hash text is complete (its newline is not needed)
                if b.len() + 1 >= h {
                    "truncated-with-intact-header"
                } else {
                    "truncated-inside-header"
                }
            } else if h > 0 && b.len() >= h && b[..h] == reference[..h] {
                "intact-header-other-body"
            } else {
                "other-content"
            }
        }
    }
}

fn evaluate(env: &Env, case: &Case, dir: &Path, prof: Option<&Profile>) -> Verdict {
    let mut v = Verdict { fail: None, infra: None, classes: vec![], after_crash: vec![] };
    let scn = &case.scn;
    if let Err(e) = setup(env, dir, scn) {
        v.infra = Some(format!("setup: {e}"));
        return v;
    }
    let reference = env.refs.build(&scn.text, scn.report);
    let (Some(ref_rs), true) = (reference.rs.clone(), reference.ok) else {
        v.infra = Some("reference build failed".into());
        return v;
    };
    let mut last_phase = "none";
    for (i, st) in case.steps.iter().enumerate() {
        let r = run_cli(env, dir, scn, st.force, Some(st.fault), None);
        let fired = match (&r.exit, st.fault) {
            (Exit::Signal(9), Fault::Bytes(_) | Fault::Op(_)) => true,
            (Exit::Signal(s), Fault::Rlimit(_)) if *s == libc::SIGXFSZ => true,
            (Exit::Code(1), Fault::ErrBytes(_)) => true,
            (Exit::Code(0), _) => false,
            (other, _) => {
                v.infra = Some(format!("crashed build {i} ended unexpectedly: {other:?} {}", r.stderr));
                return v;
            }
        };
        v.classes.push(if fired { "crash_fired".into() } else { "crash_did_not_fire(build finished)".into() });
        let got = std::fs::read(rs_path(dir, scn)).ok();
        let state = file_state(&got, &ref_rs);
        v.after_crash.push(state.to_string());
        v.classes.push(format!("rs_after_crash:{state}"));
        if fired {
            if let Some(p) = prof {
                last_phase = phase(p, st.fault);
            }
            // shim precision self-check: nothing there before, one file
            // written, first crash: exactly k bytes exist afterwards
            // (wherever the implementation puts them)
            if i == 0 && !scn.report && scn.prior == Prior::Absent {
                if let (Fault::Bytes(k), Some(p)) = (st.fault, prof) {
                    if k < p.total {
                        let len: u64 = dir_state(dir).values().map(|b| b.len() as u64).sum();
                        if len != k {
                            v.infra = Some(format!("shim imprecise: FAULT_BYTES={k} left {len} bytes"));
                            return v;
                        }
                    }
                }
            }
        }
    }
    // the normal, non-forced rebuild
    let r = run_cli(env, dir, scn, false, None, None);
    let got_rs = std::fs::read(rs_path(dir, scn)).ok();
    let got_report = if scn.report { std::fs::read(report_path(dir, scn)).ok() } else { None };
    let mode = match case.steps.last().map(|s| s.fault) {
        Some(Fault::ErrBytes(_)) => "write-error",
        Some(Fault::Rlimit(_)) => "kill",
        _ => "kill",
    };
    let observed = json!({
        "rs_after_each_crashed_build": v.after_crash,
        "final_build_exit": format!("{:?}", r.exit),
        "final_rs": describe_bytes(&got_rs),
        "final_rs_state": file_state(&got_rs, &ref_rs),
        "reference_rs_len": ref_rs.len(),
        "final_report_len": got_report.as_ref().map(|b| b.len()),
        "reference_report_len": reference.report.as_ref().map(|b| b.len()),
    });
    if r.exit != Exit::Code(0) {
        v.fail = Some((
            format!("C22/rebuild-fails-after-crash/{mode}"),
            format!("the normal build after the crash (lands {last_phase}) exits with {:?}: {}", r.exit, r.stderr.trim()),
            observed,
        ));
        return v;
    }
    if got_rs.as_deref() != Some(&ref_rs[..]) {
        let state = file_state(&got_rs, &ref_rs);
        let class = match state {
            "truncated-with-intact-header" => "truncated-output-kept",
            "absent" => "output-missing-after-rebuild",
            _ => "wrong-output-after-rebuild",
        };
        v.fail = Some((
            format!("C22/{class}/{mode}"),
            format!(
                "after the crash ({}; last one lands {last_phase}) the next non-forced build exits 0 but leaves g.rs {} ({}); a forced build gives {} bytes",
                case.steps.iter().map(|s| format!("{:?}{}", s.fault, if s.force { " --force" } else { "" })).collect::<Vec<_>>().join(", "),
                state,
                describe_bytes(&got_rs),
                ref_rs.len()
            ),
            observed,
        ));
        return v;
    }
    if scn.report && got_report != reference.report {
        v.fail = Some((
            format!("C22/stale-report-kept/{mode}"),
            format!(
                "after the crash (lands {last_phase}) the next non-forced build leaves g.report with {:?} bytes, a forced build gives {:?}",
                got_report.as_ref().map(|b| b.len()),
                reference.report.as_ref().map(|b| b.len())
            ),
            observed,
        ));
        return v;
    }
    // anything else lying around that looks like trusted output?
    let outd = rs_path(dir, scn).parent().unwrap().to_path_buf();
    if let Ok(rd) = std::fs::read_dir(&outd) {
        for e in rd.flatten() {
            let name = e.file_name().to_string_lossy().into_owned();
            if ["g.rs", "g.report", "g.lalrpop", "out"].contains(&name.as_str()) {
                continue;
            }
            if name.ends_with(".rs") {
                v.fail = Some((
                    format!("C22/stray-rs-file/{mode}"),
                    format!("a stray file {name} with an .rs name is left beside the output after the rebuild (crash lands {last_phase})"),
                    observed,
                ));
                return v;
            }
            v.classes.push("leftover_non_rs_file_after_rebuild".into());
        }
    }
    v
}

// ---------------------------------------------------------------------------
// enumeration
// ---------------------------------------------------------------------------

fn byte_points(p: &Profile, all: bool) -> Vec<u64> {
    let mut out = vec![];
    for &(s, e) in &p.files {
        if all {
            out.extend(s..e);
            continue;
        }
        let mut k = s;
        while k < e {
            let dense = k < s + 256 || k + 64 >= e;
            out.push(k);
            k += if dense { 1 } else { (61).min(e - 64 - k).max(1) };
        }
    }
    out.sort();
    out.dedup();
    out
}

fn gen_sequence(t: &mut Tape, scns: &[(Scn, Profile)], raw: &[u8]) -> Case {
    let (scn, p) = &scns[t.below(scns.len())];
    let n = 1 + t.below(2);
    let mut steps = vec![];
    for i in 0..n {
        let pick_k = |t: &mut Tape| -> u64 {
            match t.weighted(&[2, 1, 1]) {
                0 => t.below(p.total.max(1) as usize) as u64,
                1 => p.rs_start + t.below((p.header + 40) as usize) as u64,
                _ => p.total.saturating_sub(1 + t.below(64) as u64),
            }
        };
        let fault = match t.weighted(&[4, 2, 2]) {
            0 => Fault::Bytes(pick_k(t)),
            1 => Fault::Op(1 + t.below(p.ops.len().max(1)) as u64),
            _ => Fault::ErrBytes(pick_k(t)),
        };
        // the first build must write something when the output is current
        let force = if i == 0 && scn.prior == Prior::Current { true } else { t.chance(80) };
        steps.push(Step { fault, force });
    }
    Case { scn: scn.clone(), steps, family: "sequence", tape_hex: tape::hex(raw) }
}

fn replay_case(env: &Env, ck: &mut Checker, v: &Value) {
    let case = Case::from_json(v);
    let dir = env.ctx.work.join("replay_run");
    // the profile is only needed to name the phase; recompute it
    let prof = profile(env, &case.scn, 9999).ok();
    let verdict = evaluate(env, &case, &dir, prof.as_ref());
    ck.eval();
    if let Some(e) = verdict.infra {
        ck.infra(e);
    }
    if let Some((sig, what, observed)) = verdict.fail {
        let mut rj = case.to_json();
        rj["observed"] = observed;
        rj["expected"] = json!("g.rs (and g.report) byte-identical to a forced build of the current grammar");
        ck.violation(&sig, &what, rj);
    }
}

pub fn run(ctx: Ctx, replay: Option<PathBuf>) -> i32 {
    let mut ck = Checker::new(
        ctx.clone(),
        "fault_enumeration",
        "case = (grammar, --report?, -o?, prior output absent/current/stale) x 1-2 crashed builds x one normal non-forced build; \
         crash = SIGKILL after k bytes written to regular files, SIGKILL before the K-th fs operation, or write error at byte k. \
         Non-trivial = a crash lands at a byte offset after the second header line of the .rs file and before its last byte, \
         or immediately before a file-system operation other than the first (between unlink/create/write/rename); \
         distinct = distinct (scenario, crash list)",
    );
    ck.assume("reference = forced build of the same text in a separate directory (CLI); crash injection by LD_PRELOAD shim, cross-checked against RLIMIT_FSIZE on single-file scenarios");
    ck.assume("all builds of one case use the same flags (--report, -o); the crashed builds and the final build see the same grammar text");
    let shim = match ensure_shim(&ctx) {
        Ok(p) => p,
        Err(e) => {
            ck.infra(format!("fault-injection shim unavailable: {e}"));
            return ck.finish();
        }
    };
    let env = Env { ctx: ctx.clone(), shim, refs: RefBuilder::new(&ctx, "ref") };

    if let Some(p) = replay {
        ck.strict = true;
        match super::load_replay(&p) {
            Ok(v) => replay_case(&env, &mut ck, &v),
            Err(c) => return c,
        }
        return ck.finish();
    }
    ck.replay_listed(|ck, v| replay_case(&env, ck, v));

    // --- scenarios -----------------------------------------------------
    let texts = valid_texts();
    // reference determinism self-check (the oracle compares bytes)
    for t in [&texts[0], &texts[4], &texts[5]] {
        let a = env.refs.build(t, true);
        let b = {
            let other = RefBuilder::new(&ctx, "ref2");
            other.build(t, true)
        };
        let c = env.refs.build(t, false);
        if !a.ok || a.rs != b.rs || a.report != b.report || a.rs != c.rs {
            ck.infra("reference build is not deterministic or depends on --report");
            return ck.finish();
        }
    }
    let thorough = ctx.tier.pick(false, true);
    let mk = |g: usize, report: bool, outdir: bool, prior: Prior| Scn {
        text: texts[g].clone(),
        old_text: texts[(g + 2) % texts.len()].clone(),
        report,
        outdir,
        prior,
    };
    // (scenario, enumerate all offsets?) - simplest first, so that the first
    // failing case per signature is the smallest one.
    let mut scn_list: Vec<(Scn, bool)> = vec![
        (mk(0, false, false, Prior::Absent), thorough),
        (mk(0, true, false, Prior::Stale), thorough),
        (mk(5, false, true, Prior::Current), thorough),
        (mk(2, true, true, Prior::Current), thorough),
    ];
    if thorough {
        for g in [0usize, 4, 5] {
            for report in [false, true] {
                for outdir in [false, true] {
                    for prior in [Prior::Absent, Prior::Current, Prior::Stale] {
                        let s = mk(g, report, outdir, prior);
                        if !scn_list.iter().any(|(x, _)| *x == s) {
                            scn_list.push((s, false));
                        }
                    }
                }
            }
        }
    }
    let profs = par_map(&scn_list, ctx.threads, |i, (s, _)| profile(&env, s, i));
    let mut scns: Vec<(Scn, Profile, bool)> = vec![];
    for ((s, all), p) in scn_list.iter().zip(profs) {
        match p {
            Ok(p) => scns.push((s.clone(), p, *all)),
            Err(e) => {
                ck.infra(format!("profile of {}: {e}", s.label()));
                return ck.finish();
            }
        }
    }

    // --- cases ---------------------------------------------------------
    let mut cases: Vec<(Case, usize)> = vec![];
    for (si, (s, p, all)) in scns.iter().enumerate() {
        let force = s.prior == Prior::Current;
        for k in byte_points(p, *all) {
            cases.push((Case { scn: s.clone(), steps: vec![Step { fault: Fault::Bytes(k), force }], family: "bytes", tape_hex: String::new() }, si));
        }
        for k in 1..=(p.ops.len() as u64 + 1) {
            cases.push((Case { scn: s.clone(), steps: vec![Step { fault: Fault::Op(k), force }], family: "ops", tape_hex: String::new() }, si));
        }
        // write errors: a sparser sweep (every 7th of the byte points)
        for (j, k) in byte_points(p, false).into_iter().enumerate() {
            if j % 11 == 3 || (k >= p.rs_start && k < p.rs_start + p.header + 4) {
                cases.push((Case { scn: s.clone(), steps: vec![Step { fault: Fault::ErrBytes(k), force }], family: "write-error", tape_hex: String::new() }, si));
            }
        }
    }
    // RLIMIT_FSIZE cross-check on single-file scenarios
    let mut rlimit_pairs: Vec<(usize, u64)> = vec![];
    for (si, (s, p, _)) in scns.iter().enumerate() {
        if s.report {
            continue;
        }
        let n = ctx.tier.pick(24u64, 200u64);
        for j in 0..n {
            // spread deterministically, denser near the header
            let k = if j < n / 2 { p.header.saturating_sub(6) + j } else { (p.total * (j - n / 2 + 1)) / (n / 2 + 1) };
            if k < p.total {
                rlimit_pairs.push((si, k));
                let force = s.prior == Prior::Current;
                cases.push((Case { scn: s.clone(), steps: vec![Step { fault: Fault::Rlimit(k), force }], family: "rlimit", tape_hex: String::new() }, si));
            }
        }
    }
    // tape-generated sequences
    let seq_n = ctx.tier.pick(400usize, 8000usize);
    let sp: Vec<(Scn, Profile)> = {
        // sequences draw from all 36 combinations in both tiers
        let mut all = vec![];
        for g in [0usize, 4, 5] {
            for report in [false, true] {
                for outdir in [false, true] {
                    for prior in [Prior::Absent, Prior::Current, Prior::Stale] {
                        all.push(mk(g, report, outdir, prior));
                    }
                }
            }
        }
        let ps = par_map(&all, ctx.threads, |i, s| profile(&env, s, 100 + i));
        let mut v = vec![];
        for (s, p) in all.into_iter().zip(ps) {
            match p {
                Ok(p) => v.push((s, p)),
                Err(e) => {
                    ck.infra(format!("profile of {}: {e}", s.label()));
                    return ck.finish();
                }
            }
        }
        v
    };
    let tapes = tape::sample_tapes(ctx.seed, seq_n, 0, 24);
    let base = scns.len();
    let mut all_profiles: Vec<Profile> = scns.iter().map(|(_, p, _)| p.clone()).collect();
    all_profiles.extend(sp.iter().map(|(_, p)| p.clone()));
    for t in &tapes {
        let c = gen_sequence(&mut Tape::new(t), &sp, t);
        let pi = base + sp.iter().position(|(s, _)| *s == c.scn).unwrap_or(0);
        cases.push((c, pi));
    }

    // --- evaluate --------------------------------------------------------
    let verdicts = par_map(&cases, ctx.threads, |i, (c, pi)| {
        let dir = env.ctx.work.join(format!("cases/c{i}"));
        let v = evaluate(&env, c, &dir, Some(&all_profiles[*pi]));
        if v.fail.is_none() {
            let _ = std::fs::remove_dir_all(&dir);
        }
        v
    });
    let mut per_family: std::collections::BTreeMap<&str, u64> = Default::default();
    for ((c, pi), v) in cases.iter().zip(verdicts) {
        ck.eval();
        *per_family.entry(c.family).or_insert(0) += 1;
        ck.class(&format!("family:{}", c.family));
        let p = &all_profiles[*pi];
        for s in &c.steps {
            ck.class(&format!("phase:{}", phase(p, s.fault)));
        }
        for cl in &v.classes {
            ck.class(cl);
        }
        if let Some(e) = v.infra {
            ck.infra(format!("{} {:?}: {e}", c.scn.label(), c.steps));
            continue;
        }
        let nt = c.steps.iter().any(|s| is_nontrivial(p, s.fault));
        if nt {
            ck.nontrivial(&(c.scn.label(), &c.steps));
            if ck.want_sample() && (ck.evaluations % 419 == 7 || c.family == "sequence") && ck.samples.len() < 8 {
                ck.sample(json!({
                    "scenario": c.scn.label(),
                    "grammar": c.scn.text,
                    "crashed_builds": c.steps.iter().map(|s| format!("{:?}{} -> lands {}", s.fault, if s.force {" --force"} else {""}, phase(p, s.fault))).collect::<Vec<_>>(),
                    "rs_after_each_crash": v.after_crash,
                    "after_final_build": if v.fail.is_some() { "differs from reference" } else { "equals forced reference" },
                }));
            }
        }
        if let Some((sig, what, observed)) = v.fail {
            let mut rj = c.to_json();
            rj["observed"] = observed;
            rj["expected"] = json!("g.rs (and g.report) byte-identical to a forced build of the current grammar");
            ck.violation(&sig, &what, rj);
        }
    }

    // --- shim vs RLIMIT_FSIZE: identical files after the crash -------------
    let cross = par_map(&rlimit_pairs, ctx.threads, |i, (si, k)| {
        let (s, _, _) = &scns[*si];
        let force = s.prior == Prior::Current;
        let mut res = vec![];
        for (j, f) in [Fault::Bytes(*k), Fault::Rlimit(*k)].into_iter().enumerate() {
            let dir = env.ctx.work.join(format!("cross/x{i}_{j}"));
            if setup(&env, &dir, s).is_err() {
                return Err("setup".to_string());
            }
            let r = run_cli(&env, &dir, s, force, Some(f), None);
            res.push((format!("{:?}", r.exit), dir_state(&dir)));
            let _ = std::fs::remove_dir_all(&dir);
        }
        if res[0].1 != res[1].1 {
            return Err(format!(
                "k={k} {}: shim left {:?} ({}), RLIMIT_FSIZE left {:?} ({})",
                s.label(),
                res[0].1.iter().map(|(n, b)| (n.clone(), b.len())).collect::<Vec<_>>(),
                res[0].0,
                res[1].1.iter().map(|(n, b)| (n.clone(), b.len())).collect::<Vec<_>>(),
                res[1].0
            ));
        }
        Ok(())
    });
    let mut agree = 0u64;
    for c in cross {
        match c {
            Ok(()) => agree += 1,
            Err(e) => ck.infra(format!("shim / RLIMIT_FSIZE cross-check: {e}")),
        }
    }
    ck.extra.insert("self_checks".into(), json!({"shim_vs_rlimit_fsize_identical_files": agree, "reference_determinism": 3}));
    ck.extra.insert(
        "scenarios".into(),
        json!(scns.iter().map(|(s, p, all)| json!({"scenario": s.label(), "bytes_written": p.total, "fs_operations": p.ops.len(), "files": p.files.len(), "all_offsets": all})).collect::<Vec<_>>()),
    );
    ck.extra.insert("cases_per_family".into(), json!(per_family));
    ck.exhaustive = Some(thorough);
    ck.finish()
}
