//! C08 part (i) - the generated lexer always makes progress (runner id C08L).
//!
//! Domain: lexer specs (including regexes that match the empty string, skip
//! rules, `_`) x strings (ASCII and non-ASCII), driving the real
//! `MatcherBuilder::matcher` on the pattern table extracted from LALRPOP's
//! output. Oracle: `lexmodel::progress_check` (deterministic).
//!
//! `lexer_level` runs the same search inside any Checker, so that the full
//! C08 check can include it.

use crate::core::{par_map, Checker, Ctx};
use crate::lexgen::{gen_inputs, gen_spec, SpecOpts};
use crate::lexmodel::{extract, progress_check, run_lalrpop, LalrOut, Pat, RealLexer, Tally};
use crate::tape::{self, Tape};
use serde_json::{json, Value};
use std::path::{Path, PathBuf};

const OPTS: SpecOpts =
    SpecOpts { min_pats: 1, max_pats: 5, allow_skip: true, allow_rename: true, allow_unused: false, gen_regex_p: 70, separate_p: 200 };

/// can the pattern match the empty string? (by the reference matcher)
fn nullable(p: &Pat) -> bool {
    match p {
        Pat::Lit(s) => s.is_empty(),
        Pat::Re(r) => crate::lexmodel::full_matcher(r).map_or(false, |m| m.full_match("")),
    }
}

/// Child side of the isolated run: `lv __lexrun <job.json>`; one JSON line per
/// input, flushed, so the parent knows which input never returned.
pub fn hidden_lexrun(args: &[String]) -> i32 {
    use std::io::Write;
    let Some(job) = args.first().and_then(|p| std::fs::read_to_string(p).ok()).and_then(|t| serde_json::from_str::<Value>(&t).ok()) else {
        eprintln!("__lexrun: cannot read job file");
        return 2;
    };
    let rs = match std::fs::read_to_string(job["rs"].as_str().unwrap_or("")) {
        Ok(t) => t,
        Err(e) => {
            eprintln!("__lexrun: {e}");
            return 2;
        }
    };
    let real = match extract(&rs).and_then(RealLexer::new) {
        Ok(r) => r,
        Err(e) => {
            println!("{}", json!({"fatal": e}));
            return 0;
        }
    };
    let out = std::io::stdout();
    for input in job["inputs"].as_array().cloned().unwrap_or_default() {
        let input = input.as_str().unwrap_or("");
        let line = match progress_check(&real, input) {
            Ok(p) => json!({"ok": true, "tokens": p.tokens, "invalid": p.ended_invalid}),
            Err((sig, what)) => json!({"ok": false, "sig": sig, "what": what}),
        };
        let mut o = out.lock();
        let _ = writeln!(o, "{line}");
        let _ = o.flush();
    }
    0
}

/// progress_check for every input; `isolate` = in a child process under a
/// watchdog (used when a *skip* pattern can match the empty string: a lexer
/// that spins inside one `next()` call cannot be observed from inside).
fn check_inputs(
    exe: &Path,
    dir: &Path,
    rs: &str,
    inputs: &[String],
    isolate: bool,
) -> Result<Vec<Result<crate::lexmodel::Progress, (String, String)>>, (usize, String)> {
    if !isolate {
        let real = extract(rs).and_then(RealLexer::new).map_err(|e| (usize::MAX, e))?;
        return Ok(inputs.iter().map(|i| progress_check(&real, i)).collect());
    }
    let job = dir.join("lexrun.json");
    let rs_path = dir.join("g.rs");
    let _ = std::fs::write(&rs_path, rs);
    let _ = std::fs::write(&job, json!({"rs": rs_path, "inputs": inputs}).to_string());
    let out = crate::run::Cmd::new(exe).arg("__lexrun").arg(job.as_os_str()).timeout_s(20).run();
    let mut res = vec![];
    for line in out.stdout.lines() {
        let Ok(v) = serde_json::from_str::<Value>(line) else { continue };
        if let Some(f) = v["fatal"].as_str() {
            return Err((usize::MAX, f.to_string()));
        }
        if v["ok"] == true {
            res.push(Ok(crate::lexmodel::Progress {
                tokens: v["tokens"].as_u64().unwrap_or(0) as usize,
                calls: 0,
                ended_invalid: v["invalid"] == true,
            }));
        } else {
            res.push(Err((v["sig"].as_str().unwrap_or("").to_string(), v["what"].as_str().unwrap_or("").to_string())));
        }
    }
    if res.len() < inputs.len() {
        let why = match out.exit {
            crate::run::Exit::Timeout => "did not return within the 20 s watchdog".to_string(),
            other => format!(
                "child ended with {other:?}: {}",
                out.stderr.lines().find(|l| l.contains("lalrpop_verif:")).or(out.stderr.lines().last()).unwrap_or("")
            ),
        };
        return Err((res.len(), why));
    }
    Ok(res)
}

fn eval_grammar(cli: &Path, exe: &Path, dir: &Path, text: &str, inputs: &[String], nullable_spec: bool, isolate: bool, tape_hex: &str, tl: &mut Tally) {
    let rs = match run_lalrpop(cli, dir, text) {
        LalrOut::Accepted(rs) => rs,
        LalrOut::Timeout => {
            tl.inconclusive += 1;
            tl.infra.push("lalrpop timed out on a lexer spec".into());
            return;
        }
        LalrOut::Infra(m) => {
            tl.infra.push(m);
            return;
        }
        other => {
            tl.skip(&format!("grammar rejected by lalrpop: {}", other.name()));
            return;
        }
    };
    tl.class("grammar_accepted");
    let replay = |input: &str, observed: Value| {
        json!({
            "tape_hex": tape_hex,
            "grammars": [{"name": "g.lalrpop", "text": text}],
            "input": input,
            "expected": "lexer reaches the end of input or an error within len+1 tokens; no empty token is repeated",
            "observed": observed,
        })
    };
    let results = match check_inputs(exe, dir, &rs, inputs, isolate) {
        Ok(r) => r,
        Err((usize::MAX, e)) => {
            tl.violation("C08/lexer/tables-unusable", &e, replay("", json!(e)));
            return;
        }
        Err((k, why)) if why.contains("lalrpop_verif: lexer loop made no progress") => {
            // the cfg(lalrpop_verif) hook in lalrpop-util/src/lexer.rs saw the loop in
            // `next()` look at one offset twice within a single call; the lexer state is
            // (text, consumed) only, so without the hook this call never returns
            let input = inputs.get(k).cloned().unwrap_or_default();
            tl.evals += 1;
            tl.violation(
                "C08/lexer/spins-inside-next",
                &format!("one call of the built-in lexer's next() never returns on input {input:?}: {why}"),
                replay(&input, json!(why)),
            );
            return;
        }
        Err((k, why)) => {
            // no deterministic evidence from inside the process: inconclusive
            tl.inconclusive += 1;
            tl.infra.push(format!(
                "INCONCLUSIVE C08 lexer: `next()` {why} on input {:?} (a skip pattern of this grammar can match the empty string):\n{text}",
                inputs.get(k).cloned().unwrap_or_default()
            ));
            return;
        }
    };
    if nullable_spec {
        tl.class("terminal_or_skip_can_match_empty");
    }
    if isolate {
        tl.class("skip_pattern_can_match_empty (run in a child process under a watchdog)");
    }
    for (input, res) in inputs.iter().zip(results) {
        tl.evals += 1;
        match res {
            Ok(p) => {
                if p.ended_invalid {
                    tl.class("input_rejected");
                }
                if !input.is_ascii() {
                    tl.class("input_non_ascii");
                }
                if p.ended_invalid || nullable_spec {
                    tl.nontrivial(&(text, input));
                    if tl.samples.is_empty() && nullable_spec {
                        tl.samples.push(json!({"grammar": text, "input": input, "tokens": p.tokens, "rejected": p.ended_invalid}));
                    }
                }
            }
            Err((sig, what)) => tl.violation(&sig, &what, replay(input, json!(what))),
        }
    }
}

fn eval_tape(ctx: &Ctx, idx: usize, tape: &[u8]) -> Tally {
    let mut tl = Tally::default();
    let mut t = Tape::new(tape);
    let (spec, _) = gen_spec(&mut t, &OPTS);
    let pats: Vec<Pat> = spec.entries().into_iter().map(|e| e.pat).collect();
    let mut inputs = gen_inputs(&mut t, &pats, 10, 6);
    // garbage and repetitions
    inputs.push("aac".into());
    inputs.push(std::iter::repeat("ab \u{e9}").take(1 + t.below(12)).collect());
    let nullable_spec = pats.iter().any(nullable);
    let isolate = spec.entries().iter().any(|e| e.term.is_none() && nullable(&e.pat));
    let dir = ctx.work.join(format!("l{idx}"));
    eval_grammar(&ctx.cli, &ctx.exe, &dir, &spec.to_lalrpop(), &inputs, nullable_spec, isolate, &tape::hex(tape), &mut tl);
    let _ = std::fs::remove_dir_all(&dir);
    tl
}

pub fn replay_case(ck: &mut Checker, v: &Value) {
    let text = v["grammars"][0]["text"].as_str().unwrap_or("").to_string();
    let input = v["input"].as_str().unwrap_or("").to_string();
    let mut tl = Tally::default();
    let dir = ck.ctx.work.join("replay_lexer");
    let (cli, exe) = (ck.ctx.cli.clone(), ck.ctx.exe.clone());
    eval_grammar(&cli, &exe, &dir, &text, &[input], true, true, v["tape_hex"].as_str().unwrap_or(""), &mut tl);
    tl.skips.clear();
    tl.samples.clear();
    tl.merge(ck);
}

/// Part (i) of C08 inside an existing checker: `n` lexer specs x ~12 inputs.
pub fn lexer_level(ck: &mut Checker, n: usize) {
    let ctx = ck.ctx.clone();
    let tapes = tape::sample_tapes(ctx.seed ^ 0x08, n, 0, 220);
    let tallies = par_map(&tapes, ctx.threads, |i, t| eval_tape(&ctx, i, t));
    for tl in tallies {
        tl.merge(ck);
    }
}

pub fn run(ctx: Ctx, replay: Option<PathBuf>) -> i32 {
    let mut ck = Checker::new(
        ctx.clone(),
        "exploration",
        "lexer level of C08: lexer specs (1-5 terminals incl. generated regexes, nullable regexes, skip rules, `_`) x strings; \
         non-trivial = input rejected (InvalidToken) or a terminal/skip pattern of the spec can match the empty string; distinct = distinct (grammar text, input)",
    );
    ck.assume("a repeated empty token proves divergence: the iterator state (remaining text, offset) is unchanged");
    if let Some(p) = replay {
        ck.strict = true;
        match super::load_replay(&p) {
            Ok(v) => replay_case(&mut ck, &v),
            Err(c) => return c,
        }
        return ck.finish();
    }
    ck.replay_listed(replay_case);
    lexer_level(&mut ck, ctx.tier.pick(2000, 40_000));
    ck.finish()
}
