//! Catalogue of deliberate mistakes for C18's near-valid generator. Each
//! mistake edits the string-level grammar AST (`GGrammar`) or the printed
//! text; the result is usually (not always) an invalid grammar that gets past
//! the tokenizer and the parser and must be rejected - with a diagnostic, not
//! a panic - by one of the normalisation passes.

use crate::grammar_text::{GAlt, GConv, GGrammar, GItem, GLexer, GNt};
use crate::tape::Tape;

fn pick_nt(g: &GGrammar, t: &mut Tape) -> usize {
    let nts = g.nts();
    nts[t.below(nts.len())]
}

/// (item index, alternative index) of a random alternative
fn pick_alt(g: &GGrammar, t: &mut Tape) -> (usize, usize) {
    let i = pick_nt(g, t);
    let n = g.nt(i).alts.len().max(1);
    (i, t.below(n))
}

fn alt_mut<'a>(g: &'a mut GGrammar, at: (usize, usize)) -> Option<&'a mut GAlt> {
    g.nt_mut(at.0).alts.get_mut(at.1)
}

fn some_nt_name(g: &GGrammar, t: &mut Tape) -> String {
    let i = pick_nt(g, t);
    g.nt(i).name.clone()
}

fn plain_nt_name(g: &GGrammar, t: &mut Tape) -> String {
    let nts: Vec<usize> = g.nts().into_iter().filter(|&i| g.nt(i).params.is_empty()).collect();
    if nts.is_empty() {
        return "Top".into();
    }
    g.nt(nts[t.below(nts.len())]).name.clone()
}

fn first_terminal(g: &GGrammar) -> String {
    for i in g.nts() {
        for a in &g.nt(i).alts {
            for s in &a.syms {
                if s.starts_with('"') {
                    return s.clone();
                }
            }
        }
    }
    "\"k0\"".into()
}

const BAD_ATTRS: &[&str] = &[
    "#[inline]",
    "#[inline]\n#[inline]",
    "#[foo]",
    "#[inline(always)]",
    "#[inline = \"x\"]",
    "#[LALR]",
    "#[recursive_ascent]",
    "#[precedence(level=\"1\")]",
    "#[assoc(side=\"left\")]",
    "#[cfg]",
    "#[cfg()]",
    "#[cfg(feature)]",
    "#[cfg(not())]",
    "#[cfg(any())]",
    "#[cfg(all())]",
    "#[cfg(foo = \"x\")]",
    "#[cfg = \"x\"]",
    "#[cfg(feature = \"a\", feature = \"b\")]",
    "#[cfg(not(feature = \"a\", feature = \"b\"))]",
    "#[cfg(not(not(not(feature = \"fa\"))))]",
    "#[cfg(any(feature = \"fa\", bogus))]",
    "#[cfg(feature(x))]",
    "#[cfg(not = \"x\")]",
    "#[cfg(feature = \"fa\")]\n#[cfg(feature = \"fb\")]",
    "#[cfg(feature = \"never\")]",
    "#[test_all]",
    "#[table_driven]",
    "#[precedence]",
    "#[assoc]",
];

const PREC_ATTRS: &[&str] = &[
    "#[precedence(level=\"0\")]",
    "#[precedence(level=\"1\")]",
    "#[precedence(level=\"7\")]",
    "#[precedence(level=\"4294967295\")]",
    "#[precedence(level=\"4294967296\")]",
    "#[precedence(level=\"99999999999999999999\")]",
    "#[precedence(level=\"-1\")]",
    "#[precedence(level=\"+1\")]",
    "#[precedence(level=\"1.5\")]",
    "#[precedence(level=\"\")]",
    "#[precedence(level=\" 1\")]",
    "#[precedence(level=\"abc\")]",
    "#[precedence(lvl=\"1\")]",
    "#[precedence]",
    "#[precedence()]",
    "#[precedence(level)]",
    "#[precedence(level(x))]",
    "#[precedence(level=\"1\", level=\"2\")]",
    "#[precedence(level=\"2\")] #[precedence(level=\"x\")]",
    "#[precedence(level=\"3\")] #[precedence(level=\"1\")]",
    "#[precedence = \"1\"]",
];

const ASSOC_ATTRS: &[&str] = &[
    "#[assoc(side=\"left\")]",
    "#[assoc(side=\"right\")]",
    "#[assoc(side=\"none\")]",
    "#[assoc(side=\"all\")]",
    "#[assoc(side=\"up\")]",
    "#[assoc(side=\"\")]",
    "#[assoc(side=\"Left\")]",
    "#[assoc]",
    "#[assoc()]",
    "#[assoc(left)]",
    "#[assoc(direction=\"left\")]",
    "#[assoc(side=\"left\")] #[assoc(side=\"right\")]",
    "#[assoc(side=\"left\")] #[assoc(side=\"bogus\")]",
    "#[assoc = \"left\"]",
];

const ODD_TYPES: &[&str] = &[
    "#X#",
    "#Top#",
    "#\"k0\"#",
    "#Top*#",
    "#(Top Top)#",
    "#@L#",
    "#!#",
    "#<Top>#",
    "#<x:Top>#",
    "Vec<#Top#>",
    "Vec<#Undefined#>",
    "(#Top#, #Top?#)",
    "&'a #Top#",
    "[#Top#]",
    "dyn Foo<#Top#>",
    "dyn Fn(#Top#) -> #Top#",
    "#Comma<Top>#",
    "'a",
    "Vec<'a>",
    "()",
    "(,)",
    "::a::b<c::d<'e, (f, [g])>>",
    "&'input mut &'input str",
    "dyn for<'a, T> Foo('a) -> ()",
];

const BAD_REGEX: &[&str] = &[
    "r\"(\"",
    "r\"[\"",
    "r\"\\\"",
    "r\"a{\"",
    "r\"a{2,1}\"",
    "r\"*\"",
    "r\"\\b\"",
    "r\"^a$\"",
    "r\"(?P<x>a)\"",
    "r\"a*?\"",
    "r\"(?-u:\\xFF)\"",
    "r\"(?-u:.)\"",
    "r\"\"",
    "r\"a|\"",
    "r\"()\"",
    "r\"(?i)\"",
    "r\"\\p{Bogus}\"",
    "r\"\\u{110000}\"",
    "r\"\\pL\\PL\"",
    "r\"[^\\x00-\\u{10FFFF}]\"",
    "r\"a{0}\"",
    "r\"(a{0})*\"",
    "r\"\\Z\"",
    "r\"(?x) a b # c\"",
    "r\"(?s).\"",
    "r\"(?m)^\"",
    "r\"\\A\"",
    "r\"(?U)a*\"",
    "r\"[[:alpha:]&&[^a]]\"",
    "r#\"\"\"#",
    "\"\"",
    "\"\\x\"",
    "\"\\xZZ\"",
    "\"\\x80\"",
    "\"\\q\"",
    "\"\\0\\n\\t\\r\\\\\\\"\"",
    "\"é\"",
    "r\"é+\"",
    "r\"\\s+\"",
    "r\".\"",
    "r\"\\w+\"",
    "r\"[a-z]+\"",
    "r\"a{1000}\"",
    "r\"(a|b|c){20}\"",
];

const CONFLICTS: &[&str] = &[
    // shift/reduce, reduce/reduce, ambiguous, LR(2), with macros / inline / optionals
    "XAmb: () = { XAmb \"+\" XAmb => (), \"n\" => () };",
    "XAmb: () = { \"if\" XAmb => (), \"if\" XAmb \"else\" XAmb => (), \"n\" => () };",
    "XAmb: () = { XA \"x\" => (), XB \"x\" => () }; XA: () = \"n\" => (); XB: () = \"n\" => ();",
    "XAmb: () = { XA \"x\" \"y\" => (), XB \"x\" \"z\" => () }; XA: () = \"n\" => (); XB: () = \"n\" => ();",
    "XAmb: () = { \"n\"? \"n\"? => () };",
    "XAmb: () = { (\"n\" \",\")* \"n\"? \"n\" => () };",
    "XAmb: () = { XAmb XAmb => (), => () };",
    "XAmb: () = { XE => (), XE \"n\" => () }; #[inline] XE: () = { \"n\"? => () };",
    "XAmb: () = { <a:XAmb?> \"n\" <b:XAmb?> => () };",
    "XAmb: () = { XAmb => (), \"n\" => () };",
    "XAmb: () = { XAmb2 => () }; XAmb2: () = { XAmb => (), \"n\" => () };",
    "XAmb = { \"n\" XAmb3, \"n\" XAmb3 \"n\" }; XAmb3 = { \"n\"* };",
    "XAmb: () = { \"a\" XA2 \"d\" => (), \"b\" XB2 \"d\" => (), \"a\" XB2 \"e\" => (), \"b\" XA2 \"e\" => () }; XA2: () = \"c\" => (); XB2: () = \"c\" => ();",
    "XAmb: () = { @L \"n\" => (), @R \"n\" => () };",
    "XAmb: () = { ! => (), ! \"n\" => (), \"n\" => () };",
];

/// Apply one structural mistake; returns its label.
pub fn apply(g: &mut GGrammar, t: &mut Tape) -> String {
    const N: usize = 78;
    let k = t.below(N);
    let label: &str = match k {
        0 => {
            let at = pick_alt(g, t);
            if let Some(a) = alt_mut(g, at) {
                a.syms.push("Undefined".into());
            }
            "unknown-nonterminal"
        }
        1 => {
            let i = pick_nt(g, t);
            let n = g.nt(i).clone();
            g.items.push(GItem::Nt(n));
            "duplicate-nonterminal"
        }
        2 => {
            let i = pick_nt(g, t);
            let a = *t.pick(BAD_ATTRS);
            g.nt_mut(i).attrs.push(a.into());
            "attr-on-nonterminal"
        }
        3 => {
            let at = pick_alt(g, t);
            let a = *t.pick(BAD_ATTRS);
            if let Some(alt) = alt_mut(g, at) {
                alt.attrs.push(a.into());
            }
            "attr-on-alternative"
        }
        4 => {
            let a = *t.pick(BAD_ATTRS);
            g.attrs.push(a.into());
            "attr-on-grammar"
        }
        5 => {
            let at = pick_alt(g, t);
            let a = *t.pick(PREC_ATTRS);
            if let Some(alt) = alt_mut(g, at) {
                alt.attrs.insert(0, a.into());
            }
            "precedence-attr"
        }
        6 => {
            let at = pick_alt(g, t);
            let a = *t.pick(ASSOC_ATTRS);
            if let Some(alt) = alt_mut(g, at) {
                alt.attrs.push(a.into());
            }
            "assoc-attr"
        }
        7 => {
            // remove the precedence attribute of some alternative (inherited levels, F4 shape)
            for i in g.nts() {
                let n = g.nt_mut(i);
                let cands: Vec<usize> = (0..n.alts.len()).filter(|&j| n.alts[j].attrs.iter().any(|a| a.contains("precedence"))).collect();
                if !cands.is_empty() {
                    let j = cands[t.below(cands.len())];
                    n.alts[j].attrs.retain(|a| !a.contains("precedence"));
                    break;
                }
            }
            "drop-precedence-attr"
        }
        8 => {
            // F4: assoc on an alternative that inherits the lowest level
            let name = plain_nt_name(g, t);
            g.items.push(GItem::Nt(GNt::new(
                "XPrec",
                Some("()"),
                vec![
                    GAlt::new(&["\"n\""], Some("=> ()")).attr("#[precedence(level=\"0\")]"),
                    GAlt::new(&["XPrec", "\"+\"", "XPrec"], Some("=> ()")).attr(*t.pick(&["#[assoc(side=\"left\")]", "#[assoc(side=\"right\")]", "#[assoc(side=\"none\")]"])),
                    GAlt::new(&["\"(\"", &name, "\")\""], Some("=> ()")),
                ],
            )));
            "assoc-inherits-lowest-level"
        }
        9 => {
            // cfg removes the lowest level after prevalidation looked at it
            let cfg = *t.pick(&["#[cfg(feature = \"never\")]", "#[cfg(not(feature = \"fa\"))]", "#[cfg(feature = \"fa\")]"]);
            g.items.push(GItem::Nt(GNt::new(
                "XPrec",
                Some("()"),
                vec![
                    GAlt::new(&["\"n\""], Some("=> ()")).attr(cfg).attr("#[precedence(level=\"0\")]"),
                    GAlt::new(&["XPrec", "\"+\"", "XPrec"], Some("=> ()")).attr("#[precedence(level=\"1\")]").attr("#[assoc(side=\"left\")]"),
                    GAlt::new(&["XPrec", "\"*\"", "XPrec"], Some("=> ()")).attr("#[precedence(level=\"2\")]").attr("#[assoc(side=\"right\")]"),
                ],
            )));
            "cfg-removes-precedence-level"
        }
        10 => {
            // precedence annotations on a macro definition
            g.items.push(GItem::Nt(
                GNt::new(
                    "XPm",
                    Some("()"),
                    vec![
                        GAlt::new(&["T"], Some("=> ()")).attr("#[precedence(level=\"0\")]"),
                        GAlt::new(&["XPm<T>", "\"+\"", "XPm<T>"], Some("=> ()")).attr("#[precedence(level=\"1\")]").attr("#[assoc(side=\"left\")]"),
                    ],
                )
                .params(&["T"]),
            ));
            let at = pick_alt(g, t);
            if let Some(a) = alt_mut(g, at) {
                a.syms.push("XPm<\"n\">".into());
            }
            "precedence-on-macro"
        }
        11 => {
            // a user nonterminal named like a derived level name (F8 shape)
            for i in g.nts() {
                if g.nt(i).alts.iter().any(|a| a.attrs.iter().any(|x| x.contains("precedence"))) {
                    let name = format!("{}{}", g.nt(i).name, t.range(0, 3));
                    g.items.push(GItem::Nt(GNt::new(&name, Some("()"), vec![GAlt::new(&["\"n\""], Some("=> ()"))])));
                    break;
                }
            }
            "level-name-collision"
        }
        12 => {
            // F5: tuple pattern on something that is not a tuple
            let name = plain_nt_name(g, t);
            let pat = *t.pick(&["(a, b)", "(a,)", "(a, (b, c))", "(mut a, b, c, d)", "((a, b), c)"]);
            let sym = match t.below(6) {
                0 => format!("<{pat}:{name}>"),
                1 => format!("<{pat}:{name}*>"),
                2 => format!("<{pat}:{name}?>"),
                3 => format!("<{pat}:({name} {name})>"),
                4 => format!("<{pat}:{}>", first_terminal(g)),
                _ => format!("<{pat}:@L>"),
            };
            let at = pick_alt(g, t);
            if let Some(a) = alt_mut(g, at) {
                a.syms.push(sym);
                if a.action.is_none() {
                    a.action = Some("=> ()".into());
                }
            }
            "tuple-pattern-on-non-tuple"
        }
        13 => {
            // tuple pattern with an inferred / macro-made tuple type and wrong arity
            g.items.push(GItem::Nt(GNt::new("XTup", None, vec![GAlt::new(&["\"n\"", "\"n\""], None)])));
            g.items.push(GItem::Nt(GNt::new(
                "XTupUse",
                Some("()"),
                vec![GAlt::new(&[*t.pick(&["<(a, b, c):XTup>", "<(a, (b, c)):XTup>", "<(a, b):XTup>", "<((a, b), c):XTup>"])], Some("=> ()"))],
            )));
            "tuple-pattern-arity"
        }
        14 => {
            let ty = *t.pick(ODD_TYPES);
            let i = pick_nt(g, t);
            g.nt_mut(i).ty = Some(ty.into());
            "odd-type-on-nonterminal"
        }
        15 => {
            let ty = *t.pick(ODD_TYPES);
            g.params.push(format!("odd: {ty}"));
            "odd-type-in-parameter"
        }
        16 => {
            let ty = *t.pick(ODD_TYPES);
            match &mut g.lexer {
                GLexer::Extern { assoc, enum_ty, convs } => match t.below(3) {
                    0 => assoc.push(format!("type Location = {ty};")),
                    1 => *enum_ty = Some(ty.to_string()),
                    _ => convs.push(GConv { attrs: vec![], from: "\"odd\"".into(), to: format!("Tok::Odd(<{ty}>)") }),
                },
                _ => g.wheres.push(format!("{ty}: Clone")),
            }
            "odd-type-in-extern-or-where"
        }
        17 => {
            g.wheres.push((*t.pick(&["T: #Top#", "#Top#: Clone", "'a: 'b + 'c", "for<'a> &'a T: Foo<'a, Out = #Top#>", "T: Fn(#Top#) -> #Top#", "T:", "'a:"])).to_string());
            "odd-where-clause"
        }
        18 => {
            // macro arity / kind misuse
            let name = plain_nt_name(g, t);
            let sym = match t.below(8) {
                0 => "Comma".to_string(),
                1 => "Comma<Top, Top>".to_string(),
                2 => format!("{name}<Top>"),
                3 => "Undefined<Top>".to_string(),
                4 => "Comma<Comma>".to_string(),
                5 => "Comma<Undefined>".to_string(),
                6 => "Comma<Comma<Comma<Comma<\"n\">>>>".to_string(),
                _ => "Comma<>".to_string(),
            };
            let at = pick_alt(g, t);
            if let Some(a) = alt_mut(g, at) {
                a.syms.push(sym);
            }
            "macro-misuse"
        }
        19 => {
            // recursive macros
            let body = *t.pick(&["XRec<(T)>", "XRec<T*>", "XRec<XRec<T>>", "XRec<T>", "XRec<\"n\">", "XRec<(T \"n\")>", "XRec<(T T)>"]);
            g.items.push(GItem::Nt(GNt::new("XRec", Some("()"), vec![GAlt::new(&["T"], Some("=> ()")), GAlt::new(&[body, "\"x\""], Some("=> ()"))]).params(&["T"])));
            let at = pick_alt(g, t);
            if let Some(a) = alt_mut(g, at) {
                a.syms.push("XRec<\"n\">".into());
            }
            "recursive-macro"
        }
        20 => {
            // macro definitions with odd parameter lists
            let ps: &[&str] = match t.below(4) {
                0 => &["T", "T"],
                1 => &["Top"],
                2 => &["T", "U", "V", "W"],
                _ => &["XM"],
            };
            g.items.push(GItem::Nt(GNt::new("XM", None, vec![GAlt::new(&[ps[0]], None)]).params(ps)));
            let args: Vec<&str> = ps.iter().map(|_| "\"n\"").collect();
            let at = pick_alt(g, t);
            if let Some(a) = alt_mut(g, at) {
                a.syms.push(format!("XM<{}>", args.join(", ")));
            }
            "macro-parameter-list"
        }
        21 => {
            g.items.push(GItem::Nt(GNt::new("XPubM", Some("()"), vec![GAlt::new(&["T"], Some("=> ()"))]).params(&["T"]).vis("pub")));
            "pub-macro"
        }
        22 => {
            // conditions: on non-macro, unknown lhs, bad regex, non-literal argument
            let cond = *t.pick(&["T == \"a\"", "T != \"a\"", "T ~~ \"(\"", "T !~ \"[\"", "U == \"a\"", "Top == \"a\"", "T ~~ \"a{99999}\"", "T == \"\\x\"", "T ~~ \"\""]);
            let arg = *t.pick(&["\"a\"", "Top", "r\"a\"", "(\"a\")", "\"a\"*", "@L", "!"]);
            let in_macro = t.chance(200);
            let mut n = GNt::new("XCond", Some("()"), vec![GAlt::new(&["\"n\""], Some("=> ()")).cond(cond), GAlt::new(&[], Some("=> ()"))]);
            if in_macro {
                n = n.params(&["T"]);
            }
            g.items.push(GItem::Nt(n));
            let at = pick_alt(g, t);
            if let Some(a) = alt_mut(g, at) {
                a.syms.push(if in_macro { format!("XCond<{arg}>") } else { "XCond".to_string() });
            }
            "condition-misuse"
        }
        23 => {
            // named / anonymous mixing, duplicates, names without action
            let name = plain_nt_name(g, t);
            let at = pick_alt(g, t);
            let which = t.below(6);
            if let Some(a) = alt_mut(g, at) {
                match which {
                    0 => {
                        a.syms.push(format!("<x:{name}>"));
                        a.syms.push(format!("<{name}>"));
                    }
                    1 => {
                        a.syms.push(format!("<x:{name}>"));
                        a.syms.push(format!("<x:{name}>"));
                    }
                    2 => {
                        a.syms.push(format!("<x:{name}>"));
                        a.action = None;
                    }
                    3 => {
                        a.syms.push(format!("<mut x:{name}>"));
                        a.action = None;
                    }
                    4 => a.syms.push(format!("(<x:{name}>)")),
                    _ => a.syms.push(format!("<x:<y:{name}>>")),
                }
            }
            "named-symbol-misuse"
        }
        24 => {
            // `<>` misuse in action code
            let at = pick_alt(g, t);
            let code = *t.pick(&["=> foo(<>, <>)", "=> Foo {<>}", "=> (<>, <>, <>)", "=> \"<>\"", "=>? Ok(Foo { <> })", "=> <><>", "=> { <> }", "=> <>"]);
            if let Some(a) = alt_mut(g, at) {
                a.action = Some(code.into());
            }
            "angle-angle-misuse"
        }
        25 => {
            // F-new: several `<>` with no symbols at all
            g.items.push(GItem::Nt(GNt::new("XEmpty", Some("()"), vec![GAlt::new(&[], Some(*t.pick(&["=> foo(<>, <>)", "=> (<>, <>, <>)", "=>? Ok((<>, <>))"])))])));
            let at = pick_alt(g, t);
            if let Some(a) = alt_mut(g, at) {
                a.syms.push("XEmpty".into());
            }
            "angle-angle-on-empty-production"
        }
        26 => {
            // lookaround with an extern lexer that has no Location type
            if let GLexer::Extern { assoc, .. } = &mut g.lexer {
                assoc.retain(|a| !a.contains("Location"));
            }
            let at = pick_alt(g, t);
            let w = t.below(3);
            if let Some(a) = alt_mut(g, at) {
                match w {
                    0 => a.syms.push("@L".into()),
                    1 => a.syms.push("<@R>".into()),
                    _ => a.action = Some("=>@L".into()),
                }
            }
            "lookaround-without-location"
        }
        27 => {
            // error recovery oddities
            let sym = *t.pick(&["!", "!*", "!?", "(!)", "<e:!>", "! !", "<!>", "!+"]);
            let at = pick_alt(g, t);
            if let Some(a) = alt_mut(g, at) {
                a.syms.push(sym.into());
            }
            if t.chance(128) && !g.attrs.iter().any(|a| a.contains("recursive_ascent")) {
                g.attrs.push("#[recursive_ascent]".into());
            }
            "error-recovery-misuse"
        }
        28 => {
            // type inference: cycles and disagreements
            match t.below(6) {
                0 => {
                    g.items.push(GItem::Nt(GNt::new("XCa", None, vec![GAlt::new(&["XCb"], None)])));
                    g.items.push(GItem::Nt(GNt::new("XCb", None, vec![GAlt::new(&["XCa"], None), GAlt::new(&["\"n\""], Some("=> ()"))])));
                }
                1 => g.items.push(GItem::Nt(GNt::new("XCa", None, vec![GAlt::new(&["XCa", "\"n\""], None)]))),
                2 => g.items.push(GItem::Nt(GNt::new("XCa", None, vec![GAlt::new(&["\"n\""], None), GAlt::new(&["\"n\"", "\"n\""], None)]))),
                3 => g.items.push(GItem::Nt(GNt::new("XCa", None, vec![GAlt::new(&["\"n\""], Some("=> 1"))]))),
                4 => g.items.push(GItem::Nt(GNt::new("XCa", None, vec![GAlt::new(&["<XCa*>", "\"n\""], None)]))),
                _ => g.items.push(GItem::Nt(GNt::new("XCa", None, vec![GAlt::new(&["<x:\"n\">"], None)]))),
            }
            let at = pick_alt(g, t);
            if let Some(a) = alt_mut(g, at) {
                a.syms.push("XCa".into());
            }
            "type-inference-problem"
        }
        29 => {
            // inline cycles
            match t.below(4) {
                0 => {
                    g.items.push(GItem::Nt(GNt::new("XIa", Some("()"), vec![GAlt::new(&["XIb"], Some("=> ()"))]).attr("#[inline]")));
                    g.items.push(GItem::Nt(GNt::new("XIb", Some("()"), vec![GAlt::new(&["XIa"], Some("=> ()")), GAlt::new(&["\"n\""], Some("=> ()"))]).attr("#[inline]")));
                }
                1 => g.items.push(GItem::Nt(GNt::new("XIa", Some("()"), vec![GAlt::new(&["XIa", "\"n\""], Some("=> ()")), GAlt::new(&["\"n\""], Some("=> ()"))]).attr("#[inline]"))),
                2 => g.items.push(GItem::Nt(GNt::new("XIa", Some("()"), vec![GAlt::new(&["XIa"], Some("=> ()"))]).attr("#[inline]"))),
                _ => g.items.push(GItem::Nt(GNt::new("XIa", Some("()"), vec![GAlt::new(&["XIa?"], Some("=> ()"))]).attr("#[inline]"))),
            }
            let at = pick_alt(g, t);
            if let Some(a) = alt_mut(g, at) {
                a.syms.push("XIa".into());
            }
            "inline-cycle"
        }
        30 => {
            // make every nonterminal inline
            for i in g.nts() {
                let n = g.nt_mut(i);
                if n.vis.is_empty() && n.params.is_empty() && !n.attrs.iter().any(|a| a.contains("inline")) {
                    n.attrs.push("#[inline]".into());
                }
            }
            "inline-everything"
        }
        31 => {
            // no alternatives / empty braces
            let i = pick_nt(g, t);
            let n = g.nt_mut(i);
            n.alts.clear();
            n.braces = true;
            "no-alternatives"
        }
        32 => {
            let at = pick_alt(g, t);
            if let Some(a) = alt_mut(g, at) {
                a.syms.clear();
                if a.action.is_none() {
                    a.action = Some("=> ()".into());
                }
            }
            "empty-alternative"
        }
        33 => {
            let at = pick_alt(g, t);
            if let Some(a) = alt_mut(g, at) {
                a.syms.clear();
                a.action = Some("=> <>".into());
            }
            "empty-alternative-with-angle"
        }
        34 => {
            // bad regex / literal terminals in the grammar body
            let r = *t.pick(BAD_REGEX);
            let at = pick_alt(g, t);
            if let Some(a) = alt_mut(g, at) {
                a.syms.push(r.into());
            }
            "odd-terminal-in-body"
        }
        35 => {
            // bad entries in a match block
            let r = *t.pick(BAD_REGEX);
            let entry = match t.below(6) {
                0 => r.to_string(),
                1 => format!("{r} => \"X\""),
                2 => format!("{r} => XTERM"),
                3 => format!("{r} => {{ }}"),
                4 => format!("{r} => {r}"),
                _ => format!("{r} => Top"),
            };
            match &mut g.lexer {
                GLexer::Builtin { rungs } => {
                    if rungs.is_empty() {
                        rungs.push(vec![entry, "_".into()]);
                    } else {
                        let k = t.below(rungs.len());
                        rungs[k].insert(0, entry);
                    }
                }
                GLexer::Extern { .. } => g.items.push(GItem::Raw(format!("match {{ {entry} }}"))),
            }
            "odd-match-entry"
        }
        36 => {
            // F9: two patterns mapped to one terminal name
            let (a, b) = *t.pick(&[("r\"x1\" => \"X\"", "r\"x2\" => \"X\""), ("r\"x1\" => XT", "r\"x2\" => XT"), ("\"x1\" => \"X\"", "r\"x2\" => \"X\""), ("\"x1\" => \"x2\"", "\"x2\"")]);
            match &mut g.lexer {
                GLexer::Builtin { rungs } => {
                    if rungs.is_empty() {
                        rungs.push(vec![a.into(), b.into(), "_".into()]);
                    } else {
                        rungs[0].push(a.into());
                        let k = t.below(rungs.len());
                        rungs[k].push(b.into());
                    }
                }
                GLexer::Extern { convs, .. } => {
                    convs.push(GConv { attrs: vec![], from: "\"dup\"".into(), to: "Tok::A(<u32>)".into() });
                    convs.push(GConv { attrs: vec![], from: "\"dup\"".into(), to: "Tok::B(<u32>)".into() });
                }
            }
            "two-patterns-one-terminal"
        }
        37 => {
            // match block structure
            match &mut g.lexer {
                GLexer::Builtin { rungs } => match t.below(6) {
                    0 => rungs.push(vec!["_".into()]),
                    1 => rungs.insert(0, vec!["_".into(), "_".into()]),
                    2 => {
                        for r in rungs.iter_mut() {
                            r.retain(|e| e != "_");
                        }
                        if rungs.is_empty() {
                            rungs.push(vec!["\"only\"".into()]);
                        }
                    }
                    3 => rungs.push(vec![]),
                    4 => rungs.clear(),
                    _ => {
                        let dup = rungs.first().cloned().unwrap_or_else(|| vec!["\"a\"".into()]);
                        rungs.push(dup);
                    }
                },
                GLexer::Extern { .. } => g.items.push(GItem::Raw("match { _ }".into())),
            }
            "match-block-structure"
        }
        38 => {
            g.items.push(GItem::Raw((*t.pick(&["match { \"a\" } else { \"b\", _ }", "match { _ }", "match { }", "match { r\"z+\" => Z } else { r\"z\" => Z2 }"])).to_string()));
            "second-match-block"
        }
        39 => {
            g.items.push(GItem::Raw(
                (*t.pick(&[
                    "extern { }",
                    "extern { type Location = usize; }",
                    "extern { type Error = (); type Error = (); }",
                    "extern { type Foo = usize; }",
                    "extern { enum Tok { } }",
                    "extern { enum Tok { \"n\" => Tok::N } }",
                    "extern { type Location = usize; enum Tok { \"n\" => Tok::N, } type Error = E; }",
                    "extern { enum #Top# { \"n\" => N } }",
                    "extern { enum Tok<'input, T> { \"n\" => Tok::N(<&'input T>), Top => Tok::Top } }",
                ]))
                .to_string(),
            ));
            "second-extern-block"
        }
        40 => {
            // conversions with odd patterns
            let pat = *t.pick(&[
                "Tok::A(<u32>, <#X#>)",
                "Tok::A { x: <u32>, .. }",
                "Tok::A { .. }",
                "Tok::A { x: _, y: (<u8>, 'c', \"s\") }",
                "..",
                "_",
                "<u32>",
                "(<u32>, <u8>)",
                "'a'",
                "\"str\"",
                "\"\\x\"",
                "Tok::A(Tok::B(Tok::C(<Vec<Vec<u8>>>)))",
                "a::b::C",
                "",
                "Tok::A(",
                "Tok::A)",
                "Tok::A(<>)",
                "Tok::A(<'a>)",
                "Tok::A,,",
                "Tok::A /* c */",
                "Tok::A // c",
                "r\"x\"",
                "{ }",
                "<#\"n\"#>",
            ]);
            let attr = *t.pick(&["", "", "#[cfg(feature = \"never\")]", "#[inline]", "#[cfg(not(feature = \"never\"))]", "#[precedence(level=\"1\")]"]);
            let from = *t.pick(&["\"odd\"", "Odd", "r\"odd\"", "Top", "\"\"", "\"k0\""]);
            match &mut g.lexer {
                GLexer::Extern { convs, .. } => {
                    let k = t.below(convs.len() + 1);
                    convs.insert(k, GConv { attrs: if attr.is_empty() { vec![] } else { vec![attr.into()] }, from: from.into(), to: pat.into() });
                }
                _ => g.items.push(GItem::Raw(format!("extern {{ enum Tok {{ {attr} {from} => {pat} }} }}"))),
            }
            let at = pick_alt(g, t);
            if t.chance(128) {
                if let Some(a) = alt_mut(g, at) {
                    a.syms.push(from.into());
                }
            }
            "odd-conversion"
        }
        41 => {
            // cfg disables a conversion that the grammar uses / all conversions
            if let GLexer::Extern { convs, .. } = &mut g.lexer {
                let all = t.chance(64);
                let k = t.below(convs.len().max(1));
                for (i, c) in convs.iter_mut().enumerate() {
                    if all || i == k {
                        c.attrs.push("#[cfg(feature = \"never\")]".into());
                    }
                }
            }
            "cfg-disables-conversion"
        }
        42 => {
            // terminal without conversion / bare terminal without match entry
            let at = pick_alt(g, t);
            let s = *t.pick(&["\"nowhere\"", "NOWHERE", "r\"nowhere\"", "\"\"", "r\"\""]);
            if let Some(a) = alt_mut(g, at) {
                a.syms.push(s.into());
            }
            "terminal-without-definition"
        }
        43 => {
            // name clashes between terminals and nonterminals
            let name = plain_nt_name(g, t);
            match &mut g.lexer {
                GLexer::Extern { convs, .. } => convs.push(GConv { attrs: vec![], from: name, to: "Tok::Clash".into() }),
                GLexer::Builtin { rungs } => {
                    if rungs.is_empty() {
                        rungs.push(vec![format!("r\"clash\" => {name}"), "_".into()]);
                    } else {
                        rungs[0].push(format!("r\"clash\" => {name}"));
                    }
                }
            }
            "terminal-nonterminal-name-clash"
        }
        44 => {
            // header: reserved / duplicate parameters
            match t.below(7) {
                0 => g.type_params.push("'input".into()),
                1 => g.params.push("input: &'input str".into()),
                2 => {
                    g.type_params.push("T".into());
                    g.type_params.push("T".into());
                }
                3 => {
                    g.params.push("p: u8".into());
                    g.params.push("p: u8".into());
                }
                4 => g.type_params.insert(0, "T".into()),
                5 => g.params.push("__0: u8".into()),
                _ => g.type_params.push("'static".into()),
            }
            "header-parameters"
        }
        45 => {
            // no public symbol / many / odd visibilities
            match t.below(5) {
                0 => {
                    for i in g.nts() {
                        g.nt_mut(i).vis.clear();
                    }
                }
                1 => {
                    for i in g.nts() {
                        let n = g.nt_mut(i);
                        if n.params.is_empty() && !n.attrs.iter().any(|a| a.contains("inline")) {
                            n.vis = "pub".into();
                        }
                    }
                }
                2 => {
                    let i = pick_nt(g, t);
                    g.nt_mut(i).vis = "pub(in super::super)".into();
                }
                3 => {
                    for i in g.nts() {
                        let n = g.nt_mut(i);
                        if !n.vis.is_empty() {
                            n.attrs.push("#[cfg(feature = \"never\")]".into());
                        }
                    }
                }
                _ => {
                    let i = pick_nt(g, t);
                    g.nt_mut(i).vis = "pub(crate::a::b)".into();
                }
            }
            "visibility"
        }
        46 => {
            let c = *t.pick(CONFLICTS);
            g.items.push(GItem::Raw(c.into()));
            let at = pick_alt(g, t);
            if let Some(a) = alt_mut(g, at) {
                a.syms.push("XAmb".into());
            }
            "lr-conflict"
        }
        47 => {
            // make an existing nonterminal ambiguous by duplicating an alternative / self reference
            let i = pick_nt(g, t);
            let n = g.nt_mut(i);
            if let Some(a) = n.alts.first().cloned() {
                n.alts.push(a);
                n.braces = true;
            }
            "duplicate-alternative"
        }
        48 => {
            // unproductive / unreachable nonterminals
            match t.below(3) {
                0 => g.items.push(GItem::Nt(GNt::new("XUn", Some("()"), vec![GAlt::new(&["XUn", "\"n\""], Some("=> ()"))]))),
                1 => g.items.push(GItem::Nt(GNt::new("XUn", Some("()"), vec![GAlt::new(&["XUn"], Some("=> ()"))]).vis("pub"))),
                _ => {
                    g.items.push(GItem::Nt(GNt::new("XUn", Some("()"), vec![GAlt::new(&["XUn2", "XUn"], Some("=> ()"))]).vis("pub")));
                    g.items.push(GItem::Nt(GNt::new("XUn2", Some("()"), vec![GAlt::new(&[], Some("=> ()")), GAlt::new(&["XUn", "\"c\"", "\"a\""], Some("=> ()"))])));
                }
            }
            if t.chance(128) {
                let at = pick_alt(g, t);
                if let Some(a) = alt_mut(g, at) {
                    a.syms.push("XUn".into());
                }
            }
            "unproductive-nonterminal"
        }
        49 => {
            // rename a nonterminal definition only (uses dangle), or to an odd name
            let i = pick_nt(g, t);
            let nn = *t.pick(&["__0", "__action0", "input", "Token", "`Esc`", "`a b`", "``", "r#type", "_x", "é", "Self", "grammar2", "__Top", "alloc"]);
            g.nt_mut(i).name = nn.into();
            "rename-definition"
        }
        50 => {
            // use a name that is valid only in another namespace
            let at = pick_alt(g, t);
            let s = *t.pick(&["`Top`", "`Undefined`", "`Comma`", "`\"k0\"`", "input", "Token", "T", "__0", "_"]);
            if let Some(a) = alt_mut(g, at) {
                a.syms.push(s.into());
            }
            "odd-symbol-name"
        }
        51 => {
            // deep nesting (bounded)
            let kind = t.below(4);
            // plain parentheses may go deep; nested repetitions make LALRPOP's (polynomial)
            // inlining and conflict reporting slow, so they stay shallow
            let d = if kind == 0 { t.range(2, 60) } else { t.range(2, 9) };
            let mut s = String::from("\"n\"");
            for i in 0..d {
                s = match kind {
                    0 => format!("({s})"),
                    1 => format!("({s})?"),
                    2 => format!("({s} \"n\")*"),
                    _ => {
                        if i % 2 == 0 {
                            format!("<{s}+>")
                        } else {
                            format!("({s})")
                        }
                    }
                };
            }
            let at = pick_alt(g, t);
            if let Some(a) = alt_mut(g, at) {
                a.syms.push(s);
            }
            "deep-nesting"
        }
        52 => {
            // repeated repetition operators
            let name = plain_nt_name(g, t);
            let ops = *t.pick(&["**", "++", "??", "*?", "?*", "+*?", "*+*+", "?+"]);
            let at = pick_alt(g, t);
            if let Some(a) = alt_mut(g, at) {
                a.syms.push(format!("{name}{ops}"));
            }
            "stacked-repetition"
        }
        53 => {
            // selected symbols inside groups / repeats
            let name = plain_nt_name(g, t);
            let s = match t.below(5) {
                0 => format!("(<{name}> <{name}>)"),
                1 => format!("<(<{name}>)>"),
                2 => format!("(<x:{name}>)*"),
                3 => format!("<<{name}>>"),
                _ => format!("(<{name}> <x:{name}>)"),
            };
            let at = pick_alt(g, t);
            if let Some(a) = alt_mut(g, at) {
                a.syms.push(s);
            }
            "selection-inside-group"
        }
        54 => {
            // lookaround forms
            let s = *t.pick(&["@L*", "@R?", "(@L @R)", "<@L>", "<l:@L>", "@L @L @L", "Comma<@L>", "(@L)+"]);
            let at = pick_alt(g, t);
            if let Some(a) = alt_mut(g, at) {
                a.syms.push(s.into());
            }
            "lookaround-forms"
        }
        55 => {
            // actions of the lookaround kind on productions with symbols
            let at = pick_alt(g, t);
            if let Some(a) = alt_mut(g, at) {
                a.action = Some((*t.pick(&["=>@L", "=>@R"])).into());
            }
            "lookaround-action"
        }
        56 => {
            // fallible actions everywhere / without Error type
            for i in g.nts() {
                for a in &mut g.nt_mut(i).alts {
                    if let Some(act) = &a.action {
                        if act.starts_with("=> ") {
                            a.action = Some(format!("=>? Ok({})", &act[3..]));
                        }
                    }
                }
            }
            if let GLexer::Extern { assoc, .. } = &mut g.lexer {
                assoc.retain(|a| !a.contains("Error"));
            }
            "all-fallible"
        }
        57 => {
            // module attributes and uses
            let s = *t.pick(&["#![]", "#![a][b]", "#![a(\"]\")]", "#![cfg(x)]", "#![doc = \"]]\"]", "#![a = r\"x\"]"]);
            g.mod_attrs.push(s.into());
            "module-attribute"
        }
        58 => {
            let s = *t.pick(&["", "super::*", "super::super::x", "a::{b, c::{d, e}}", "a as b", "{a, b}", "::a", "r#use::x", "a::b::\"c\"", "a /* ; */ ::b", "a; use b"]);
            g.uses.push(s.into());
            "odd-use"
        }
        59 => {
            // extern lexer without enum but grammar uses terminals / with match
            g.lexer = GLexer::Extern { assoc: vec!["type Location = usize;".into(), "type Error = E;".into()], enum_ty: None, convs: vec![] };
            if t.chance(128) {
                g.items.push(GItem::Raw("match { r\"[a-z]+\" => ID, _ }".into()));
            }
            "extern-without-enum"
        }
        60 => {
            // swap lexer kind under the grammar's feet
            g.lexer = match &g.lexer {
                GLexer::Builtin { .. } => GLexer::Extern { assoc: vec![], enum_ty: Some("Tok".into()), convs: vec![GConv { attrs: vec![], from: "\"n\"".into(), to: "Tok::N".into() }] },
                GLexer::Extern { .. } => GLexer::Builtin { rungs: vec![] },
            };
            "swap-lexer-kind"
        }
        61 => {
            // overlapping regular expressions (ambiguity diagnostics)
            let (a, b) = *t.pick(&[("r\"[a-z]+\"", "r\"[a-c]+\""), ("r\"a*\"", "r\"b*\""), ("r\"x\"", "\"x\""), ("r\".\"", "r\"\\d\""), ("r\"é+\"", "r\"\\p{L}\""), ("r\"(?i)k\"", "r\"\\u{212a}\"")]);
            let at = pick_alt(g, t);
            if let Some(al) = alt_mut(g, at) {
                al.syms.push(a.into());
                al.syms.push(b.into());
            }
            "overlapping-terminals"
        }
        62 => {
            // remove a definition that is still referenced
            let nts = g.nts();
            if nts.len() > 1 {
                let k = nts[1 + t.below(nts.len() - 1)];
                g.items.remove(k);
            }
            "remove-definition"
        }
        63 => {
            // action code with odd but scannable content
            let code = *t.pick(&[
                "=> '{'",
                "=> \"}\"",
                "=> r#\"a\"}\"#.to_string()",
                "=> r\"\\\".to_string()",
                "=> 'a: loop { break 'a }",
                "=> b'}'",
                "=> { /* } */ }",
                "=> { // }\n }",
                "=> '\\''",
                "=> '\"'",
                "=> \"\\\"}\"",
                "=> (|x: &'static str| x)(\"a\")",
                "=>",
                "=>?",
                "=> ()",
                "=> <T as Tr<'a>>::f::<'b>()",
            ]);
            let at = pick_alt(g, t);
            if let Some(a) = alt_mut(g, at) {
                a.action = Some(code.into());
            }
            "odd-action-code"
        }
        64 => {
            // attribute arguments of odd shapes on a valid attribute name
            let a = *t.pick(&["#[inline()]", "#[inline(a(b(c(d))))]", "#[cfg(all(any(all(any(feature = \"fa\")))))]", "#[cfg(any(feature = \"\\x\"))]", "#[cfg(feature = \"\")]", "#[cfg(feature = \"a,b\")]"]);
            let i = pick_nt(g, t);
            g.nt_mut(i).attrs.push(a.into());
            "attribute-argument-shapes"
        }
        65 => {
            // every alternative disabled by cfg
            let i = pick_nt(g, t);
            for a in &mut g.nt_mut(i).alts {
                a.attrs.push("#[cfg(feature = \"never\")]".into());
            }
            "cfg-disables-all-alternatives"
        }
        66 => {
            // precedence: all alternatives on one level with assoc / only non-first annotated
            let i = pick_nt(g, t);
            let w = t.below(3);
            let n = g.nt_mut(i);
            for (j, a) in n.alts.iter_mut().enumerate() {
                match w {
                    0 => {
                        a.attrs.push("#[precedence(level=\"3\")]".into());
                        a.attrs.push("#[assoc(side=\"left\")]".into());
                    }
                    1 if j > 0 => a.attrs.push("#[precedence(level=\"1\")]".into()),
                    2 if j == 0 => a.attrs.push("#[assoc(side=\"right\")]".into()),
                    _ => {}
                }
            }
            "precedence-layout"
        }
        67 => {
            // precedence: huge number of levels
            // (the level count stays moderate: LR(1) construction is roughly cubic in it,
            // 80 levels already take a minute)
            let n = t.range(5, 25);
            let mut alts = vec![GAlt::new(&["\"n\""], Some("=> ()")).attr("#[precedence(level=\"0\")]")];
            for l in 1..n {
                alts.push(GAlt::new(&["XLv", &format!("\"op{l}\""), "XLv"], Some("=> ()")).attr(&format!("#[precedence(level=\"{}\")]", l * 7919 % 100_003)).attr("#[assoc(side=\"left\")]"));
            }
            g.items.push(GItem::Nt(GNt::new("XLv", Some("()"), alts)));
            "many-precedence-levels"
        }
        68 => {
            // type annotations on macro definitions referring to parameters in odd ways
            let ty = *t.pick(&["T<T>", "Vec<T::Out>", "T::U::V", "&'a T", "(T, #T#)", "#T*#", "dyn T", "[T]", "::T"]);
            g.items.push(GItem::Nt(GNt::new("XTy", Some(ty), vec![GAlt::new(&["<T>"], None)]).params(&["T"])));
            let at = pick_alt(g, t);
            if let Some(a) = alt_mut(g, at) {
                a.syms.push((*t.pick(&["XTy<\"n\">", "XTy<Top>", "XTy<(\"n\" \"n\")>", "XTy<\"n\"*>"])).into());
            }
            "macro-type-annotation"
        }
        69 => {
            // associated-type style parameters
            g.type_params.push("P".into());
            let i = pick_nt(g, t);
            g.nt_mut(i).ty = Some((*t.pick(&["P::Out", "P::Out<u8>", "<P as Tr>::Out", "P::A::B", "Vec<P::Out>"])).into());
            "associated-type"
        }
        70 => {
            // mistakes in escapes of quoted terminals
            let s = *t.pick(&["\"\\x4\"", "\"\\\"", "\"a\\", "\"\\u{1F600}\"", "\"\\x7F\"", "\"\\xFF\"", "\"\\n\""]);
            let at = pick_alt(g, t);
            if let Some(a) = alt_mut(g, at) {
                a.syms.push(s.into());
            }
            "escape-in-literal"
        }
        71 => {
            // make Top reference itself through an inferred/pub path
            let at = pick_alt(g, t);
            if let Some(a) = alt_mut(g, at) {
                a.syms.push("Top".into());
            }
            "reference-start-symbol"
        }
        72 => {
            // grammar attribute combinations
            for a in ["#[LALR]", "#[LALR]", "#[recursive_ascent]", "#[table_driven]", "#[test_all]"] {
                if t.chance(128) {
                    g.attrs.push(a.into());
                }
            }
            "grammar-attribute-combination"
        }
        73 => {
            // drop the action of a typed alternative (type mismatch is rustc's business, must be accepted)
            let at = pick_alt(g, t);
            if let Some(a) = alt_mut(g, at) {
                a.action = None;
            }
            "drop-action"
        }
        74 => {
            // drop all type annotations
            for i in g.nts() {
                g.nt_mut(i).ty = None;
            }
            "drop-all-types"
        }
        75 => {
            // macro argument shadows / equals a global name; macro named like a nonterminal
            let name = plain_nt_name(g, t);
            g.items.push(GItem::Nt(GNt::new("XSh", None, vec![GAlt::new(&[&name], None)]).params(&[&name])));
            let at = pick_alt(g, t);
            if let Some(a) = alt_mut(g, at) {
                a.syms.push("XSh<\"n\">".into());
            }
            "macro-parameter-shadows-global"
        }
        76 => {
            // a macro and a nonterminal with the same name
            g.items.push(GItem::Nt(GNt::new("Top", Some("()"), vec![GAlt::new(&["T"], Some("=> ()"))]).params(&["T"])));
            "macro-and-nonterminal-same-name"
        }
        _ => {
            let name = some_nt_name(g, t);
            let at = pick_alt(g, t);
            if let Some(a) = alt_mut(g, at) {
                a.syms.push(format!("<{name}>"));
            }
            "select-any-name"
        }
    };
    label.to_string()
}

const TEXT_SNIPPETS: &[&str] = &[
    "#X#", "#", "# #", "<", ">", "<>", "(", ")", "{", "}", ";", ",", "=>", "=>@L", "=", ":", "::", "!", "?", "*", "+", "@L", "@R", "_", "..", "&", "'a", "'a'", "\"", "'",
    "`", "/*", "*/", "//", "r\"", "r#\"", "é", "\u{0}", "\u{feff}", "\\", "if", "pub", "mut", "match", "extern", "enum", "type", "grammar;", "use x;", "dyn", "for", "where", "in",
    "else",
];

/// A mistake on the printed text: insert / delete / duplicate at a token
/// boundary. Returns (label, new text).
pub fn apply_text(text: &str, t: &mut Tape) -> (String, String) {
    let toks = crate::grammar_text::split(text);
    if toks.is_empty() {
        return ("text-noop".into(), text.to_string());
    }
    let mut toks = toks;
    let i = t.below(toks.len());
    let label = match t.below(4) {
        0 => {
            let s = *t.pick(TEXT_SNIPPETS);
            toks.insert(i, crate::grammar_text::GTok::new(crate::grammar_text::TK::Other, s));
            "text-insert"
        }
        1 => {
            toks.remove(i);
            "text-delete"
        }
        2 => {
            let tk = toks[i].clone();
            toks.insert(i, tk);
            "text-duplicate"
        }
        _ => {
            let j = t.below(toks.len());
            toks.swap(i, j);
            "text-swap"
        }
    };
    (label.to_string(), crate::grammar_text::join(&toks))
}
