//! C26 - grammar layout is insignificant; embedded Rust is transferred verbatim.
//!
//! (a) layout: a grammar (repository files + template grammars) is re-emitted
//!     from the harness's token splitter with random whitespace, `//` and
//!     nested `/* */` comments between tokens (also between a code block and
//!     its terminator), and with tokens glued where that is lexically safe.
//!     Oracle: the Rust token stream of the generated file (after the two
//!     header lines) is unchanged.
//! (b) embedded Rust: action code, `use` items, `#![..]` attributes and the
//!     nonterminal's type annotation are assembled from a small grammar of Rust
//!     snippets (nested delimiters; string / raw string / byte string / char
//!     literals containing delimiters and quotes; lifetimes, labels, comments
//!     containing delimiters). Oracle: LALRPOP accepts; the token stream of the
//!     body of `fn __action<n>` equals the snippet's; `use` items / attributes
//!     occur in the output; the return type equals the annotation.

use crate::core::{hash_of, par_map, Checker, Ctx};
use crate::grammar_text as gt;
use crate::run::Exit;
use crate::tape::{self, Tape};
use serde_json::{json, Value};
use std::path::{Path, PathBuf};

// ---------------------------------------------------------------------------
// running

enum Gen {
    Rejected(String),
    Abnormal(String),
    Output(String),
}

fn generate(ctx: &Ctx, dir: &Path, text: &str, extra: &[String]) -> Gen {
    let _ = std::fs::remove_dir_all(dir);
    let _ = std::fs::create_dir_all(dir.join("out"));
    let file = dir.join("g.lalrpop");
    let _ = std::fs::write(&file, text);
    let mut args: Vec<String> = vec!["--force".into(), "-o".into(), dir.join("out").to_string_lossy().into_owned()];
    args.extend(extra.iter().cloned());
    args.push(file.to_string_lossy().into_owned());
    let out = gt::cli_cmd(&ctx.cli, &args, 300).run();
    let rs = std::fs::read_to_string(dir.join("out").join("g.rs")).ok();
    let _ = std::fs::remove_dir_all(dir);
    let diag = format!("{}{}", out.stdout, out.stderr);
    let diag: String = diag.lines().filter(|l| !l.starts_with("processing file")).collect::<Vec<_>>().join("\n");
    match (&out.exit, rs) {
        (Exit::Code(0), Some(rs)) => Gen::Output(rs),
        (Exit::Code(1), _) if !out.panicked() => Gen::Rejected(diag.chars().take(400).collect()),
        (e, _) => Gen::Abnormal(format!("{e:?}: {}", diag.chars().take(300).collect::<String>())),
    }
}

fn tokens_of_output(rs: &str) -> Result<Vec<String>, String> {
    gt::rust_tokens(gt::strip_header(rs))
}

// ---------------------------------------------------------------------------
// (a) layout

#[derive(Clone)]
struct LItem {
    name: String,
    text: String,
    extra: Vec<String>,
    tape: Vec<u8>,
}

struct LOutcome {
    skipped: Option<String>,
    variants: usize,
    /// (signature, what, variant text)
    failure: Option<(String, String, String)>,
}

fn classify_layout_failure(base: &[String], got: &Gen) -> Option<(String, String)> {
    match got {
        Gen::Output(rs) => match tokens_of_output(rs) {
            Ok(t) if t == base => None,
            Ok(t) => {
                let i = base.iter().zip(t.iter()).position(|(a, b)| a != b).unwrap_or(base.len().min(t.len()));
                let ctxt = |v: &[String]| v[i.saturating_sub(5)..(i + 6).min(v.len())].join(" ");
                Some(("C26/layout/token-stream-differs".into(), format!("output differs at token {i}: original layout `.. {} ..`, perturbed layout `.. {} ..`", ctxt(base), ctxt(&t))))
            }
            Err(e) => Some(("C26/layout/output-unlexable".into(), format!("output for the perturbed layout is not lexable Rust: {e}"))),
        },
        Gen::Rejected(d) => Some(("C26/layout/rejected-after-relayout".into(), format!("accepted in the original layout, rejected after re-layout: {d}"))),
        Gen::Abnormal(d) => Some(("C26/layout/abnormal-after-relayout".into(), format!("accepted in the original layout, after re-layout: {d}"))),
    }
}

fn layout_variants(item: &LItem, seed_tape: &[u8], n: usize) -> Vec<String> {
    let toks = gt::split(&item.text);
    let mut out = vec![gt::join(&toks)];
    let mut t = Tape::new(seed_tape);
    for _ in 0..n {
        out.push(gt::layout(&toks, &mut t));
    }
    out
}

fn eval_layout(ctx: &Ctx, dir: &Path, item: &LItem, seed_tape: &[u8], n: usize) -> LOutcome {
    let mut oc = LOutcome { skipped: None, variants: 0, failure: None };
    let base = match generate(ctx, dir, &item.text, &item.extra) {
        Gen::Output(rs) => match tokens_of_output(&rs) {
            Ok(t) => t,
            Err(e) => {
                oc.skipped = Some(format!("default output unlexable (C24's business): {e}"));
                return oc;
            }
        },
        Gen::Rejected(_) => {
            oc.skipped = Some("grammar rejected by lalrpop".into());
            return oc;
        }
        Gen::Abnormal(_) => {
            oc.skipped = Some("abnormal exit on the original text (C18's business)".into());
            return oc;
        }
    };
    for v in layout_variants(item, seed_tape, n) {
        oc.variants += 1;
        let got = generate(ctx, dir, &v, &item.extra);
        if let Some((sig, what)) = classify_layout_failure(&base, &got) {
            oc.failure = Some((sig, what, v));
            break;
        }
    }
    oc
}

// ---------------------------------------------------------------------------
// (b) embedded Rust

#[derive(Clone, Debug, Default)]
struct Snip {
    code: String,
    /// contains an unbalanced delimiter or quote inside a literal or comment
    tricky: bool,
    raw_string: bool,
}

const IDENTS: &[&str] = &["x", "foo", "self_", "r", "br", "b", "rx", "r2", "_y", "Vec", "r#type"];
const STRINGS: &[(&str, bool)] = &[
    ("\"a\"", false),
    ("\"}\"", true),
    ("\"{(\"", true),
    ("\"]\"", true),
    ("\"\\\"\"", true),
    ("\"\\\\\"", false),
    ("\"'\"", true),
    ("\", ;\"", false),
    ("\"/* \"", true),
    ("\"// )\"", true),
    ("\"\\\\\\\"}\"", true),
    ("b\"}\"", true),
    ("b\"\\\"(\"", true),
    ("\"r#\"", false),
    ("\"\\n\\u{7d}\"", false),
];
const RAW_STRINGS: &[(&str, bool)] = &[
    ("r\"a\"", false),
    ("r\"}\"", true),
    ("r#\"a\"#", false),
    ("r#\"a\"}\"#", true),
    ("r#\"\"\"#", true),
    ("r##\"a\"#b\"##", true),
    ("r##\"}\"#{\"##", true),
    ("r\"\\\"", true),
    ("r\"(\\\"", true),
    ("br\"x\\\"", true),
    ("br#\"]\"[\"#", true),
    ("r#\"'\"#", true),
    ("r\"'\"", true),
    ("r###\"\"##\"###", true),
];
const CHARS: &[(&str, bool)] = &[
    ("'a'", false),
    ("'{'", true),
    ("'}'", true),
    ("'('", true),
    ("']'", true),
    ("'\\''", true),
    ("'\"'", true),
    ("'\\\\'", false),
    ("','", false),
    ("';'", false),
    ("b'}'", true),
    ("b'\\''", true),
    ("'\\u{7d}'", false),
    ("'\\x7b'", false),
    ("'é'", false),
    ("'r'", false),
];
const COMMENTS: &[&str] = &["/* } */", "/* ( /* ] */ \" */", "// )\n", "// \" ' {\n", "/* ' */", "/**/", "// ,;\n", "/* , ; */"];
const LIFETIME_EXPRS: &[&str] = &[
    "'a: loop { break 'a }",
    "'outer: for i in 0..3 { continue 'outer }",
    "(foo::<'static, &'a str>(x))",
    "(x as &'static str)",
    "(|y: &'a str| -> &'a str { y })(x)",
    "<T as Tr<'a>>::f::<'b>(x)",
    "'r: { break 'r 1 }",
];

struct SnipGen<'t, 'a> {
    t: &'t mut Tape<'a>,
    tricky: bool,
    raw: bool,
    allow_raw: bool,
}

impl<'t, 'a> SnipGen<'t, 'a> {
    fn atom(&mut self) -> String {
        match self.t.weighted(&[4, 3, 4, 3, 3, 2]) {
            0 => (*self.t.pick(IDENTS)).to_string(),
            1 => format!("{}", self.t.below(100)),
            2 => {
                let (s, tr) = *self.t.pick(STRINGS);
                self.tricky |= tr;
                s.to_string()
            }
            3 => {
                let (s, tr) = *self.t.pick(CHARS);
                self.tricky |= tr;
                s.to_string()
            }
            4 if self.allow_raw => {
                let (s, tr) = *self.t.pick(RAW_STRINGS);
                self.tricky |= tr;
                self.raw = true;
                s.to_string()
            }
            4 => (*self.t.pick(IDENTS)).to_string(),
            _ => {
                self.tricky = true;
                (*self.t.pick(LIFETIME_EXPRS)).to_string()
            }
        }
    }

    fn comment(&mut self) -> String {
        if self.t.chance(48) {
            self.tricky = true;
            format!(" {} ", *self.t.pick(COMMENTS))
        } else {
            " ".into()
        }
    }

    fn list(&mut self, depth: usize, sep: &str) -> String {
        let n = self.t.range(0, 3);
        let mut parts = vec![];
        for _ in 0..n {
            parts.push(self.expr(depth + 1));
        }
        let c = self.comment();
        parts.join(&format!("{sep}{c}"))
    }

    /// an expression without `,` / `;` at delimiter depth 0
    fn expr(&mut self, depth: usize) -> String {
        if depth >= 4 {
            return self.atom();
        }
        match self.t.weighted(&[6, 2, 2, 2, 2, 2, 1, 1, 1, 3]) {
            0 => self.atom(),
            9 => {
                // binary operators, written with and without blanks around them, so that an
                // operator character is directly followed by a delimiter, a quote or a lifetime
                let a = self.expr(depth + 1);
                let b = self.expr(depth + 1);
                let op = *self.t.pick(&["/", " / ", "*", "-", " - ", "/ ", " /", "%", "+", " + ", "&&", "==", "|", "&"]);
                if op.contains('/') {
                    self.tricky = true;
                }
                format!("{a}{op}{b}")
            }
            1 => format!("({})", self.list(depth, ",")),
            2 => format!("[{}]", self.list(depth, ",")),
            3 => {
                let stmts = self.list(depth, ";");
                let c = self.comment();
                format!("{{{c}{stmts} }}")
            }
            4 => format!("{}({})", *self.t.pick(IDENTS), self.list(depth, ",")),
            5 => format!("{}.m({})", self.atom(), self.list(depth, ",")),
            6 => format!("vec![{}]", self.list(depth, ",")),
            7 => {
                let a = self.expr(depth + 1);
                let b = self.expr(depth + 1);
                let c = self.comment();
                format!("match {a} {{ 1 => {b},{c}_ => {{ }} }}")
            }
            _ => {
                let a = self.atom();
                let b = self.expr(depth + 1);
                format!("Foo {{ a: {a}, b: {b} }}")
            }
        }
    }
}

fn gen_snippet(t: &mut Tape, allow_raw: bool) -> Snip {
    let mut g = SnipGen { t, tricky: false, raw: false, allow_raw };
    let mut code = g.expr(0);
    if g.t.chance(40) {
        // trailing comment before the terminator
        g.tricky = true;
        code.push_str(*g.t.pick(&[" /* } */", " // )\n", " /* , */"]));
    }
    if code == "()" {
        code = "(())".into();
    }
    Snip { code, tricky: g.tricky, raw_string: g.raw }
}

const USES: &[&str] = &[
    "std::collections::HashMap",
    "a::{b, c as d}",
    "a::{b::{c, d}, e::*}",
    "super::x::*",
    "self::y /* ; */ ::Z",
    "::core::option::Option::{self, Some}",
    "r#type::r#match as m",
    "a::b // trailing comment\n",
];
const MOD_ATTRS: &[&str] = &[
    "#![allow(unused, clippy::all)]",
    "#![doc = \"]] \\\" [\"]",
    "#![cfg_attr(feature = \"x\", allow(dead_code))]",
    "#![a(b = \"[\", c(d[e]))]",
    "#![deny(warnings)]",
];
const TYPES: &[&str] = &[
    "T",
    "Vec<(A, B)>",
    "&'input str",
    "&'input mut [u8]",
    "::std::vec::Vec<u8>",
    "Box<dyn Fn(A, B) -> C>",
    "Box<dyn for<'x> Fn(&'x str) -> T>",
    "(A, (B, C), [D])",
    "(A,)",
    "a::b::C<'input, D, E<F>>",
    "dyn Tr<'input, X>",
    "Option<&'input (A, B)>",
    "()",
    "((), ())",
];

#[derive(Clone)]
struct ECase {
    text: String,
    snippets: Vec<Snip>,
    fallible: Vec<bool>,
    uses: Vec<String>,
    attrs: Vec<String>,
    ty: String,
    tape: Vec<u8>,
}

fn build_text(c: &ECase) -> String {
    let mut s = String::new();
    for a in &c.attrs {
        s.push_str(a);
        s.push('\n');
    }
    for u in &c.uses {
        s.push_str("use ");
        s.push_str(u);
        s.push_str(";\n");
    }
    s.push_str("grammar;\n\n");
    s.push_str(&format!("pub S: {} = {{\n", c.ty));
    for (i, sn) in c.snippets.iter().enumerate() {
        s.push_str(&format!("    \"a{i}\" {} {},\n", if c.fallible[i] { "=>?" } else { "=>" }, sn.code));
    }
    s.push_str("};\n");
    s
}

fn gen_ecase(tp: &[u8], allow_raw: bool) -> ECase {
    let mut t = Tape::new(tp);
    let n = t.range(1, 5);
    let mut snippets = vec![];
    let mut fallible = vec![];
    for _ in 0..n {
        snippets.push(gen_snippet(&mut t, allow_raw));
        fallible.push(t.chance(48));
    }
    let mut uses = vec![];
    for _ in 0..t.weighted(&[3, 2, 1]) {
        uses.push((*t.pick(USES)).to_string());
    }
    let mut attrs = vec![];
    for _ in 0..t.weighted(&[4, 2, 1]) {
        attrs.push((*t.pick(MOD_ATTRS)).to_string());
    }
    let ty = (*t.pick(TYPES)).to_string();
    let mut c = ECase { text: String::new(), snippets, fallible, uses, attrs, ty, tape: tp.to_vec() };
    c.text = build_text(&c);
    c
}

/// (return type tokens, body tokens) of `fn <prefix>action<n>` in the output
fn action_fn(rs: &str, n: usize) -> Option<(Vec<String>, Vec<String>)> {
    use proc_macro2::{Delimiter, TokenTree};
    use std::str::FromStr;
    let ts = proc_macro2::TokenStream::from_str(gt::strip_header(rs)).ok()?;
    let toks: Vec<TokenTree> = ts.into_iter().collect();
    let want = format!("__action{n}");
    let mut i = 0;
    while i + 1 < toks.len() {
        if let (TokenTree::Ident(f), TokenTree::Ident(name)) = (&toks[i], &toks[i + 1]) {
            if f == "fn" && *name == want {
                // skip to the parameter list, then collect up to the body
                let mut j = i + 2;
                while j < toks.len() && !matches!(&toks[j], TokenTree::Group(g) if g.delimiter() == Delimiter::Parenthesis) {
                    j += 1;
                }
                j += 1;
                let mut ret = proc_macro2::TokenStream::new();
                while j < toks.len() {
                    if let TokenTree::Group(g) = &toks[j] {
                        if g.delimiter() == Delimiter::Brace {
                            let mut r = vec![];
                            flatten_into(ret, &mut r);
                            // drop the leading `->`
                            if r.len() >= 2 && r[0] == "-" && r[1] == ">" {
                                r.drain(0..2);
                            }
                            let mut b = vec![];
                            flatten_into(g.stream(), &mut b);
                            return Some((r, b));
                        }
                    }
                    ret.extend(std::iter::once(toks[j].clone()));
                    j += 1;
                }
                return None;
            }
        }
        i += 1;
    }
    None
}

fn flatten_into(ts: proc_macro2::TokenStream, out: &mut Vec<String>) {
    gt::flatten(ts, out)
}

fn contains_seq(hay: &[String], needle: &[String]) -> bool {
    needle.is_empty() || hay.windows(needle.len()).any(|w| w == needle)
}

/// Judge one embedded-Rust case. Returns (signature, what).
fn judge_embedded(ctx: &Ctx, dir: &Path, c: &ECase) -> Option<(String, String)> {
    let has_raw = c.snippets.iter().any(|s| s.raw_string);
    let raw_tag = if has_raw { "with-raw-string" } else { "no-raw-string" };
    let rs = match generate(ctx, dir, &c.text, &[]) {
        Gen::Output(rs) => rs,
        Gen::Rejected(d) => return Some((format!("C26/embedded/rejected/{raw_tag}"), format!("valid embedded Rust rejected: {d}"))),
        Gen::Abnormal(d) => return Some((format!("C26/embedded/abnormal/{raw_tag}"), format!("valid embedded Rust: {d}"))),
    };
    let Ok(all) = tokens_of_output(&rs) else {
        return Some((format!("C26/embedded/output-unlexable/{raw_tag}"), "the generated file is not lexable Rust".into()));
    };
    for (i, sn) in c.snippets.iter().enumerate() {
        let want = match gt::rust_tokens(&sn.code) {
            Ok(w) => w,
            Err(e) => return Some(("C26/infra/snippet-unlexable".into(), format!("harness bug: snippet {:?} is not lexable: {e}", sn.code))),
        };
        let Some((ret, body)) = action_fn(&rs, i + 1) else {
            return Some(("C26/embedded/action-fn-missing".into(), format!("fn __action{} not found in the output", i + 1)));
        };
        if body != want {
            let tag = if sn.raw_string { "with-raw-string" } else { "no-raw-string" };
            return Some((
                format!("C26/embedded/action-body-differs/{tag}"),
                format!("body of __action{} is `{}` but the action code was `{}`", i + 1, body.join(" "), want.join(" ")),
            ));
        }
        if !c.fallible[i] {
            let want_ty = gt::rust_tokens(&c.ty).unwrap_or_default();
            let want_ty: Vec<String> = if want_ty == ["(", ")"] { vec![] } else { want_ty };
            if ret != want_ty {
                // root-cause tag: `(A)` and `(A,)` are one and the same to LALRPOP's type parser
                let tag = if want_ty.windows(2).any(|w| w[0] == "," && w[1] == ")") { "one-element-tuple" } else { "other" };
                return Some((format!("C26/embedded/return-type-differs/{tag}"), format!("type annotation `{}` reached __action{} as `{}`", c.ty, i + 1, ret.join(" "))));
            }
        }
    }
    for u in &c.uses {
        let want = gt::rust_tokens(&format!("use {u};")).unwrap_or_default();
        if !contains_seq(&all, &want) {
            return Some(("C26/embedded/use-item-lost".into(), format!("`use {};` does not occur in the output with the same tokens", u.trim())));
        }
    }
    for a in &c.attrs {
        let want = gt::rust_tokens(a).unwrap_or_default();
        if !contains_seq(&all, &want) {
            return Some(("C26/embedded/module-attribute-lost".into(), format!("`{a}` does not occur in the output with the same tokens")));
        }
    }
    None
}

/// reduce a failing embedded case: drop alternatives / uses / attrs while the signature stays
fn minimise_embedded(ctx: &Ctx, c: &ECase, sig: &str) -> ECase {
    let dir = ctx.work.join("shrink_e");
    let mut cur = c.clone();
    let still = |cand: &ECase| judge_embedded(ctx, &dir, cand).map_or(false, |f| f.0 == sig);
    loop {
        let mut progress = false;
        let mut i = 0;
        while cur.snippets.len() > 1 && i < cur.snippets.len() {
            let mut cand = cur.clone();
            cand.snippets.remove(i);
            cand.fallible.remove(i);
            cand.text = build_text(&cand);
            if still(&cand) {
                cur = cand;
                progress = true;
            } else {
                i += 1;
            }
        }
        for which in 0..2 {
            let mut i = 0;
            loop {
                let len = if which == 0 { cur.uses.len() } else { cur.attrs.len() };
                if i >= len {
                    break;
                }
                let mut cand = cur.clone();
                if which == 0 {
                    cand.uses.remove(i);
                } else {
                    cand.attrs.remove(i);
                }
                cand.text = build_text(&cand);
                if still(&cand) {
                    cur = cand;
                    progress = true;
                } else {
                    i += 1;
                }
            }
        }
        if cur.ty != "T" {
            let mut cand = cur.clone();
            cand.ty = "T".into();
            cand.text = build_text(&cand);
            if still(&cand) {
                cur = cand;
                progress = true;
            }
        }
        if !progress {
            break;
        }
    }
    cur
}

// ---------------------------------------------------------------------------

fn replay_case(ck: &mut Checker, v: &Value) {
    let ctx = ck.ctx.clone();
    let dir = ctx.work.join("replay_run");
    ck.eval();
    if v["part"].as_str() == Some("layout") {
        let original = v["grammars"][0]["text"].as_str().unwrap_or("");
        let variant = v["grammars"][1]["text"].as_str().unwrap_or("");
        let extra: Vec<String> = v["grammars"][0]["flags"].as_array().map(|a| a.iter().filter_map(|x| x.as_str().map(|s| s.to_string())).collect()).unwrap_or_default();
        let base = match generate(&ctx, &dir, original, &extra) {
            Gen::Output(rs) => tokens_of_output(&rs).unwrap_or_default(),
            _ => {
                ck.infra("replay: the original layout is no longer accepted");
                return;
            }
        };
        let got = generate(&ctx, &dir, variant, &extra);
        if let Some((sig, what)) = classify_layout_failure(&base, &got) {
            ck.violation(&sig, &what, v.clone());
        }
    } else {
        let snippets: Vec<Snip> = v["snippets"].as_array().cloned().unwrap_or_default().iter().map(|s| Snip { code: s["code"].as_str().unwrap_or("").to_string(), tricky: true, raw_string: s["raw_string"].as_bool().unwrap_or(false) }).collect();
        let fallible: Vec<bool> = v["snippets"].as_array().cloned().unwrap_or_default().iter().map(|s| s["fallible"].as_bool().unwrap_or(false)).collect();
        let strs = |k: &str| -> Vec<String> { v[k].as_array().map(|a| a.iter().filter_map(|x| x.as_str().map(|s| s.to_string())).collect()).unwrap_or_default() };
        let c = ECase { text: v["grammars"][0]["text"].as_str().unwrap_or("").to_string(), snippets, fallible, uses: strs("uses"), attrs: strs("attrs"), ty: v["type"].as_str().unwrap_or("T").to_string(), tape: vec![] };
        if let Some((sig, what)) = judge_embedded(&ctx, &dir, &c) {
            ck.violation(&sig, &what, v.clone());
        }
    }
}

fn embedded_replay(c: &ECase, what: &str) -> Value {
    json!({
        "part": "embedded",
        "tape_hex": tape::hex(&c.tape),
        "grammars": [{"name": "g.lalrpop", "text": c.text, "flags": []}],
        "snippets": c.snippets.iter().zip(&c.fallible).map(|(s, f)| json!({"code": s.code, "raw_string": s.raw_string, "fallible": f})).collect::<Vec<_>>(),
        "uses": c.uses, "attrs": c.attrs, "type": c.ty,
        "expected": "LALRPOP accepts; body of fn __action<i+1> == snippet i (token streams); use items / module attributes occur in the output; return type == annotation",
        "observed": what,
    })
}

pub fn run(ctx: Ctx, replay: Option<PathBuf>) -> i32 {
    let mut ck = Checker::new(
        ctx.clone(),
        "exploration",
        "(a) repository grammars + template grammars re-emitted with random whitespace / line comments / nested block comments between tokens (incl. before code-block terminators) and glued where safe; \
         (b) grammars whose action code, use items, #![..] attributes and type annotation come from a generator of Rust snippets (nested delimiters, string / raw / byte string and char literals holding delimiters and quotes, \
         lifetimes, labels, comments holding delimiters); non-trivial = (a) any perturbed layout of an accepted grammar with > 40 tokens, (b) a snippet holding an unbalanced delimiter or quote inside a literal or comment; \
         distinct = distinct grammar text",
    );
    ck.assume("an identifier directly followed by `<` is one lexical unit of the grammar language (macro name): its adjacency is kept as written");
    ck.assume("inserted comments never contain `__` (LALRPOP derives its identifier prefix from the input text) nor `<>` (a comment placed after `=>` is part of the action code, where `<>` is the substitution marker), and never form doc comments");
    ck.assume("embedded snippets have no `,` or `;` outside (), [], {} - LALRPOP ends a code block there by design (so turbofish lists are parenthesised)");
    if let Some(p) = replay {
        ck.strict = true;
        match super::load_replay(&p) {
            Ok(v) => replay_case(&mut ck, &v),
            Err(c) => return c,
        }
        return ck.finish();
    }
    ck.replay_listed(replay_case);

    // ---- (a) layout
    let mut items: Vec<LItem> = vec![];
    let max_corpus = ctx.tier.pick(6_000usize, usize::MAX);
    for f in gt::corpus(&ctx.root) {
        if f.text.len() > max_corpus {
            ck.skip("layout: large corpus file left to the thorough tier");
            continue;
        }
        items.push(LItem { name: f.rel, text: f.text, extra: vec![], tape: vec![] });
    }
    if items.len() < 20 {
        ck.infra(format!("corpus has only {} .lalrpop files under repo_link", items.len()));
        return ck.finish();
    }
    let n_gen = ctx.tier.pick(100usize, 2500usize);
    for (i, tp) in tape::sample_tapes(ctx.seed, n_gen, 0, 160).into_iter().enumerate() {
        let g = gt::gen_valid(&mut Tape::new(&tp));
        items.push(LItem { name: format!("template{i}"), text: g.print(), extra: gt::feature_args(&g), tape: tp });
    }
    let n_var = ctx.tier.pick(3usize, 6usize);
    let seeds = tape::sample_tapes(ctx.seed.wrapping_add(0x26), items.len(), 4096, 4096);
    let mut layout_reported = std::collections::BTreeSet::new();
    let outcomes = par_map(&items, ctx.threads, |i, it| eval_layout(&ctx, &ctx.work.join(format!("l{i}")), it, &seeds[i], n_var));
    for (i, (it, oc)) in items.iter().zip(outcomes).enumerate() {
        if let Some(why) = oc.skipped {
            ck.skip(&format!("layout: {why}"));
            continue;
        }
        ck.evals(oc.variants as u64);
        ck.class_n("layout:variants", oc.variants as u64);
        let ntok = gt::split(&it.text).len();
        if ntok > 40 {
            ck.nontrivial(&("layout", hash_of(&it.text)));
        }
        if ck.want_sample() && i % 61 == 0 {
            let v = layout_variants(it, &seeds[i], 1);
            ck.sample(json!({"part": "layout", "grammar": it.name, "perturbed": v.last().map(|s| s.chars().take(900).collect::<String>()), "outcome": if oc.failure.is_none() { "same token stream" } else { "DIFFERENT" }}));
        }
        if let Some((sig, what, variant)) = oc.failure {
            let (mut it, mut what, mut variant) = (it.clone(), what, variant);
            if !ck.is_known(&sig) && layout_reported.insert(sig.clone()) {
                // minimise the *original* text: the perturbed layouts are re-derived from it with the same tape
                let seed = &seeds[i];
                let small = gt::shrink_text(&it.text, 250, ctx.threads, |slot, cand| {
                    let c = LItem { text: cand.to_string(), ..it.clone() };
                    eval_layout(&ctx, &ctx.work.join(format!("shrink_l{slot}")), &c, seed, n_var).failure.map_or(false, |f| f.0 == sig)
                });
                let c = LItem { text: small, ..it.clone() };
                if let Some(f) = eval_layout(&ctx, &ctx.work.join("shrink_l0"), &c, seed, n_var).failure {
                    if f.0 == sig {
                        it = c;
                        what = f.1;
                        variant = f.2;
                    }
                }
            }
            let it = &it;
            let rj = json!({
                "part": "layout", "tape_hex": tape::hex(&it.tape),
                "grammars": [{"name": it.name, "text": it.text, "flags": it.extra}, {"name": "perturbed layout", "text": variant, "flags": it.extra}],
                "expected": "same Rust token stream of the generated file for both layouts", "observed": what,
            });
            ck.violation(&sig, &what, rj);
        }
    }

    // ---- (b) embedded Rust
    let n_emb = ctx.tier.pick(1500usize, 40_000usize);
    let allow_raw = true;
    let cases: Vec<ECase> = tape::sample_tapes(ctx.seed.wrapping_add(0x2600), n_emb, 0, 96).iter().map(|tp| gen_ecase(tp, allow_raw)).collect();
    let verdicts = par_map(&cases, ctx.threads, |i, c| judge_embedded(&ctx, &ctx.work.join(format!("e{i}")), c));
    let mut reported = std::collections::BTreeSet::new();
    for (i, (c, v)) in cases.iter().zip(verdicts).enumerate() {
        ck.eval();
        let raw = c.snippets.iter().any(|s| s.raw_string);
        ck.class(if raw { "embedded:with-raw-string" } else { "embedded:no-raw-string" });
        if c.snippets.iter().any(|s| s.tricky) {
            ck.nontrivial(&("embedded", hash_of(&c.text)));
        }
        if ck.want_sample() && i % 211 == 0 {
            ck.sample(json!({"part": "embedded", "text": c.text, "outcome": if v.is_none() { "transferred verbatim" } else { "FAILED" }}));
        }
        if let Some((sig, what)) = v {
            if sig.starts_with("C26/infra") {
                ck.infra(what);
                continue;
            }
            if ck.is_known(&sig) || !reported.insert(sig.clone()) {
                ck.violation(&sig, &what, json!({}));
                continue;
            }
            let small = minimise_embedded(&ctx, c, &sig);
            let what2 = judge_embedded(&ctx, &ctx.work.join("shrink_e"), &small).map(|f| f.1).unwrap_or(what.clone());
            ck.violation(&sig, &what2, embedded_replay(&small, &what2));
        }
    }
    ck.finish()
}
