//! C16 - see suite.rs (shared compiled pipeline, c16_validate) and DESIGN.md section 3.
use crate::core::Ctx;
use std::path::PathBuf;
pub fn run(ctx: Ctx, replay: Option<PathBuf>) -> i32 {
    super::suite::run(ctx, replay, super::suite::Which::C16)
}
