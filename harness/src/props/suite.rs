//! Shared pipeline of the compiled "parser behaviour" properties
//! C01 C02 C04 C05 C06 C07 C08(ii): tapes -> grammars -> real LALRPOP ->
//! compiled parsers (6 configurations) -> inputs -> oracle per property.

use crate::batch::{Batch, QTok, Query, Resp, Unit};
use crate::core::{Checker, Ctx};
use crate::gen::{self, GenOpts};
use crate::gspec::{Elab, GSpec, Lexer, PrintCfg};
use crate::model::cfg::{earley, Core, SpanDp};
use crate::model::eval::{render_matches, Evaluator, Failure, InTok, Val};
use crate::run::Algo;
use crate::tape::{self, Tape};
use serde_json::{json, Value};
use std::collections::{BTreeMap, BTreeSet};
use std::path::PathBuf;

#[derive(Clone, Copy, PartialEq, Eq, Debug)]
pub enum Which {
    C01,
    C02,
    C04,
    C05,
    C06,
    C07,
    C08,
    C12,
    C13,
    C14,
    C15,
    C16,
    C17,
    C19,
    C25,
}

impl Which {
    fn id(self) -> &'static str {
        match self {
            Which::C01 => "C01",
            Which::C02 => "C02",
            Which::C04 => "C04",
            Which::C05 => "C05",
            Which::C06 => "C06",
            Which::C07 => "C07",
            Which::C08 => "C08",
            Which::C12 => "C12",
            Which::C13 => "C13",
            Which::C14 => "C14",
            Which::C15 => "C15",
            Which::C16 => "C16",
            Which::C17 => "C17",
            Which::C19 => "C19",
            Which::C25 => "C25",
        }
    }
    /// metamorphic pair mode: cases come in pairs (original, variant)
    fn pair_mode(self) -> bool {
        matches!(self, Which::C14 | Which::C25)
    }
    /// language (membership) oracle applies
    fn check_member(self) -> bool {
        matches!(self, Which::C01 | Which::C12 | Which::C13 | Which::C15)
    }
    /// value / log oracle applies
    fn check_value(self) -> bool {
        matches!(self, Which::C02 | Which::C06 | Which::C12 | Which::C13 | Which::C15)
    }
    fn opts(self) -> GenOpts {
        let mut o = GenOpts::full();
        match self {
            Which::C01 => {
                o.shared_prefix = 30;
            }
            Which::C02 => {
                o.markers = false;
                o.builtin = 20;
            }
            Which::C04 | Which::C05 => {
                o.markers = false;
                o.fallible = false;
                o.builtin = 24;
                o.max_nts = 6;
            }
            Which::C06 => {
                o.shared_prefix = 90;
                o.builtin = 70;
                o.fallible = false;
                o.marker_chance = 110;
                o.eps_weight = 40;
                o.max_nts = 4;
            }
            Which::C07 => {
                o.marker_chance = 60;
                o.eps_weight = 30;
                o.shared_prefix = 70;
            }
            Which::C08 => {}
            Which::C12 => {}
            Which::C13 => {
                o.markers = false;
                o.fallible = false;
                o.builtin = 20;
                o.macro_weight = 90;
                o.rep_weight = 60;
                o.group_weight = 40;
                o.min_macros = 1;
                o.macro_focus = true;
            }
            Which::C17 => {
                o.builtin = 0;
                o.markers = false;
                o.fallible_chance = 120;
            }
            Which::C14 => {
                o.builtin = 10;
                o.markers = false;
                o.inline = false;
                o.multi_pub = false;
                o.fallible_chance = 90;
                o.max_nts = 4;
                o.helpers = 3;
            }
            Which::C15 => {
                o.markers = false;
                o.builtin = 30;
            }
            Which::C25 => {
                o.builtin = 40;
                // more `X?` / `X*` / `X+`: their derived names are renaming targets
                o.rep_weight = 70;
            }
            Which::C16 => {}
            Which::C19 => {
                o.generics = true;
                o.clone_only_loc = true;
                o.builtin = 70;
                o.marker_chance = 60;
                o.eps_weight = 30;
            }
        }
        o
    }
    fn rule(self) -> &'static str {
        match self {
            Which::C01 => "G-full grammars from proptest byte tapes, accepted by LALRPOP, x pub symbols x {table,ascent} x {lane,LR(1),LALR} x inputs (model sentences, single-token mutations, random strings, all strings up to length 3, empty); oracle: membership by span DP (self-checked against Earley). Non-trivial = (grammar with >= 2 nonterminals and recursion or a nullable nonterminal, whose input set holds both members and non-members); counted per distinct (grammar text, config, start, input)",
            Which::C02 => "as C01 on accepted inputs; oracle: bottom-up evaluation of the unique derivation tree (value rendering + action log). Non-trivial = tree with >= 3 internal nodes in a grammar using >= 2 distinct binding forms; distinct (grammar, config, start, input)",
            Which::C04 => "reduced grammars without `!` x rejected inputs; oracle: shortest non-viable prefix by Earley over the productive grammar -> UnrecognizedToken(t_k, exact span) / UnrecognizedEof(end of t_n | default), pulls <= k, never ExtraToken. Non-trivial = k >= 2 or EOF error after >= 1 token",
            Which::C05 => "as C04; oracle: every `expected` entry is a valid continuation of the consumed prefix (Earley), no duplicates, never the error pseudo-terminal, equality with the full continuation set under canonical LR(1). Non-trivial = rejected input with >= 1 consumed token and a continuation set smaller than the terminal set",
            Which::C06 => "grammars with @L/@R, empty productions, inlined items, extern (usize / newtype locations, gapped tokens) and built-in lexers (random whitespace) x accepted inputs; oracle: exact layer where the statement determines the location, bounded layer [end of last solid before, start of first solid after] otherwise, table == ascent always. Non-trivial = input whose tree evaluates >= 1 @L/@R or >= 1 empty non-inlined reduction",
            Which::C07 => "all grammars of the suite without `!`, printed with and without #[recursive_ascent], x all inputs; oracle: differential (same Ok rendering, or same error variant + token + span + location + user error). Non-trivial = input rejected, or tree with an empty reduction",
            Which::C12 => "one annotated nonterminal (binary / prefix / postfix / ternary / atomic alternatives, 1-4 levels with arbitrary numbers, non-monotone order, inherited levels and associativities, all four assoc kinds) referenced from a wrapper, a repeat and a parenthesised atom, accepted by LALRPOP, x all 6 configs x operator/operand sequences (model sentences, mutations, random, all strings up to 3); oracle: the documented tiered grammar built by the model -> same accept/reject (span DP) and same rendered tree. Non-trivial = input with >= 2 operator tokens; distinct (grammar, config, input)",
            Which::C13 => "G-full grammars heavy in user macros (1-2 parameters, conditions == != ~~ !~), nested macro uses, repetitions of groups and macros, `? * +`; oracle: model expansion by substitution into fresh nonterminals -> same accept/reject and same rendered value (Vec in input order, Option, tuples). Non-trivial = grammar with >= 2 distinct instantiations of one macro or a condition that removed an alternative, input accepted; distinct (grammar, config, start, input)",
            Which::C17 => "grammars with `=>?` actions (plain, inlined, in start productions) x sentences whose tokens carry poison flags (fallible actions return User / a non-User ParseError when they see one) x Err items injected at any stream index x all 6 configs; oracle: model timeline (token i pulled at 2i, node [a,b) reduced at 2b+1): exact error, exact action log up to the failure, exact number of token pulls. Non-trivial = a failing action that is not the last reduction, or a stream error; distinct (grammar, config, start, input, poison, error index)",
            Which::C14 => "metamorphic pairs (G, G with a random non-empty subset of its non-pub non-recursive nonterminals / macro definitions marked #[inline], incl. nested inlining, several occurrences per alternative, several different inlined nonterminals per alternative, empty and fallible inlined productions), both accepted by LALRPOP, x 6 configs x inputs (sentences, mutations, random, short exhaustive, poisoned tokens that make fallible actions fail); oracle: same Ok rendering / same error (variant, token, span, user error) on every input, and the action log of G-inline equals the model's prediction (inlined actions left to right, inner first, immediately before the host action). Non-trivial = input whose derivation runs >= 1 inlined user action (sub-classes counted: >= 2 different inlined nonterminals in one host reduction, the same one repeated in one host); distinct (pair, config, start, input)",
            Which::C16 => "table-driven grammars with `!` at several depths (statement lists `*`/`+`, recover-to-terminator, `!` after a prefix, bracketed `!`, bare `!`; roles of the six tokens permuted) x {lane, LR(1), LALR} x sentences of the `!`-free grammar with 0-3 token insertions / deletions / substitutions, plus random strings; oracle (validity predicate on every Ok result): the rendered tree is a derivation with `!` read as a terminal, token leaves are an ordered subsequence of the input, every other input token lies in exactly one error node's span, error spans ordered and disjoint, dropped_tokens are input tokens in order; sentences of the `!`-free grammar parse without any error node to the model's value. Non-trivial = Ok result with >= 1 error node covering >= 1 input token; distinct (grammar, config, input)",
            Which::C15 => "G-full grammars decorated with #[cfg(..)] (nested not/all/any, 1-2 attributes per item) on alternatives, extra gated alternatives, gated nonterminals and gated extern conversions x a feature set over {f1, x-y, abc, z9} given with --features; oracle: the model evaluates the predicates and (1) LALRPOP's verdict and (2) the generated .rs after the two header lines are identical to those for the grammar printed with the inactive items deleted, (3) compiled parsers accept the language and return the values of the deleted grammar. Non-trivial = grammar with >= 1 deleted and >= 1 kept gated item; distinct (grammar text, feature set[, config, input])",
            Which::C25 => "metamorphic pairs (G, G with nonterminals, macro names, macro parameters, bindings, the grammar parameter and its lifetime renamed injectively into an adversarial pool: __0 __sym0 __lookahead __tokens __Symbol __StateMachine __action0 Token alloc core v e ...); oracle: same LALRPOP verdict, same compile result, identical answers (value / error / expected list / token pulls / action log) on every input. Non-trivial = pair with >= 1 new name starting with `__`; distinct (pair, config, start, input)",
            Which::C19 => "G-full grammars (annotated + inferred types: tuples, Vec/Option from repeats and macros, payload tokens, usize / Copy newtype / Clone-only newtype locations, both lexers) x both code generators: every unit LALRPOP accepts must compile (cargo build of the batch, rustc diagnostics attributed to modules through macro expansion chains). Non-trivial = accepted unit whose grammar has an inferred nonterminal type that is a tuple / Vec / Option, or a non-usize location type; distinct (grammar text, config)",
            Which::C08 => "(ii) all grammars of the suite x all inputs incl. long repetitions; oracle: no panic, no driver crash, no step-budget overrun (64 (n+2) |P| + 256 steps counted in actions and token pulls), pulls <= n+1; (i) lexer level: lexer specs (1-5 terminals incl. nullable regexes, skip rules, `_`) x strings driving the real MatcherBuilder on the pattern table extracted from LALRPOP's output; oracle: deterministic progress invariant (no repeated empty token, <= len+1 tokens). Non-trivial = input rejected, or the grammar has a nullable nonterminal / a pattern that can match the empty string",
        }
    }
}

#[derive(Clone, Debug)]
pub struct Fail {
    pub sig: String,
    pub what: String,
    pub replay: Value,
}

struct GramCase {
    tape: Vec<u8>,
    spec: GSpec,
    core: Core,
    /// core terminal -> surface terminal
    term_of_core: Vec<usize>,
    starts: Vec<(usize, String)>,
    inputs: Vec<(usize, Vec<usize>, Vec<InTok>, Option<String>, Option<usize>)>, // (start idx into starts, terms, toks, text, stream error index)
    macro_multi_inst: bool,
    conds_removed: usize,
    rich_types: bool,
    feats: BTreeSet<String>,
    cfg_deleted: usize,
    cfg_kept: usize,
    /// pair mode: what the variant changed
    pair_note: String,
    extra_args: Vec<String>,
    has_inline_user: bool,
    bind_forms: usize,
    nullable_any: bool,
    recursive: bool,
    n_user_nts: usize,
}

fn variants(which: Which, quick: bool) -> Vec<(Algo, bool)> {
    let all: Vec<(Algo, bool)> =
        Algo::ALL.iter().flat_map(|a| [(*a, false), (*a, true)]).collect();
    let _ = quick;
    if which == Which::C16 {
        return Algo::ALL.iter().map(|a| (*a, false)).collect();
    }
    all
}

fn module_name(gi: usize, algo: Algo, ascent: bool) -> String {
    format!("g{}_{}_{}", gi, algo.name(), if ascent { "a" } else { "t" })
}

type InputTuple = (usize, Vec<usize>, Vec<InTok>, Option<String>, Option<usize>);

fn build_case(tape: &[u8], which: Which, n_inputs_scale: usize) -> Result<GramCase, String> {
    build_cases(tape, which, n_inputs_scale).into_iter().next().unwrap()
}

/// One case per tape, or an (original, variant) pair in pair mode.
fn build_cases(tape: &[u8], which: Which, n_inputs_scale: usize) -> Vec<Result<GramCase, String>> {
    let opts = which.opts();
    let mut t = Tape::new(tape);
    let spec = match which {
        Which::C12 => gen::gen_prec(&mut t),
        Which::C25 if t.chance(90) => gen::gen_prec(&mut t),
        Which::C14 if t.chance(190) => gen::gen_inline_focus(&mut t),
        // CFG skeletons with the template families (LR(1)-not-LALR(1), bracket
        // families, nullable chains ..): unit-typed, so only the language, the
        // error position and the expected lists are observable - exactly what
        // these properties are about
        Which::C01 if t.chance(140) => gen::gen_cfg(&mut t).0,
        Which::C04 | Which::C05 | Which::C07 | Which::C08 if t.chance(80) => gen::gen_cfg(&mut t).0,
        Which::C16 => gen::gen_recovery(&mut t),
        Which::C17 if t.chance(70) => gen::gen_recovery(&mut t),
        // `expected` of the first error in grammars with `!` (table-driven only)
        Which::C05 if t.chance(50) => gen::gen_recovery(&mut t),
        _ => gen::gen_full(&mut t, &opts),
    };
    match which {
        Which::C14 => {
            let Some((inl, chosen)) = gen::inline_variant(&spec, &mut t) else {
                return vec![Err("no nonterminal eligible for inlining".into()), Err("no variant".into())];
            };
            let note = format!("inlined: {}", chosen.iter().map(|&i| spec.nts[i].name.clone()).collect::<Vec<_>>().join(" "));
            let a = case_from_spec(spec, tape, &mut t, which, n_inputs_scale, None, BTreeSet::new(), String::new());
            let fixed = a.as_ref().ok().map(|c| c.inputs.clone());
            let b = match fixed {
                Some(f) => case_from_spec(inl, tape, &mut t, which, n_inputs_scale, Some(f), BTreeSet::new(), note),
                None => Err("original not modelled".into()),
            };
            vec![a, b]
        }
        Which::C25 => {
            let (ren, names) = gen::rename_variant(&spec, &mut t);
            let note = format!("new names: {}", names.join(" "));
            let a = case_from_spec(spec, tape, &mut t, which, n_inputs_scale, None, BTreeSet::new(), String::new());
            let fixed = a.as_ref().ok().map(|c| c.inputs.clone());
            let b = match fixed {
                Some(f) => case_from_spec(ren, tape, &mut t, which, n_inputs_scale, Some(f), BTreeSet::new(), note),
                None => Err("original not modelled".into()),
            };
            vec![a, b]
        }
        Which::C15 => {
            let (dec, feats) = gen::cfg_variant(&spec, &mut t);
            vec![case_from_spec(dec, tape, &mut t, which, n_inputs_scale, None, feats, String::new())]
        }
        _ => vec![case_from_spec(spec, tape, &mut t, which, n_inputs_scale, None, BTreeSet::new(), String::new())],
    }
}

/// Build the model side of a case. `fixed_inputs`: use exactly these inputs
/// (replay) instead of generating them from the tape.
fn case_from_spec(
    spec: GSpec,
    tape: &[u8],
    t: &mut Tape,
    which: Which,
    n_inputs_scale: usize,
    fixed_inputs: Option<Vec<InputTuple>>,
    feats: BTreeSet<String>,
    pair_note: String,
) -> Result<GramCase, String> {
    let mut t = t;
    let el = match Elab::run(&spec, &feats) {
        Ok(e) => e,
        Err(e) if which == Which::C15 => {
            // an active item refers to a deleted one: LALRPOP must reject both
            // forms alike; only the text-level comparison applies
            let _ = e;
            return Ok(GramCase {
                tape: tape.to_vec(),
                term_of_core: vec![],
                starts: vec![],
                inputs: vec![],
                has_inline_user: false,
                bind_forms: 0,
                nullable_any: false,
                recursive: false,
                n_user_nts: 0,
                macro_multi_inst: false,
                conds_removed: 0,
                rich_types: false,
                feats,
                cfg_deleted: 1,
                cfg_kept: 1,
                pair_note,
                extra_args: vec![],
                spec,
                core: Core::default(),
            });
        }
        Err(e) => return Err(format!("{e:?}")),
    };
    let (cfg_deleted, cfg_kept) = (el.cfg_deleted, el.cfg_kept);
    let macro_multi_inst = el.macro_insts.values().any(|&n| n >= 2);
    let conds_removed = el.conds_removed;
    let rich_types = spec.loc_ty() != crate::gspec::LocTy::Usize
        || el.tys.iter().any(|t| matches!(t, Some(crate::gspec::Ty::Tup(_)) | Some(crate::gspec::Ty::Vec(_)) | Some(crate::gspec::Ty::Opt(_))));
    let core = el.core.clone();
    let mut term_of_core = vec![usize::MAX; core.term_names.len()];
    for (si, c) in el.term_map.iter().enumerate() {
        if let Some(c) = c {
            term_of_core[*c] = si;
        }
    }
    // The built-in lexer only knows the terminals that occur in some
    // production (after macro expansion); any other text is an InvalidToken,
    // not a token. Extern token enums know every declared conversion.
    let used_terms: BTreeSet<usize> = core
        .prods
        .iter()
        .flat_map(|p| p.rhs.iter())
        .filter_map(|s| match s {
            crate::model::cfg::Sym::T(t) => Some(*t),
            _ => None,
        })
        .collect();
    let builtin_lexer = spec.lexer == Lexer::Builtin;
    let usable: Vec<usize> = (0..core.term_names.len())
        .filter(|&c| Some(c) != core.error_term && (!builtin_lexer || used_terms.contains(&c)))
        .collect();
    let starts: Vec<(usize, String)> = core.starts.iter().map(|&s| (s, core.nts[s].name.clone())).collect();
    let mut inputs = vec![];
    let generate = fixed_inputs.is_none();
    if let Some(fi) = fixed_inputs {
        inputs = fi;
    }
    for (si, (s, _)) in starts.iter().enumerate() {
        if !generate {
            break;
        }
        if which == Which::C17 {
            // sentences only, each with poison flags and / or an injected stream error
            if spec.lexer == Lexer::Builtin {
                continue;
            }
            let mut sents: Vec<Vec<usize>> = vec![];
            for i in 0..6 * n_inputs_scale {
                let fuel = 2 + (i % 5) * 3 + t.below(4);
                if let Some(sn) = core.sentence(*s, &mut t, fuel, 12) {
                    if sn.len() <= 16 && sn.iter().all(|x| usable.contains(x)) {
                        sents.push(sn);
                    }
                }
            }
            sents.sort();
            sents.dedup();
            if core.error_term.is_some() {
                // recovery grammars: sentences with 1-2 edits (so recovery runs and
                // drops tokens) and a stream error right behind / near the edit
                let mut extra = vec![];
                for sn in sents.iter().take(30) {
                    if sn.is_empty() {
                        continue;
                    }
                    let mut m = sn.clone();
                    let p = t.below(m.len() + 1);
                    m.insert(p, usable[t.below(usable.len())]);
                    if t.chance(100) {
                        let q = t.below(m.len() + 1);
                        m.insert(q, usable[t.below(usable.len())]);
                    }
                    let n = m.len();
                    let toks = gen::extern_toks(&spec, &term_of_core, &m);
                    for d in 0..3usize {
                        let e = (p + 1 + d).min(n);
                        extra.push((si, m.clone(), toks.clone(), None, Some(e)));
                    }
                    extra.push((si, m.clone(), toks.clone(), None, Some(t.below(n + 1))));
                }
                inputs.extend(extra);
            }
            for inp in sents {
                let n = inp.len();
                let base = gen::extern_toks(&spec, &term_of_core, &inp);
                inputs.push((si, inp.clone(), base.clone(), None, None));
                for _ in 0..3 {
                    let mut toks = base.clone();
                    let mode = t.below(3);
                    if mode != 1 && n > 0 {
                        let k = t.below(n);
                        toks[k].idx |= if t.chance(90) { crate::model::eval::POISON2 } else { crate::model::eval::POISON };
                        if t.chance(60) {
                            let k2 = t.below(n);
                            toks[k2].idx |= crate::model::eval::POISON;
                        }
                    }
                    let err_at = if mode != 0 { Some(t.below(n + 1)) } else { None };
                    inputs.push((si, inp.clone(), toks, None, err_at));
                }
            }
            continue;
        }
        let (n_sent, n_rand, exh) = match which {
            Which::C02 | Which::C06 | Which::C13 => (8 * n_inputs_scale, n_inputs_scale, 2),
            Which::C16 => (8 * n_inputs_scale, 2 * n_inputs_scale, 2),
            Which::C19 => (2, 1, 1),
            _ => (3 * n_inputs_scale, 3 * n_inputs_scale, 3),
        };
        let mut ins = gen::gen_inputs(&mut t, &core, *s, &usable, n_sent, n_rand, exh, 12);
        if which == Which::C16 {
            // up to three edits of a sentence
            let base: Vec<Vec<usize>> = ins.iter().filter(|x| x.len() >= 2).cloned().collect();
            for b in base.iter().take(40) {
                let mut m = b.clone();
                let edits = 1 + t.below(3);
                for _ in 0..edits {
                    match t.below(3) {
                        0 if !m.is_empty() => {
                            let p = t.below(m.len());
                            m.remove(p);
                        }
                        1 => {
                            let p = t.below(m.len() + 1);
                            m.insert(p, usable[t.below(usable.len())]);
                        }
                        _ if !m.is_empty() => {
                            let p = t.below(m.len());
                            m[p] = usable[t.below(usable.len())];
                        }
                        _ => {}
                    }
                }
                ins.push(m);
            }
            ins.sort();
            ins.dedup();
        }
        for inp in ins {
            if spec.lexer == Lexer::Builtin {
                let (text, toks) = gen::builtin_text(&mut t, &spec, &term_of_core, &inp);
                inputs.push((si, inp, toks, Some(text), None));
            } else {
                let toks = gen::extern_toks(&spec, &term_of_core, &inp);
                if which == Which::C14 && !toks.is_empty() && t.chance(90) {
                    let mut p = toks.clone();
                    let k = t.below(p.len());
                    p[k].idx |= crate::model::eval::POISON;
                    if t.chance(90) {
                        let k2 = t.below(p.len());
                        p[k2].idx |= crate::model::eval::POISON;
                    }
                    inputs.push((si, inp.clone(), p, None, None));
                }
                inputs.push((si, inp, toks, None, None));
            }
        }
    }
    let has_inline_user = core.nts.iter().any(|n| {
        n.inline
            && n.prods.iter().any(|&p| {
                matches!(core.prods[p].sem, crate::model::cfg::Sem::User { .. } | crate::model::cfg::Sem::UnitUser { .. })
            })
    });
    let mut forms = BTreeSet::new();
    for nt in &spec.nts {
        for a in &nt.alts {
            for s in &a.syms {
                forms.insert(match &s.bind {
                    crate::gspec::Bind::None => 0u8,
                    crate::gspec::Bind::Choose => 1,
                    crate::gspec::Bind::Name(_, false) => 2,
                    crate::gspec::Bind::Name(_, true) => 3,
                    crate::gspec::Bind::Tuple(_) => 4,
                });
            }
            if let crate::gspec::Act::User { style, .. } = &a.act {
                let _ = style;
            }
        }
    }
    let nullable = core.nullable();
    let reach = gen::reach_matrix(&spec);
    let recursive = (0..spec.nts.len()).any(|i| reach[i][i]);
    Ok(GramCase {
        tape: tape.to_vec(),
        term_of_core,
        starts,
        inputs,
        has_inline_user,
        bind_forms: forms.len(),
        nullable_any: nullable.iter().any(|x| *x),
        recursive,
        n_user_nts: spec.nts.iter().filter(|n| n.params.is_empty()).count(),
        macro_multi_inst,
        conds_removed,
        rich_types,
        feats,
        cfg_deleted,
        cfg_kept,
        pair_note,
        extra_args: match spec.extra {
            None => vec![],
            Some(crate::gspec::ExtraParam::TwoTypeParams) => vec!["&0u8".to_string()],
            Some(_) => vec!["&0u8".to_string()],
        },
        spec,
        core,
    })
}

fn budget_for(core: &Core, n: usize) -> u64 {
    64 * (n as u64 + 2) * (core.prods.len() as u64 + 1) + 256
}

fn query_for(case: &GramCase, module: &str, si: usize, toks: &[InTok], text: &Option<String>, n: usize, err_at: Option<usize>) -> Query {
    Query {
        module: module.to_string(),
        start: case.starts[si].1.clone(),
        budget: budget_for(&case.core, n),
        toks: if text.is_none() {
            let mut v: Vec<QTok> = toks.iter().map(|t| QTok::Tok { kind: t.kind, lo: t.lo, hi: t.hi, idx: t.idx }).collect();
            if let Some(p) = err_at {
                v.truncate(p);
                v.push(QTok::Err(format!("stream-error-at-{p}")));
            }
            Some(v)
        } else {
            None
        },
        text: text.clone(),
        multi: None,
    }
}

struct ModelOut {
    member: bool,
    dead_at: Option<usize>,
    next: Vec<(BTreeSet<usize>, bool)>,
    value: Option<Result<Val, Failure>>,
    log: Vec<u32>,
    log_hi: Vec<usize>,
    fail_hi: Option<usize>,
    distinct_inlined_hosts: usize,
    repeated_inlined_hosts: usize,
    inline_actions: usize,
    internal: usize,
    markers: usize,
    bounded: usize,
    empties: usize,
    ambiguous: bool,
}

fn model(case: &GramCase, start: usize, terms: &[usize], toks: &[InTok]) -> Result<ModelOut, String> {
    let e = earley(&case.core, start, terms);
    // the span DP is the second, independent membership algorithm: always run
    // on accepted inputs (the tree is needed) and on a deterministic sample of
    // the rejected ones (self-check)
    let sample = crate::core::hash_of(&terms) % 8 == 0;
    if !e.accepted && !sample {
        return Ok(ModelOut {
            member: false,
            dead_at: e.dead_at,
            next: e.next,
            value: None,
            log: vec![],
            log_hi: vec![],
            fail_hi: None,
            distinct_inlined_hosts: 0,
            repeated_inlined_hosts: 0,
            inline_actions: 0,
            internal: 0,
            markers: 0,
            bounded: 0,
            empties: 0,
            ambiguous: false,
        });
    }
    let dp = SpanDp::new(&case.core, terms);
    if dp.member(start) != e.accepted {
        return Err(format!(
            "model self-check failed: span DP says {}, Earley says {} on {:?}",
            dp.member(start),
            e.accepted,
            terms
        ));
    }
    let mut out = ModelOut {
        member: e.accepted,
        dead_at: e.dead_at,
        next: e.next,
        value: None,
        log: vec![],
        log_hi: vec![],
        fail_hi: None,
        distinct_inlined_hosts: 0,
        repeated_inlined_hosts: 0,
        inline_actions: 0,
        internal: 0,
        markers: 0,
        bounded: 0,
        empties: 0,
        ambiguous: false,
    };
    if out.member {
        out.ambiguous = dp.count_trees(start, 2) > 1;
        let tree = dp.tree(start).ok_or("model: member without tree")?;
        out.internal = tree.internal_nodes();
        let ev = Evaluator::new(&case.core, toks).run(&tree);
        out.markers = ev.stats.markers_exact + ev.stats.markers_bounded;
        out.bounded = ev.stats.markers_bounded;
        out.empties = ev.stats.empty_nodes;
        out.log = ev.log;
        out.log_hi = ev.log_hi;
        out.fail_hi = ev.fail_hi;
        out.distinct_inlined_hosts = ev.stats.hosts_with_distinct_inlined;
        out.repeated_inlined_hosts = ev.stats.hosts_with_repeated_inlined;
        out.inline_actions = ev.stats.inline_actions;
        out.value = Some(ev.value);
    }
    Ok(out)
}

/// The error stored in the `ErrorRecovery` value (rendered `Recov<variant|a|b|c|exp;exp><dropped>`
/// by batch_rt/rt.rs) that reports the wanted token (`None`: the end of input).
fn first_recovered_error(val: &str, want: Option<&(String, String)>) -> Option<(String, String, String, String, Vec<String>)> {
    let mut rest = val;
    while let Some(p) = rest.find("Recov<") {
        rest = &rest[p + 6..];
        let Some(end) = rest.find('>') else { break };
        let f: Vec<&str> = rest[..end].split('|').collect();
        if f.len() != 5 {
            continue;
        }
        let hit = match want {
            Some((lo, tok)) => f[0] == "UnrecognizedToken" && f[1] == lo && f[2] == tok,
            None => f[0] == "UnrecognizedEof",
        };
        if hit {
            let expected = if f[4].is_empty() { vec![] } else { f[4].split(';').map(|x| x.to_string()).collect() };
            return Some((f[0].to_string(), f[1].to_string(), f[2].to_string(), f[3].to_string(), expected));
        }
    }
    None
}

fn tok_render(t: &InTok) -> String {
    if t.builtin {
        return format!("{:?}", t.text);
    }
    match t.kind {
        7 => format!("q{}:{}", crate::model::eval::ridx(t.idx), crate::model::eval::ridx(t.idx.wrapping_add(100) & crate::model::eval::IDX)),
        k => format!("{}{}", gen::EXTERN_NAMES[k as usize], crate::model::eval::ridx(t.idx)),
    }
}

/// The whole pipeline on a set of tapes. Returns the failures found per tape.
fn evaluate(
    ctx: &Ctx,
    which: Which,
    tapes: &[Vec<u8>],
    name: &str,
    ck: Option<&mut Checker>,
    scale: usize,
    focus: Option<Vec<(Algo, bool)>>,
) -> Vec<Vec<Fail>> {
    let dbg = std::env::var("VERIF_DEBUG").is_ok();
    if std::env::var("VERIF_DEBUG").as_deref() == Ok("2") {
        for (i, t) in tapes.iter().enumerate() {
            eprintln!("case {i} tape {}", tape::hex(t));
            let _ = build_case(t, which, scale);
        }
    }
    let t0 = std::time::Instant::now();
    let nested: Vec<Vec<Result<GramCase, String>>> =
        crate::core::par_map(tapes, ctx.threads, |_, t| build_cases(t, which, scale));
    let per: usize = if which.pair_mode() { 2 } else { 1 };
    let cases: Vec<Result<GramCase, String>> = nested.into_iter().flatten().collect();
    if dbg {
        eprintln!("[{:?}] built {} cases", t0.elapsed(), cases.len());
    }
    let flat = evaluate_cases(ctx, which, cases, name, ck, focus);
    // fold pairs back to one entry per tape
    let mut out: Vec<Vec<Fail>> = vec![vec![]; tapes.len()];
    for (i, f) in flat.into_iter().enumerate() {
        out[i / per].extend(f);
    }
    out
}

fn evaluate_cases(
    ctx: &Ctx,
    which: Which,
    cases: Vec<Result<GramCase, String>>,
    name: &str,
    ck: Option<&mut Checker>,
    focus: Option<Vec<(Algo, bool)>>,
) -> Vec<Vec<Fail>> {
    let dbg = std::env::var("VERIF_DEBUG").is_ok();
    let t0 = std::time::Instant::now();
    let mut dummy = Checker::new(ctx.clone(), "exploration", "");
    let count = ck.is_some();
    let ck: &mut Checker = match ck {
        Some(c) => c,
        None => &mut dummy,
    };
    let mut fails: Vec<Vec<Fail>> = vec![vec![]; cases.len()];
    let vars = focus.unwrap_or_else(|| variants(which, ctx.tier == crate::core::Tier::Quick));
    let mut units = vec![];
    for (gi, c) in cases.iter().enumerate() {
        let Ok(c) = c else {
            if count {
                ck.skip("model could not elaborate the generated grammar");
            }
            continue;
        };
        for &(algo, ascent) in &vars {
            units.push(Unit {
                module: module_name(gi, algo, ascent),
                text: c.spec.print(PrintCfg { lalr: algo.needs_lalr_attr(), ascent }),
                algo,
                starts: c.starts.iter().map(|s| s.1.clone()).collect(),
                loc_ty: match c.spec.lexer {
                    Lexer::Builtin => None,
                    Lexer::Extern { .. } => Some(c.spec.loc_ty_name().to_string()),
                },
                flags: if c.feats.is_empty() { vec![] } else { vec!["--features".to_string(), c.feats.iter().cloned().collect::<Vec<_>>().join(",")] },
                compile: true,
                extra_args: c.extra_args.clone(),
            });
        }
        if which == Which::C15 {
            // the same grammar with the inactive items deleted by the model
            units.push(Unit {
                module: format!("g{gi}_del"),
                text: c.spec.print_mode(PrintCfg { lalr: false, ascent: false }, &crate::gspec::CfgMode::Deleted(c.feats.clone())),
                algo: Algo::Lane,
                starts: vec![],
                loc_ty: None,
                flags: vec![],
                compile: false,
                extra_args: vec![],
            });
        }
    }
    let batch = Batch::build(ctx, name, units);
    if dbg {
        eprintln!("[{:?}] batch built", t0.elapsed());
        for (m, e) in &batch.compile_errors {
            eprintln!("COMPILE ERROR in {m}:\n{e}");
        }
    }
    if let Some(e) = &batch.infra_error {
        ck.infra(format!("batch: {e}"));
        return fails;
    }
    // lalrpop outcomes
    let mut unit_idx: BTreeMap<String, usize> = BTreeMap::new();
    for (i, u) in batch.units.iter().enumerate() {
        unit_idx.insert(u.module.clone(), i);
    }
    for (i, u) in batch.units.iter().enumerate() {
        let o = &batch.gen[i];
        if count {
            if batch.accepted[i] {
                ck.class_n("units_accepted_by_lalrpop", 1);
            } else if o.panicked() {
                ck.class_n("units_lalrpop_panicked(C18 domain)", 1);
            } else {
                ck.class_n("units_rejected_by_lalrpop", 1);
            }
        }
        if batch.accepted[i] && u.compile && !batch.compiled(&u.module) {
            // C19 territory; reported there. Here: counted.
            if count {
                ck.class_n("units_failed_to_compile(C19 domain)", 1);
            }
        }
        if which == Which::C19 && batch.accepted[i] {
            let gi: usize = u.module[1..].split('_').next().and_then(|x| x.parse().ok()).unwrap_or(0);
            let Ok(c) = &cases[gi] else { continue };
            let ascent = u.module.ends_with("_a");
            if count {
                ck.eval();
                if c.rich_types {
                    ck.nontrivial(&(u.text.clone(), u.algo.name()));
                }
                ck.class(match c.spec.loc_ty() {
                    crate::gspec::LocTy::Usize => "accepted_units_loc_usize",
                    crate::gspec::LocTy::Newtype => "accepted_units_loc_copy_newtype",
                    crate::gspec::LocTy::CloneOnly => "accepted_units_loc_clone_only_newtype",
                });
            }
            if let Some(err) = batch.compile_errors.get(&u.module) {
                let first = err.lines().next().unwrap_or("");
                let msg = first.splitn(2, ": ").nth(1).unwrap_or(first);
                let code_free = crate::run::normalise_msg(msg);
                let loc_kind = match c.spec.loc_ty() {
                    crate::gspec::LocTy::CloneOnly => "clone-only-location",
                    _ => "any-location",
                };
                fails[gi].push(Fail {
                    sig: format!("C19/compile-error/{}/{}/{}", if ascent { "ascent" } else { "table" }, loc_kind, code_free),
                    what: format!("LALRPOP accepted the grammar but the generated module does not compile: {}", err.lines().take(3).collect::<Vec<_>>().join(" | ")),
                    replay: json!({
                        "which": which.id(),
                        "tape_hex": tape::hex(&c.tape),
                        "spec": serde_json::to_value(&c.spec).unwrap_or(Value::Null),
                        "grammar": u.text,
                        "algo": u.algo.name(),
                        "ascent": ascent,
                        "rustc": err,
                    }),
                });
            }
        }
    }
    // queries
    let mut queries = vec![];
    let mut qmeta: Vec<(usize, usize, usize)> = vec![]; // (gi, variant idx, input idx)
    for (gi, c) in cases.iter().enumerate() {
        let Ok(c) = c else { continue };
        for (vi, &(algo, ascent)) in vars.iter().enumerate() {
            let m = module_name(gi, algo, ascent);
            if !batch.compiled(&m) {
                continue;
            }
            for (ii, (si, terms, toks, text, err_at)) in c.inputs.iter().enumerate() {
                queries.push(query_for(c, &m, *si, toks, text, terms.len(), *err_at));
                qmeta.push((gi, vi, ii));
            }
        }
    }
    if dbg {
        eprintln!("[{:?}] {} queries", t0.elapsed(), queries.len());
    }
    let resps = batch.query(ctx, &queries);
    if dbg {
        eprintln!("[{:?}] answered", t0.elapsed());
    }
    batch.cleanup();
    // model outputs per (gi, ii), computed in parallel per grammar
    let gis: Vec<usize> = (0..cases.len()).collect();
    let per_grammar: Vec<Vec<Result<ModelOut, String>>> = crate::core::par_map(&gis, ctx.threads, |_, &gi| {
        let Ok(c) = &cases[gi] else { return vec![] };
        let any = vars.iter().any(|&(a, asc)| batch.compiled(&module_name(gi, a, asc)));
        if !any {
            return vec![];
        }
        c.inputs.iter().map(|(si, terms, toks, _, _)| model(c, c.starts[*si].0, terms, toks)).collect()
    });
    if dbg {
        eprintln!("[{:?}] models done", t0.elapsed());
    }
    let mut models: BTreeMap<(usize, usize), Result<ModelOut, String>> = BTreeMap::new();
    for (gi, v) in per_grammar.into_iter().enumerate() {
        for (ii, m) in v.into_iter().enumerate() {
            models.insert((gi, ii), m);
        }
    }
    // group responses per (gi, ii) for differential checks
    let mut by_input: BTreeMap<(usize, usize), Vec<(usize, &Resp)>> = BTreeMap::new();
    for (k, r) in resps.iter().enumerate() {
        let (gi, vi, ii) = qmeta[k];
        by_input.entry((gi, ii)).or_default().push((vi, r));
    }
    for ((gi, ii), rs) in &by_input {
        let c = cases[*gi].as_ref().unwrap();
        let (si, terms, toks, text, err_at) = &c.inputs[*ii];
        let start = c.starts[*si].0;
        let m = match models.get(&(*gi, *ii)) {
            Some(Ok(m)) => m,
            Some(Err(e)) => {
                ck.infra(e.clone());
                continue;
            }
            None => continue,
        };
        let mk_replay = |vi: usize, expected: Value, observed: &Resp| -> Value {
            let (algo, ascent) = vars[vi];
            json!({
                "which": which.id(),
                "tape_hex": tape::hex(&c.tape),
                "spec": serde_json::to_value(&c.spec).unwrap_or(Value::Null),
                "input": serde_json::to_value(&c.inputs[*ii]).unwrap_or(Value::Null),
                "features": c.feats.iter().cloned().collect::<Vec<_>>(),
                "variant_note": c.pair_note,
                "grammar": c.spec.print(PrintCfg { lalr: algo.needs_lalr_attr(), ascent }),
                "algo": algo.name(),
                "ascent": ascent,
                "start": c.starts[*si].1,
                "input_terms": terms.iter().map(|t| c.core.term_names[*t].clone()).collect::<Vec<_>>(),
                "input_term_ids": terms,
                "input_text": text,
                "poisoned_tokens": toks.iter().filter(|t| t.idx & (crate::model::eval::POISON | crate::model::eval::POISON2) != 0).map(|t| t.idx & crate::model::eval::IDX).collect::<Vec<_>>(),
                "stream_error_at": err_at,
                "expected": expected,
                "observed": format!("{observed:?}"),
            })
        };
        let cfg_name = |vi: usize| format!("{}/{}", if vars[vi].1 { "ascent" } else { "table" }, vars[vi].0.name());
        let reduced = c.core.is_reduced_from(start) && c.core.error_term.is_none();
        for &(vi, r) in rs {
            if count {
                ck.eval();
            }
            let key = (c.spec.print(PrintCfg { lalr: false, ascent: false }), vi, *si, terms.clone());
            match which {
                Which::C14 | Which::C25 => { /* pair oracle below */ }
                Which::C01 | Which::C02 | Which::C06 | Which::C12 | Which::C13 | Which::C15 => {
                  if which.check_member() {
                    let got = match r {
                        Resp::Ok { .. } => Some(true),
                        Resp::Err { .. } => Some(false),
                        _ => None,
                    };
                    let Some(got) = got else {
                        if count {
                            ck.skip("parser panicked / hung / overran its budget (C08 domain)");
                        }
                        continue;
                    };
                    if count && which == Which::C01 && c.n_user_nts >= 1 && (c.recursive || c.nullable_any) {
                        ck.nontrivial(&key);
                    }
                    if got != m.member {
                        fails[*gi].push(Fail {
                            sig: format!("{}/{}/{}", which.id(), if m.member { "rejects-sentence" } else { "accepts-non-sentence" }, cfg_name(vi)),
                            what: format!(
                                "{} parser returned {} on {:?} but the input is {} of `{}`",
                                cfg_name(vi),
                                if got { "Ok" } else { "Err" },
                                terms.iter().map(|t| c.core.term_names[*t].as_str()).collect::<Vec<_>>(),
                                if m.member { "a sentence" } else { "not a sentence" },
                                c.starts[*si].1
                            ),
                            replay: mk_replay(vi, json!({"member": m.member}), r),
                        });
                    }
                  }
                  if which.check_value() {
                    if !m.member {
                        continue;
                    }
                    if m.ambiguous {
                        if count {
                            ck.skip("input has several derivations (grammar ambiguous: C03 domain)");
                        }
                        continue;
                    }
                    let Some(Ok(v)) = &m.value else {
                        if count {
                            ck.skip("model evaluation ends in a failing action (C17 domain)");
                        }
                        continue;
                    };
                    let exp = v.render();
                    match r {
                        Resp::Ok { val, log, .. } => {
                            if which == Which::C02 {
                                if count && m.internal >= 3 && c.bind_forms >= 2 {
                                    ck.nontrivial(&key);
                                }
                            } else if which == Which::C12 {
                                // >= 2 operator tokens (everything but the operand `a` and the parentheses)
                                let ops = terms.iter().filter(|t| !matches!(c.spec.terms[c.term_of_core[**t]].kind, 0 | 5 | 6)).count();
                                if count && ops >= 2 {
                                    ck.nontrivial(&key);
                                }
                            } else if which == Which::C15 {
                                if count && c.cfg_deleted >= 1 && c.cfg_kept >= 1 {
                                    ck.nontrivial(&(key.clone(), c.feats.clone()));
                                }
                            } else if which == Which::C13 {
                                if count && (c.macro_multi_inst || c.conds_removed > 0) {
                                    ck.nontrivial(&key);
                                    if c.conds_removed > 0 {
                                        ck.class("accepted_inputs_in_grammars_with_removed_conditional_alternative");
                                    }
                                }
                            } else if count && (m.markers > 0 || m.empties > 0) {
                                ck.nontrivial(&key);
                                if m.bounded > 0 {
                                    ck.class("inputs_with_bounded_layer_markers");
                                }
                                if m.empties > 0 {
                                    ck.class("inputs_with_empty_noninlined_reduction");
                                }
                            }
                            if !render_matches(&exp, val) {
                                // classify known start-state/ascent shapes
                                let sig = if which == Which::C06 {
                                    format!("C06/location/{}", if vars[vi].1 { "ascent" } else { "table" })
                                } else {
                                    format!("{}/value/{}", which.id(), if vars[vi].1 { "ascent" } else { "table" })
                                };
                                fails[*gi].push(Fail {
                                    sig,
                                    what: format!("{} parser returned `{}`, the model evaluates the derivation to `{}`", cfg_name(vi), val, exp),
                                    replay: mk_replay(vi, json!({"value": exp, "log": m.log}), r),
                                });
                            } else if which == Which::C02 {
                                let ok = if c.has_inline_user {
                                    let mut a = log.clone();
                                    let mut b = m.log.clone();
                                    a.sort();
                                    b.sort();
                                    a == b
                                } else {
                                    *log == m.log
                                };
                                if !ok {
                                    fails[*gi].push(Fail {
                                        sig: format!("C02/action-order/{}", if vars[vi].1 { "ascent" } else { "table" }),
                                        what: format!("{} parser ran actions {:?}, post-order of the derivation is {:?}", cfg_name(vi), log, m.log),
                                        replay: mk_replay(vi, json!({"value": exp, "log": m.log}), r),
                                    });
                                }
                            }
                        }
                        Resp::Err { .. } => {
                            if count {
                                ck.skip("sentence rejected by the parser (C01 domain)");
                            }
                        }
                        _ => {
                            if count {
                                ck.skip("parser panicked / hung / overran its budget (C08 domain)");
                            }
                        }
                    }
                  }
                }
                Which::C19 => {}
                Which::C16 => {
                    let Resp::Ok { val, .. } = r else {
                        if count {
                            ck.class("c16_results_err(no claim)");
                        }
                        continue;
                    };
                    match c16_validate(c, val, toks, m) {
                        Ok((error_nodes, covered)) => {
                            if count {
                                if error_nodes >= 1 && covered >= 1 {
                                    ck.nontrivial(&key);
                                    ck.class("c16_ok_with_recovery");
                                } else if error_nodes >= 1 {
                                    ck.class("c16_ok_with_empty_error_node");
                                } else {
                                    ck.class("c16_ok_without_recovery");
                                }
                            }
                        }
                        Err((kind, msg)) => fails[*gi].push(Fail {
                            sig: format!("C16/{}/{}", kind, vars[vi].0.name()),
                            what: format!("{}: {} (result `{}`)", cfg_name(vi), msg, val),
                            replay: mk_replay(vi, json!({"violated": kind}), r),
                        }),
                    }
                }
                Which::C17 => {
                    // model timeline (A.6b): the first event among the stream
                    // error and the first failing action decides the result
                    if let (false, Some(p)) = (m.member, err_at) {
                        // the input is not a sentence (recovery grammars): the model
                        // cannot predict the result, but the statement still decides
                        // what may happen around the Err item at index p
                        let (got_stream_err, pulls, is_ok) = match r {
                            Resp::Ok { pulls, .. } => (false, *pulls, true),
                            Resp::Err { variant, a, pulls, .. } => (variant == "User" && a == &format!("stream-error-at-{p}"), *pulls, false),
                            _ => continue,
                        };
                        if count {
                            ck.nontrivial(&(key.clone(), toks.iter().map(|t| t.idx).collect::<Vec<_>>(), *err_at));
                            ck.class("c17_non_sentence_with_stream_error");
                            if c.core.error_term.is_some() {
                                ck.class("c17_recovery_grammar_with_stream_error");
                            }
                        }
                        let pulled_err = pulls as usize > *p;
                        let bad = if is_ok {
                            // Ok is only possible if the parser never reached the Err item - impossible, it must see end of input
                            Some("error-swallowed")
                        } else if pulled_err && !got_stream_err {
                            Some("error-swallowed")
                        } else if pulls as usize > *p + 1 {
                            Some("token-pulls")
                        } else {
                            None
                        };
                        if let Some(kind) = bad {
                            fails[*gi].push(Fail {
                                sig: format!("C17/{}/{}", kind, cfg_name(vi)),
                                what: format!(
                                    "{} parser pulled {} items from a stream whose item #{} is Err and returned {:?}; once the Err item is pulled the result must be exactly that error and nothing more may be read",
                                    cfg_name(vi), pulls, p, r
                                ),
                                replay: mk_replay(vi, json!({"stream_error_at": p}), r),
                            });
                        }
                        continue;
                    }
                    if !m.member || m.ambiguous {
                        continue;
                    }
                    let Some(mv) = &m.value else { continue };
                    let p = err_at.unwrap_or(usize::MAX);
                    let n = terms.len();
                    // expected outcome
                    #[derive(Debug, PartialEq)]
                    enum Exp {
                        Ok(String),
                        User(String),
                        Other(String),
                    }
                    let (exp, exp_log, exp_pulls): (Exp, Vec<u32>, u32) = match (mv, m.fail_hi) {
                        (Err(f), Some(fh)) if fh < p => {
                            // the failing action runs before the stream error is pulled
                            let e = match f {
                                Failure::User(e) => Exp::User(e.clone()),
                                Failure::Other(q) => Exp::Other(q.clone()),
                            };
                            (e, m.log.clone(), (fh + 1).min(n + 1) as u32)
                        }
                        _ if err_at.is_some() => {
                            let lg: Vec<u32> = m.log.iter().zip(&m.log_hi).filter(|(_, h)| **h < p).map(|(a, _)| *a).collect();
                            (Exp::User(format!("stream-error-at-{p}")), lg, p as u32 + 1)
                        }
                        (Ok(v), _) => (Exp::Ok(v.render()), m.log.clone(), n as u32 + 1),
                        (Err(_), _) => continue,
                    };
                    if count {
                        let last_action_fails = matches!(mv, Err(_)) && m.fail_hi.map_or(false, |fh| fh < p) && m.fail_hi == Some(n);
                        if (matches!(exp, Exp::User(_) | Exp::Other(_)) && !last_action_fails) || err_at.is_some() {
                            ck.nontrivial(&(key.clone(), toks.iter().map(|t| t.idx).collect::<Vec<_>>(), *err_at));
                        }
                        match &exp {
                            Exp::Ok(_) => ck.class("c17_expected_ok"),
                            Exp::User(e) if e.starts_with("stream") => ck.class("c17_expected_stream_error"),
                            Exp::User(_) => ck.class("c17_expected_action_user_error"),
                            Exp::Other(_) => ck.class("c17_expected_action_other_error"),
                        }
                    }
                    let (got, got_log, got_pulls) = match r {
                        Resp::Ok { val, log, pulls } => (Exp::Ok(val.clone()), log.clone(), *pulls),
                        Resp::Err { variant, a, expected, log, pulls, .. } if variant == "User" => (Exp::User(a.clone()), log.clone(), *pulls),
                        Resp::Err { variant, a, expected, log, pulls, .. } if variant == "UnrecognizedEof" && a == "@777" => {
                            (Exp::Other(expected.first().cloned().unwrap_or_default()), log.clone(), *pulls)
                        }
                        Resp::Err { variant, a, b, c: cc, log, pulls, .. } => (Exp::Other(format!("{variant}({a},{b},{cc})")), log.clone(), *pulls),
                        _ => {
                            if count {
                                ck.skip("parser panicked / hung / overran its budget (C08 domain)");
                            }
                            continue;
                        }
                    };
                    let value_ok = match (&exp, &got) {
                        (Exp::Ok(e), Exp::Ok(g)) => render_matches(e, g),
                        (a, b) => a == b,
                    };
                    // with inlined user actions the relative order inside one host reduction is C14's subject
                    let log_ok = if c.has_inline_user {
                        let (mut a, mut b) = (got_log.clone(), exp_log.clone());
                        a.sort();
                        b.sort();
                        a == b || !value_ok
                    } else {
                        got_log == exp_log
                    };
                    if !value_ok || !log_ok || got_pulls != exp_pulls {
                        let kind = if !value_ok {
                            match (&exp, &got) {
                                (Exp::Ok(_), _) => "spurious-error",
                                (_, Exp::Ok(_)) => "error-swallowed",
                                _ => "wrong-error",
                            }
                        } else if !log_ok {
                            "actions-after-failure-or-wrong-order"
                        } else {
                            "token-pulls"
                        };
                        fails[*gi].push(Fail {
                            sig: format!("C17/{}/{}", kind, cfg_name(vi)),
                            what: format!(
                                "{} parser returned {:?} with log {:?} after {} pulls; the model timeline gives {:?} with log {:?} after {} pulls",
                                cfg_name(vi), got, got_log, got_pulls, exp, exp_log, exp_pulls
                            ),
                            replay: mk_replay(vi, json!({"result": format!("{exp:?}"), "log": exp_log, "pulls": exp_pulls}), r),
                        });
                    }
                }
                Which::C04 | Which::C05 => {
                    // C05 also covers grammars with `!`: there only the FIRST error of an
                    // input can be judged (its consumed prefix is a plain input prefix)
                    let recovery_case = which == Which::C05 && c.core.error_term.is_some() && c.core.is_reduced_from(start);
                    let reduced = reduced || recovery_case;
                    if m.member || !reduced {
                        if count && !m.member {
                            ck.skip("grammar not reduced from this start symbol or uses `!` (outside the precondition)");
                        }
                        continue;
                    }
                    // recovery grammars whose parse went on after the first error: that
                    // error is the `ErrorRecovery::error` of an error node in the result
                    let recovered: Option<Resp> = match r {
                        Resp::Ok { val, pulls, log } if recovery_case => {
                            let want_lo = m.dead_at.map(|k| (format!("@{}", toks[k - 1].lo), tok_render(&toks[k - 1])));
                            first_recovered_error(val, want_lo.as_ref()).map(|(variant, a, b, c, expected)| Resp::Err {
                                variant,
                                a,
                                b,
                                c,
                                expected,
                                pulls: *pulls,
                                log: log.clone(),
                            })
                        }
                        _ => None,
                    };
                    let from_recovery_value = recovered.is_some();
                    let r = recovered.as_ref().unwrap_or(r);
                    let Resp::Err { variant, a, b, c: cc, expected, pulls, .. } = r else {
                        if count {
                            ck.skip("non-sentence not rejected with a ParseError (C01/C08 domain)");
                        }
                        continue;
                    };
                    if count && from_recovery_value {
                        ck.class("c05_first_error_taken_from_a_recovered_error_node");
                    }
                    let n = terms.len();
                    // consumed prefix length
                    let consumed = match m.dead_at {
                        Some(k) => k - 1,
                        None => n,
                    };
                    if which == Which::C04 {
                        if count && (consumed >= 1) {
                            ck.nontrivial(&key);
                        }
                        let (ev, ea, eb, ec, max_pulls) = match m.dead_at {
                            Some(k) => {
                                let t = &toks[k - 1];
                                ("UnrecognizedToken", format!("@{}", t.lo), tok_render(t), format!("@{}", t.hi), k as u32)
                            }
                            None => {
                                let loc = if n == 0 { 0 } else { toks[n - 1].hi };
                                ("UnrecognizedEof", format!("@{loc}"), String::new(), String::new(), n as u32 + 1)
                            }
                        };
                        let builtin = text.is_some();
                        let pulls_ok = builtin || *pulls <= max_pulls;
                        if variant != ev || *a != ea || *b != eb || *cc != ec || !pulls_ok {
                            let kind = if variant == "ExtraToken" {
                                "extra-token"
                            } else if variant != ev {
                                "wrong-variant"
                            } else if !pulls_ok {
                                "read-past-error-token"
                            } else {
                                "wrong-token-or-span"
                            };
                            fails[*gi].push(Fail {
                                sig: format!("C04/{}/{}", kind, cfg_name(vi)),
                                what: format!(
                                    "{} parser reported {}({},{},{}) after {} pulls; expected {}({},{},{}) with at most {} pulls",
                                    cfg_name(vi), variant, a, b, cc, pulls, ev, ea, eb, ec, max_pulls
                                ),
                                replay: mk_replay(vi, json!({"variant": ev, "a": ea, "b": eb, "c": ec, "max_pulls": max_pulls}), r),
                            });
                        }
                    } else {
                        if variant != "UnrecognizedToken" && variant != "UnrecognizedEof" {
                            continue;
                        }
                        if recovery_case {
                            // is the reported error the first one (at the shortest non-viable prefix)?
                            let first = match m.dead_at {
                                Some(k) => variant == "UnrecognizedToken" && *a == format!("@{}", toks[k - 1].lo) && *b == tok_render(&toks[k - 1]),
                                None => variant == "UnrecognizedEof",
                            };
                            if !first {
                                if count {
                                    ck.skip("recovery grammar: the returned error is not the first error of the input (its consumed prefix contains error nodes)");
                                }
                                continue;
                            }
                            if count {
                                ck.class("c05_first_error_in_recovery_grammar");
                            }
                        }
                        let (vc_all, _eof) = &m.next[consumed];
                        // the error pseudo-terminal is not an input token: never a continuation
                        let vc_owned: BTreeSet<usize> = vc_all.iter().copied().filter(|t| Some(*t) != c.core.error_term).collect();
                        let vc = &vc_owned;
                        let nterm = c.core.term_names.len();
                        if count && consumed >= 1 && vc.len() < nterm {
                            ck.nontrivial(&key);
                        }
                        let mut seen = BTreeSet::new();
                        let mut listed = BTreeSet::new();
                        let mut problem: Option<(String, String)> = None;
                        for e in expected {
                            if !seen.insert(e.clone()) {
                                problem = Some(("duplicate".into(), format!("`{e}` listed twice")));
                                break;
                            }
                            if e == "error" || Some(e.as_str()) == c.core.error_term.map(|t| c.core.term_names[t].as_str()) {
                                problem = Some(("error-terminal".into(), "the error pseudo-terminal is listed".into()));
                                break;
                            }
                            match c.core.term_names.iter().position(|n| n == e) {
                                None => {
                                    problem = Some(("unknown-name".into(), format!("`{e}` is not a terminal of the grammar")));
                                    break;
                                }
                                Some(t) => {
                                    listed.insert(t);
                                    if !vc.contains(&t) {
                                        problem = Some((
                                            "overbroad".into(),
                                            format!("`{e}` is listed but the consumed prefix followed by it is not a prefix of any sentence"),
                                        ));
                                    }
                                }
                            }
                        }
                        if problem.is_none() && vars[vi].0 == Algo::Lr1 && listed != *vc {
                            problem = Some((
                                "incomplete".into(),
                                format!(
                                    "canonical LR(1): listed {:?} but the valid continuations are {:?}",
                                    expected,
                                    vc.iter().map(|t| c.core.term_names[*t].as_str()).collect::<Vec<_>>()
                                ),
                            ));
                        }
                        if let Some((kind, msg)) = problem {
                            fails[*gi].push(Fail {
                                sig: format!("C05/{}/{}", kind, cfg_name(vi)),
                                what: format!("{}: {} (expected list {:?})", cfg_name(vi), msg, expected),
                                replay: mk_replay(
                                    vi,
                                    json!({"valid_continuations": vc.iter().map(|t| c.core.term_names[*t].clone()).collect::<Vec<_>>()}),
                                    r,
                                ),
                            });
                        }
                    }
                }
                Which::C07 => { /* handled below, per input */ }
                Which::C08 => {
                    if count && (!m.member || c.nullable_any) {
                        ck.nontrivial(&key);
                    }
                    let n = terms.len() as u32;
                    let bad = match r {
                        Resp::Panic { msg } => Some(("panic", msg.clone())),
                        Resp::Budget => Some(("step-budget", "step budget exceeded".to_string())),
                        Resp::Crash(m) => Some(("crash", m.clone())),
                        Resp::Hang => {
                            ck.inconclusive += 1;
                            ck.infra("driver watchdog expired without counter evidence");
                            None
                        }
                        Resp::Ok { pulls, .. } | Resp::Err { pulls, .. } if text.is_none() && *pulls > n + 1 => {
                            Some(("too-many-pulls", format!("{pulls} token pulls for {n} tokens")))
                        }
                        _ => None,
                    };
                    if let Some((kind, msg)) = bad {
                        fails[*gi].push(Fail {
                            sig: format!("C08/{}/{}/{}", kind, cfg_name(vi), crate::run::normalise_msg(&msg)),
                            what: format!("{} parser: {}", cfg_name(vi), msg),
                            replay: mk_replay(vi, json!("Ok or Err within the step budget"), r),
                        });
                    }
                }
            }
        }
        if which == Which::C07 && c.core.error_term.is_none() {
            // pair table/ascent per algorithm
            for algo in Algo::ALL {
                let t = rs.iter().find(|(vi, _)| vars[*vi] == (algo, false));
                let a = rs.iter().find(|(vi, _)| vars[*vi] == (algo, true));
                let (Some((tvi, tr)), Some((avi, ar))) = (t, a) else { continue };
                if count {
                    ck.eval();
                    if !m.member || m.empties > 0 {
                        ck.nontrivial(&(c.spec.print(PrintCfg { lalr: false, ascent: false }), algo, *si, terms.clone()));
                    }
                }
                let proj = |r: &Resp| -> Option<String> {
                    match r {
                        Resp::Ok { val, .. } => Some(format!("Ok({val})")),
                        Resp::Err { variant, a, b, c, .. } => Some(format!("Err({variant},{a},{b},{c})")),
                        _ => None,
                    }
                };
                let (Some(pt), Some(pa)) = (proj(tr), proj(ar)) else {
                    if count {
                        ck.skip("a backend panicked / hung (C08 domain)");
                    }
                    continue;
                };
                if pt != pa {
                    let kind = if pt.starts_with("Ok") && pa.starts_with("Ok") {
                        "ok-value"
                    } else if pt.starts_with("Err") && pa.starts_with("Err") {
                        "error"
                    } else {
                        "ok-vs-err"
                    };
                    fails[*gi].push(Fail {
                        sig: format!("C07/{}/{}", kind, algo.name()),
                        what: format!("table-driven returned {pt}, recursive ascent returned {pa} ({})", algo.name()),
                        replay: {
                            let mut v = mk_replay(*tvi, json!({"table": pt, "ascent": pa}), ar);
                            v["ascent_grammar"] = json!(c.spec.print(PrintCfg { lalr: algo.needs_lalr_attr(), ascent: true }));
                            let _ = avi;
                            v
                        },
                    });
                }
            }
        }
    }
    if which == Which::C15 {
        for (gi, c) in cases.iter().enumerate() {
            let Ok(c) = c else { continue };
            let m_cfg = module_name(gi, Algo::Lane, false);
            let m_del = format!("g{gi}_del");
            let (Some(&ia), Some(&ib)) = (unit_idx.get(&m_cfg), unit_idx.get(&m_del)) else { continue };
            if count {
                ck.eval();
                if c.cfg_deleted >= 1 && c.cfg_kept >= 1 {
                    ck.nontrivial(&(batch.units[ia].text.clone(), c.feats.clone()));
                }
                ck.class(if c.starts.is_empty() { "c15_text_only(active item refers to a deleted one)" } else { "c15_modelled" });
            }
            let (pa, pb) = (batch.gen[ia].panicked(), batch.gen[ib].panicked());
            if pa || pb {
                if count {
                    ck.skip("lalrpop panicked on one form (C18 domain)");
                }
                continue;
            }
            let strip = |t: String| -> String { t.lines().skip(2).collect::<Vec<_>>().join("\n") };
            let fail = if batch.accepted[ia] != batch.accepted[ib] {
                Some((
                    "verdict".to_string(),
                    format!(
                        "with features {:?} LALRPOP {} the grammar carrying #[cfg] attributes but {} the same grammar with the inactive items deleted",
                        c.feats,
                        if batch.accepted[ia] { "accepts" } else { "rejects" },
                        if batch.accepted[ib] { "accepts" } else { "rejects" }
                    ),
                ))
            } else if batch.accepted[ia] {
                let (ta, tb) = (batch.generated(&m_cfg).map(strip), batch.generated(&m_del).map(strip));
                if ta != tb {
                    Some(("generated-code-differs".to_string(), format!("with features {:?} the generated parser differs from the one generated for the grammar with the inactive items deleted", c.feats)))
                } else {
                    None
                }
            } else {
                None
            };
            // the other two ways of supplying the feature set must generate the
            // same file as the CLI's --features: Configuration::set_features and
            // the CARGO_FEATURE_* environment (process_dir without set_features)
            let mut fail = fail;
            if fail.is_none() && batch.accepted[ia] {
                use super::driver_common::Api;
                let cli_text = batch.generated(&m_cfg);
                let rdir = batch.dir.join("routes").join(format!("g{gi}"));
                let feats: Vec<String> = c.feats.iter().cloned().collect();
                for route in ["set_features", "cargo_feature_env"] {
                    let d = rdir.join(route);
                    let _ = std::fs::create_dir_all(d.join("in"));
                    let _ = std::fs::write(d.join("in/g.lalrpop"), &batch.units[ia].text);
                    let api = if route == "set_features" {
                        Api {
                            cfg: vec![json!(["set_features", feats]), json!(["set_out_dir", "out"]), json!(["force_build", true])],
                            run: json!(["process_file", "in/g.lalrpop"]),
                            env: BTreeMap::new(),
                        }
                    } else {
                        let env: BTreeMap<String, String> =
                            feats.iter().map(|f| (format!("CARGO_FEATURE_{}", f.to_uppercase().replace('-', "_")), "1".to_string())).collect();
                        Api { cfg: vec![json!(["set_out_dir", "out"]), json!(["force_build", true])], run: json!(["process_dir", "in"]), env }
                    };
                    let o = api.exec(ctx, &d);
                    let got = std::fs::read_to_string(d.join("out/g.rs")).ok();
                    if count {
                        ck.eval();
                        ck.class(&format!("c15_route_{route}"));
                    }
                    if got != cli_text {
                        fail = Some((
                            format!("feature-route-differs/{route}"),
                            format!(
                                "features {:?} given through {route} generate {} than through --features (exit {:?})",
                                c.feats,
                                if got.is_none() { "no output (error) rather" } else { "a different parser" },
                                o.exit
                            ),
                        ));
                        break;
                    }
                }
                let _ = std::fs::remove_dir_all(&rdir);
            }
            if let Some((kind, what)) = fail {
                fails[gi].push(Fail {
                    sig: format!("C15/{kind}"),
                    what,
                    replay: json!({
                        "which": which.id(),
                        "tape_hex": tape::hex(&c.tape),
                        "spec": serde_json::to_value(&c.spec).unwrap_or(Value::Null),
                        "features": c.feats.iter().cloned().collect::<Vec<_>>(),
                        "grammar": batch.units[ia].text,
                        "grammar_with_inactive_items_deleted": batch.units[ib].text,
                        "lalrpop_cfg": batch.gen[ia].stdout.lines().take(6).collect::<Vec<_>>(),
                        "lalrpop_deleted": batch.gen[ib].stdout.lines().take(6).collect::<Vec<_>>(),
                        "algo": "lane", "ascent": false,
                    }),
                });
            }
        }
    }
    if which.pair_mode() {
        for k in 0..cases.len() / 2 {
            let (ga, gb) = (2 * k, 2 * k + 1);
            let (Ok(ca), Ok(cb)) = (&cases[ga], &cases[gb]) else {
                if count {
                    ck.skip("pair not modelled / no variant possible");
                }
                continue;
            };
            for (vi, &(algo, ascent)) in vars.iter().enumerate() {
                let (ma, mb) = (module_name(ga, algo, ascent), module_name(gb, algo, ascent));
                let (Some(&ia), Some(&ib)) = (unit_idx.get(&ma), unit_idx.get(&mb)) else { continue };
                let cfgn = format!("{}/{}", if ascent { "ascent" } else { "table" }, algo.name());
                let base_replay = |extra: Value| -> Value {
                    json!({
                        "which": which.id(),
                        "tape_hex": tape::hex(&ca.tape),
                        "spec": serde_json::to_value(&ca.spec).unwrap_or(Value::Null),
                        "variant_spec": serde_json::to_value(&cb.spec).unwrap_or(Value::Null),
                        "grammar": batch.units[ia].text,
                        "variant_grammar": batch.units[ib].text,
                        "variant_note": cb.pair_note,
                        "algo": algo.name(), "ascent": ascent,
                        "detail": extra,
                    })
                };
                if batch.gen[ia].panicked() || batch.gen[ib].panicked() {
                    if count {
                        ck.skip("lalrpop panicked on one form (C18 domain)");
                    }
                    continue;
                }
                if which == Which::C25 {
                    if count {
                        ck.eval();
                        if cb.pair_note.split(' ').any(|n| n.ends_with("_3f") || n.ends_with("_2a") || n.ends_with("_2b")) {
                            ck.class(if ascent { "c25_nonterminal_named_like_an_escaped_derived_name_ascent" } else { "c25_nonterminal_named_like_an_escaped_derived_name_table" });
                            if batch.accepted[ia] && batch.accepted[ib] {
                                ck.class("c25_escaped_derived_name_pair_accepted");
                            }
                        }
                    }
                    if batch.accepted[ia] != batch.accepted[ib] {
                        let msg = |i: usize| batch.gen[i].stdout.lines().find(|l| l.contains("error") || l.contains("detected")).unwrap_or("").to_string();
                        let why = if batch.accepted[ia] { msg(ib) } else { msg(ia) };
                        let why_n = crate::run::normalise_msg(why.split("error: ").last().unwrap_or(&why));
                        fails[ga].push(Fail {
                            sig: format!("C25/verdict-changes-with-renaming/{}", why_n),
                            what: format!("LALRPOP {} the grammar but {} its renaming ({}): {}", if batch.accepted[ia] { "accepts" } else { "rejects" }, if batch.accepted[ib] { "accepts" } else { "rejects" }, cb.pair_note, why),
                            replay: base_replay(json!({"lalrpop_original": batch.gen[ia].stdout.lines().take(8).collect::<Vec<_>>(), "lalrpop_renamed": batch.gen[ib].stdout.lines().take(8).collect::<Vec<_>>()})),
                        });
                        continue;
                    }
                    if batch.accepted[ia] && batch.compiled(&ma) != batch.compiled(&mb) {
                        let err = batch.compile_errors.get(&ma).or(batch.compile_errors.get(&mb)).cloned().unwrap_or_default();
                        let first = err.lines().next().unwrap_or("");
                        let msg = first.splitn(2, ": ").nth(1).unwrap_or(first);
                        fails[ga].push(Fail {
                            // a duplicate binding keeps its name in the signature: which identifier
                            // collides is the root cause (`v`/`e` of the synthesised `X+` bindings are listed)
                            sig: format!(
                                "C25/compile-result-changes-with-renaming/{}",
                                if msg.contains("is bound more than once in this parameter list") { msg.to_string() } else { crate::run::normalise_msg(msg) }
                            ),
                            what: format!("only one of the grammar and its renaming ({}) compiles: {}", cb.pair_note, err.lines().take(3).collect::<Vec<_>>().join(" | ")),
                            replay: base_replay(json!({"rustc": err})),
                        });
                        continue;
                    }
                }
                if !(batch.compiled(&ma) && batch.compiled(&mb)) {
                    if count {
                        ck.skip("one form rejected by LALRPOP or not compiled (precondition: both conflict-free)");
                    }
                    continue;
                }
                for ii in 0..ca.inputs.len() {
                    let (Some(ra), Some(rb)) = (
                        by_input.get(&(ga, ii)).and_then(|v| v.iter().find(|(x, _)| *x == vi)).map(|x| x.1),
                        by_input.get(&(gb, ii)).and_then(|v| v.iter().find(|(x, _)| *x == vi)).map(|x| x.1),
                    ) else { continue };
                    if count {
                        ck.eval();
                    }
                    let (si, terms, toks, text, _) = &ca.inputs[ii];
                    let in_json = json!({"start": ca.starts[*si].1, "input": terms.iter().map(|t| ca.core.term_names[*t].clone()).collect::<Vec<_>>(), "text": text,
                        "poisoned": toks.iter().filter(|t| t.idx & crate::model::eval::POISON != 0).map(|t| t.idx & crate::model::eval::IDX).collect::<Vec<_>>(),
                        "input_tuple": serde_json::to_value(&ca.inputs[ii]).unwrap_or(Value::Null)});
                    let key = (batch.units[ia].text.clone(), batch.units[ib].text.clone(), vi, ii);
                    if which == Which::C25 {
                        if count && cb.pair_note.contains("__") {
                            ck.nontrivial(&key);
                        }
                        if ra != rb {
                            fails[ga].push(Fail {
                                sig: format!("C25/parse-result-changes-with-renaming/{cfgn}"),
                                what: format!("original returned {ra:?}, renamed ({}) returned {rb:?}", cb.pair_note),
                                replay: base_replay(json!({"case": in_json, "original": format!("{ra:?}"), "renamed": format!("{rb:?}")})),
                            });
                        }
                        continue;
                    }
                    // C14
                    let proj = |r: &Resp| -> Option<(bool, String)> {
                        match r {
                            Resp::Ok { val, .. } => Some((true, format!("Ok({val})"))),
                            Resp::Err { variant, a, b, c, .. } => Some((false, format!("Err({variant},{a},{b},{c})"))),
                            _ => None,
                        }
                    };
                    let (Some((oka, pa)), Some((_okb, pb))) = (proj(ra), proj(rb)) else {
                        if count {
                            ck.skip("a parser panicked / hung (C08 domain)");
                        }
                        continue;
                    };
                    let mb_model = match models.get(&(gb, ii)) {
                        Some(Ok(m)) => m,
                        _ => continue,
                    };
                    if count && mb_model.inline_actions >= 1 {
                        ck.nontrivial(&key);
                        if mb_model.distinct_inlined_hosts > 0 {
                            ck.class("c14_inputs_with_distinct_inlined_nonterminals_in_one_host");
                        }
                        if mb_model.repeated_inlined_hosts > 0 {
                            ck.class("c14_inputs_with_repeated_inlined_nonterminal_in_one_host");
                        }
                    }
                    if pa != pb {
                        // F10: with two different inlined nonterminals in one host the later one's error wins
                        let both_user = pa.starts_with("Err(User") && pb.starts_with("Err(User");
                        let sig = if both_user && mb_model.distinct_inlined_hosts > 0 {
                            "C14/order/distinct-inlined-nonterminals".to_string()
                        } else {
                            format!("C14/result-changes-with-inline/{cfgn}")
                        };
                        fails[ga].push(Fail {
                            sig,
                            what: format!("without #[inline] the parser returned {pa}, with ({}) it returned {pb}", cb.pair_note),
                            replay: base_replay(json!({"case": in_json, "original": pa, "inlined": pb})),
                        });
                        continue;
                    }
                    // log of the inlined form vs the model's prediction
                    if let (Resp::Ok { log, .. } | Resp::Err { log, .. }, true) = (rb, mb_model.member && !mb_model.ambiguous) {
                        // compare only when the model's evaluation reached the same outcome class
                        let model_ok = matches!(mb_model.value, Some(Ok(_)));
                        if model_ok == oka && *log != mb_model.log {
                            let (mut x, mut y) = (log.clone(), mb_model.log.clone());
                            x.sort();
                            y.sort();
                            // F10 only permutes whole inlined nonterminals against each
                            // other: the actions of one nonterminal (id / 32) keep their
                            // relative order. Anything else is a different root cause.
                            let per_nt = |v: &[u32]| -> BTreeMap<u32, Vec<u32>> {
                                let mut m: BTreeMap<u32, Vec<u32>> = BTreeMap::new();
                                for id in v {
                                    m.entry((id - 1) / 32).or_default().push(*id);
                                }
                                m
                            };
                            // (an occurrence reached through another inlined nonterminal sits in that
                            // one's wrapper, so even two actions of one nonterminal can swap when the
                            // derivation inlines several different nonterminals into one host: the
                            // per-nonterminal order is only reported as a statistic)
                            let same_nt_order_kept = per_nt(log) == per_nt(&mb_model.log);
                            if count && x == y && !same_nt_order_kept && mb_model.distinct_inlined_hosts > 0 {
                                ck.class("c14_f10_cases_where_same_nonterminal_actions_swap(nested wrappers)");
                            }
                            let sig = if x == y && mb_model.distinct_inlined_hosts > 0 {
                                "C14/order/distinct-inlined-nonterminals".to_string()
                            } else {
                                format!("C14/inlined-action-order/{cfgn}")
                            };
                            fails[ga].push(Fail {
                                sig,
                                what: format!("with ({}) the actions ran in order {:?}; inlined actions left to right just before their host give {:?}", cb.pair_note, log, mb_model.log),
                                replay: base_replay(json!({"case": in_json, "observed_log": log, "model_log": mb_model.log})),
                            });
                        }
                    }
                }
            }
        }
    }
    if count {
        // samples + classes
        for (gi, c) in cases.iter().enumerate() {
            let Ok(c) = c else { continue };
            ck.class(match c.spec.lexer {
                Lexer::Builtin => "grammars_builtin_lexer",
                Lexer::Extern { .. } => "grammars_extern_lexer",
            });
            if c.has_inline_user {
                ck.class("grammars_with_inlined_user_actions");
            }
            if c.nullable_any {
                ck.class("grammars_with_nullable_nonterminal");
            }
            if c.recursive {
                ck.class("grammars_recursive");
            }
            if ck.want_sample() && (gi % 5 == 0 || ck.samples.len() < 2) && !c.inputs.is_empty() {
                let m0 = module_name(gi, Algo::Lane, false);
                let acc = unit_idx.get(&m0).map(|i| batch.accepted[*i]).unwrap_or(false);
                if acc {
                    let (si, terms, _, text, _) = &c.inputs[c.inputs.len() / 2];
                    ck.sample(json!({
                        "grammar": c.spec.print(PrintCfg{lalr:false, ascent:false}),
                        "start": c.starts[*si].1,
                        "input": terms.iter().map(|t| c.core.term_names[*t].clone()).collect::<Vec<_>>(),
                        "text": text,
                        "inputs_for_this_grammar": c.inputs.len(),
                    }));
                }
            }
        }
    }
    fails
}

fn shrink(ctx: &Ctx, which: Which, tape_in: &[u8], sig: &str, rounds: usize, focus: Option<Vec<(Algo, bool)>>) -> (Vec<u8>, Option<Fail>) {
    let mut cur = tape_in.to_vec();
    let mut best: Option<Fail> = None;
    for round in 0..rounds {
        // candidates: delete spans, zero bytes
        let mut cands: Vec<Vec<u8>> = vec![];
        let n = cur.len();
        let mut span = (n / 2).max(1);
        while span >= 1 {
            let mut i = 0;
            while i + span <= n && cands.len() < 48 {
                let mut c = cur.clone();
                c.drain(i..i + span);
                cands.push(c);
                i += span;
            }
            if span == 1 {
                break;
            }
            span /= 2;
        }
        for i in 0..n {
            if cur[i] != 0 && cands.len() < 96 {
                let mut c = cur.clone();
                c[i] = 0;
                cands.push(c);
            }
        }
        cands.sort();
        cands.dedup();
        if cands.is_empty() {
            break;
        }
        let res = evaluate(ctx, which, &cands, &format!("shrink{round}"), None, 1, focus.clone());
        let mut improved = false;
        let mut order: Vec<usize> = (0..cands.len()).collect();
        order.sort_by_key(|&i| (cands[i].len(), cands[i].iter().map(|b| *b as usize).sum::<usize>()));
        for i in order {
            if let Some(f) = res[i].iter().find(|f| f.sig == sig) {
                if cands[i].len() < cur.len() || cands[i].iter().map(|b| *b as usize).sum::<usize>() < cur.iter().map(|b| *b as usize).sum::<usize>() {
                    cur = cands[i].clone();
                    best = Some(f.clone());
                    improved = true;
                    break;
                }
            }
        }
        if !improved {
            break;
        }
    }
    (cur, best)
}

fn replay_case(ctx: &Ctx, which: Which, ck: &mut Checker, v: &Value) {
    // self-contained: the stored GSpec and input are re-evaluated; the tape is
    // kept for reference only
    let tape = tape::unhex(v["tape_hex"].as_str().unwrap_or(""));
    let spec: GSpec = match serde_json::from_value(v["spec"].clone()) {
        Ok(s) => s,
        Err(e) => {
            ck.infra(format!("pinned replay: cannot decode the stored grammar spec: {e}"));
            return;
        }
    };
    let inputs: Option<Vec<InputTuple>> = match serde_json::from_value::<InputTuple>(v["input"].clone()) {
        Ok(i) => Some(vec![i]),
        Err(_) => None,
    };
    let algo = match v["algo"].as_str() {
        Some("lr1") => Algo::Lr1,
        Some("lalr") => Algo::Lalr,
        _ => Algo::Lane,
    };
    let ascent = v["ascent"].as_bool().unwrap_or(false);
    let focus = if which == Which::C07 { vec![(algo, false), (algo, true)] } else { vec![(algo, ascent)] };
    let mut t = Tape::new(&tape);
    // C19 has no input: let the generator make a few (they are not used by its oracle)
    let fixed = if inputs.is_some() { inputs } else { Some(vec![]) };
    let feats: BTreeSet<String> = serde_json::from_value(v["features"].clone()).unwrap_or_default();
    let fixed = if which.pair_mode() {
        match serde_json::from_value::<InputTuple>(v["detail"]["case"]["input_tuple"].clone()) {
            Ok(i) => Some(vec![i]),
            Err(_) => Some(vec![]),
        }
    } else {
        fixed
    };
    let case = case_from_spec(spec, &tape, &mut t, which, 1, fixed.clone(), feats, String::new());
    if let Err(e) = &case {
        ck.infra(format!("pinned replay: {e}"));
        return;
    }
    let mut cases = vec![case];
    if which.pair_mode() {
        let vspec: GSpec = match serde_json::from_value(v["variant_spec"].clone()) {
            Ok(s) => s,
            Err(e) => {
                ck.infra(format!("pinned replay: cannot decode the stored variant spec: {e}"));
                return;
            }
        };
        let note = v["variant_note"].as_str().unwrap_or("").to_string();
        cases.push(case_from_spec(vspec, &tape, &mut t, which, 1, fixed, BTreeSet::new(), note));
    }
    let fails: Vec<Fail> = evaluate_cases(ctx, which, cases, "replay", None, Some(focus)).into_iter().flatten().collect();
    let fails = vec![fails];
    ck.eval();
    let want = v["signature"].as_str().unwrap_or("");
    for f in &fails[0] {
        if ck.strict || f.sig == want || ck.is_known(&f.sig) {
            ck.violation(&f.sig, &f.what, f.replay.clone());
        }
    }
}

pub fn run(ctx: Ctx, replay: Option<PathBuf>, which: Which) -> i32 {
    let mut ck = Checker::new(ctx.clone(), "exploration", which.rule());
    ck.assume("the reference model (harness/src/model, gspec.rs elaboration) written from the book and the property statements");
    ck.assume("rustc and the batch runtime rt.rs (rendering trait, counting token iterator) behave as written");
    if let Some(p) = replay {
        ck.strict = true;
        match super::load_replay(&p) {
            Ok(v) if which == Which::C08 && v.get("spec").is_none() => super::c08l::replay_case(&mut ck, &v),
            Ok(v) => replay_case(&ctx, which, &mut ck, &v),
            Err(c) => return c,
        }
        return ck.finish();
    }
    {
        let ctx2 = ctx.clone();
        ck.replay_listed(|ck, v| {
            if which == Which::C08 && v.get("spec").is_none() {
                // lexer-level repro (part (i) of C08)
                super::c08l::replay_case(ck, v)
            } else {
                replay_case(&ctx2, which, ck, v)
            }
        });
    }
    let (n_grammars, scale) = match which {
        Which::C08 => ctx.tier.pick((100, 2), (1200, 3)),
        Which::C12 => ctx.tier.pick((200, 2), (3000, 3)),
        Which::C19 | Which::C17 | Which::C13 => ctx.tier.pick((160, 2), (2500, 3)),
        Which::C14 => ctx.tier.pick((80, 2), (1200, 3)),
        Which::C25 => ctx.tier.pick((130, 2), (1200, 3)),
        _ => ctx.tier.pick((120, 2), (1500, 3)),
    };
    let chunk = 240usize;
    let n_grammars = std::env::var("VERIF_N").ok().and_then(|s| s.parse().ok()).unwrap_or(n_grammars);
    let tapes = tape::sample_tapes(ctx.seed, n_grammars, 24, 220);
    let mut first_per_sig: BTreeMap<String, (Vec<u8>, Fail)> = BTreeMap::new();
    for (ci, part) in tapes.chunks(chunk).enumerate() {
        let fails = evaluate(&ctx, which, part, &format!("batch{ci}"), Some(&mut ck), scale, None);
        for (i, fs) in fails.into_iter().enumerate() {
            for f in fs {
                if ck.is_known(&f.sig) {
                    ck.violation(&f.sig, &f.what, f.replay.clone());
                } else {
                    first_per_sig.entry(f.sig.clone()).or_insert((part[i].clone(), f));
                }
            }
        }
        if !ck.infra_errors.is_empty() {
            break;
        }
    }
    if which == Which::C08 {
        // part (i): the generated lexer always makes progress (in process, on
        // the pattern tables extracted from LALRPOP's output)
        super::c08l::lexer_level(&mut ck, ctx.tier.pick(1500, 30_000));
    }
    // shrink and report new signatures
    let budget_sigs = 3;
    for (k, (sig, (tp, f))) in first_per_sig.into_iter().enumerate() {
        if k < budget_sigs {
            // shrink with only the configuration(s) the failure was seen in
            let focus = {
                let algo = match f.replay["algo"].as_str() {
                    Some("lr1") => Algo::Lr1,
                    Some("lalr") => Algo::Lalr,
                    _ => Algo::Lane,
                };
                let asc = f.replay["ascent"].as_bool().unwrap_or(false);
                if which == Which::C07 {
                    Some(vec![(algo, false), (algo, true)])
                } else {
                    Some(vec![(algo, asc)])
                }
            };
            let (small, best) = shrink(&ctx, which, &tp, &sig, ctx.tier.pick(4, 12), focus);
            let f = best.unwrap_or(f);
            let mut rp = f.replay.clone();
            rp["shrunk_from_tape_len"] = json!(tp.len());
            rp["tape_hex"] = json!(tape::hex(&small));
            ck.violation(&sig, &f.what, rp);
        } else {
            ck.violation(&sig, &f.what, f.replay.clone());
        }
    }
    ck.finish()
}


// ------------------------------------------------------------------ C27

const C27_RULE: &str = "accepted grammars (built-in lexer weighted up, extern too) x {table, ascent}: one parser value per pub symbol, used for N sequential parses in random order and then by T in {2,4,8,16} threads at once (barrier start, random per-thread input sequences) over a multiset of accepted and rejected inputs; oracle: every answer (value / error / expected list / action log / token pulls) equals the answer of a fresh parser on that input alone; plus a compile-time Send + Sync assertion on every parser type. Non-trivial = a concurrent schedule with >= 2 threads over >= 2 distinct inputs of which at least one is rejected; distinct (grammar, config, start, schedule)";

pub fn run_c27(ctx: Ctx, replay: Option<PathBuf>) -> i32 {
    let mut ck = Checker::new(ctx.clone(), "exploration", C27_RULE);
    ck.assume("the harness does not own the scheduler: thread interleavings are sampled by stress (barrier start, many rounds), not enumerated");
    ck.assume("rustc and the batch runtime rt.rs behave as written");
    let replay_v = match &replay {
        Some(p) => match super::load_replay(p) {
            Ok(v) => Some(v),
            Err(c) => return c,
        },
        None => None,
    };
    if replay_v.is_some() {
        ck.strict = true;
    }
    let which = Which::C01;
    let mut opts_builtin = which.opts();
    opts_builtin.builtin = 150;
    let n = ctx.tier.pick(120usize, 600usize);
    let n = std::env::var("VERIF_N").ok().and_then(|s| s.parse().ok()).unwrap_or(n);
    let tapes: Vec<Vec<u8>> = match &replay_v {
        Some(v) => vec![tape::unhex(v["tape_hex"].as_str().unwrap_or(""))],
        None => tape::sample_tapes(ctx.seed, n, 24, 220),
    };
    let rounds = ctx.tier.pick(24usize, 200usize);
    // cases (generator of C01 with more built-in lexers)
    let cases: Vec<Result<GramCase, String>> = crate::core::par_map(&tapes, ctx.threads, |_, tp| {
        let mut t = Tape::new(tp);
        let spec = gen::gen_full(&mut t, &opts_builtin);
        case_from_spec(spec, tp, &mut t, which, 1, None, BTreeSet::new(), String::new())
    });
    let vars = [(Algo::Lane, false), (Algo::Lane, true)];
    for (chunk_i, chunk) in (0..cases.len()).collect::<Vec<_>>().chunks(240).enumerate() {
        let mut units = vec![];
        for &gi in chunk {
            let Ok(c) = &cases[gi] else { continue };
            for &(algo, ascent) in &vars {
                units.push(Unit {
                    module: module_name(gi, algo, ascent),
                    text: c.spec.print(PrintCfg { lalr: false, ascent }),
                    algo,
                    starts: c.starts.iter().map(|s| s.1.clone()).collect(),
                    loc_ty: match c.spec.lexer {
                        Lexer::Builtin => None,
                        Lexer::Extern { .. } => Some(c.spec.loc_ty_name().to_string()),
                    },
                    flags: vec![],
                    compile: true,
                    extra_args: c.extra_args.clone(),
                });
            }
        }
        let batch = Batch::build(&ctx, &format!("batch{chunk_i}"), units);
        if let Some(e) = &batch.infra_error {
            ck.infra(format!("batch: {e}"));
            break;
        }
        for (m, e) in &batch.compile_errors {
            // includes a failing Send + Sync assertion
            let first = e.lines().next().unwrap_or("");
            let msg = first.splitn(2, ": ").nth(1).unwrap_or(first);
            if msg.contains("Send") || msg.contains("Sync") || msg.contains("cannot be shared") || msg.contains("cannot be sent") {
                ck.violation(
                    &format!("C27/not-send-sync/{}", crate::run::normalise_msg(msg)),
                    &format!("parser type of {m} is not Send + Sync: {msg}"),
                    json!({"module": m, "rustc": e, "grammar": batch.units.iter().find(|u| &u.module == m).map(|u| u.text.clone())}),
                );
            } else {
                ck.skip("generated module failed to compile for another reason (C19 domain)");
            }
        }
        let mut queries = vec![];
        let mut meta: Vec<(usize, usize, usize, usize, Vec<Vec<usize>>, bool)> = vec![];
        for &gi in chunk {
            let Ok(c) = &cases[gi] else { continue };
            // schedules are drawn from a dedicated long proptest tape (one per grammar)
            let sched_tape = tape::sample_tapes(ctx.seed ^ (0x27_0000 + gi as u64), 1, 16 * rounds * 4 * 4, 16 * rounds * 4 * 4).pop().unwrap_or_default();
            let mut t = Tape::new(&sched_tape);
            for (vi, &(algo, ascent)) in vars.iter().enumerate() {
                let m = module_name(gi, algo, ascent);
                if !batch.compiled(&m) {
                    continue;
                }
                for si in 0..c.starts.len() {
                    let ins: Vec<usize> = (0..c.inputs.len()).filter(|&i| c.inputs[i].0 == si).take(24).collect();
                    if ins.len() < 2 {
                        continue;
                    }
                    let subs: Vec<Query> = ins
                        .iter()
                        .map(|&i| {
                            let (si, terms, toks, text, e) = &c.inputs[i];
                            query_for(c, &m, *si, toks, text, terms.len(), *e)
                        })
                        .collect();
                    for &threads in &[2usize, 4, 8, 16] {
                        let schedule: Vec<Vec<usize>> =
                            (0..threads).map(|_| (0..rounds).map(|_| t.below(subs.len())).collect()).collect();
                        let distinct: BTreeSet<usize> = schedule.iter().flatten().copied().collect();
                        let nontrivial = distinct.len() >= 2;
                        queries.push(Query {
                            module: m.clone(),
                            start: c.starts[si].1.clone(),
                            budget: budget_for(&c.core, 16),
                            toks: None,
                            text: None,
                            multi: Some((threads, subs.clone(), schedule.clone())),
                        });
                        meta.push((gi, vi, si, threads, schedule, nontrivial));
                    }
                }
            }
        }
        let resps = batch.query(&ctx, &queries);
        batch.cleanup();
        for (k, r) in resps.iter().enumerate() {
            let (gi, vi, si, threads, schedule, nontrivial) = &meta[k];
            let c = cases[*gi].as_ref().unwrap();
            ck.eval();
            ck.class(&format!("schedules_with_{threads}_threads"));
            ck.class(match c.spec.lexer {
                Lexer::Builtin => "schedules_builtin_lexer",
                Lexer::Extern { .. } => "schedules_extern_lexer",
            });
            if *nontrivial {
                ck.nontrivial(&(c.spec.print(PrintCfg { lalr: false, ascent: vars[*vi].1 }), *si, schedule.clone()));
            }
            match r {
                Resp::MultiOk(nc) => {
                    ck.class_n("answers_compared_with_fresh_parser", *nc);
                    if ck.want_sample() && k % 37 == 0 {
                        ck.sample(json!({"grammar": c.spec.print(PrintCfg{lalr:false, ascent: vars[*vi].1}), "start": c.starts[*si].1, "threads": threads,
                            "schedule_head": schedule.iter().map(|s| s.iter().take(6).copied().collect::<Vec<_>>()).collect::<Vec<_>>(), "answers_compared": nc}));
                    }
                }
                Resp::MultiMismatch { phase, thread, step, input, expected, got } => {
                    ck.violation(
                        &format!("C27/answer-differs-from-fresh-parser/{}/{}", phase, if vars[*vi].1 { "ascent" } else { "table" }),
                        &format!("{phase} use of one parser value: thread {thread} step {step} input #{input} returned `{got}`, a fresh parser returns `{expected}`"),
                        json!({"tape_hex": tape::hex(&c.tape), "grammar": c.spec.print(PrintCfg{lalr:false, ascent: vars[*vi].1}), "start": c.starts[*si].1,
                               "threads": threads, "schedule": schedule, "expected": expected, "got": got}),
                    );
                }
                Resp::Hang => {
                    ck.inconclusive += 1;
                    ck.infra("driver watchdog expired during a concurrent schedule");
                }
                Resp::Crash(m) | Resp::Panic { msg: m } => {
                    ck.violation(
                        &format!("C27/crash/{}", crate::run::normalise_msg(m)),
                        &format!("driver died during shared use of one parser value: {m}"),
                        json!({"tape_hex": tape::hex(&c.tape), "grammar": c.spec.print(PrintCfg{lalr:false, ascent: vars[*vi].1}), "threads": threads}),
                    );
                }
                _ => ck.skip("no answer"),
            }
        }
    }
    ck.finish()
}


// ------------------------------------------------------------------ C16

/// Validity predicate of C16 on an Ok result. Returns (error nodes, input
/// tokens covered by error nodes) or (kind, message).
fn c16_validate(c: &GramCase, val: &str, toks: &[InTok], m: &ModelOut) -> Result<(usize, usize), (&'static str, String)> {
    use crate::gspec::{RepOp, SymKind};
    use crate::rtree::RT;
    let Some(tree) = crate::rtree::parse(val) else {
        return Err(("unparsable-result", "the result is not a rendering of a tree".into()));
    };
    // (1) derivation of the grammar with `!` read as a terminal
    struct Walk<'a> {
        c: &'a GramCase,
        leaves: Vec<(char, u32)>,
        spans: Vec<(usize, usize)>,
        dropped: Vec<Vec<(usize, char, u32, usize)>>,
    }
    fn nt_of_name(name: &str) -> Option<(usize, usize)> {
        let k: usize = name.strip_prefix("N_")?.parse().ok()?;
        Some((k / 32, k % 32))
    }
    impl<'a> Walk<'a> {
        fn node(&mut self, t: &RT, want_nt: usize) -> Result<(), String> {
            let RT::Node(name, args) = t else { return Err(format!("expected a node of `{}`, found {t:?}", self.c.spec.nts[want_nt].name)) };
            let Some((ni, ai)) = nt_of_name(name) else { return Err(format!("unknown node name {name}")) };
            if ni != want_nt {
                return Err(format!("node {name} belongs to `{}` where `{}` is required", self.c.spec.nts.get(ni).map(|n| n.name.as_str()).unwrap_or("?"), self.c.spec.nts[want_nt].name));
            }
            let Some(alt) = self.c.spec.nts[ni].alts.get(ai) else { return Err(format!("node {name}: no such alternative")) };
            if alt.syms.len() != args.len() {
                return Err(format!("node {name} has {} children, its alternative has {} symbols", args.len(), alt.syms.len()));
            }
            let mut i = 0;
            while i < args.len() {
                match (&alt.syms[i].kind, &args[i]) {
                    (SymKind::T(ti), RT::Tok { kind, idx }) => {
                        let want = crate::gen::EXTERN_NAMES[self.c.spec.terms[*ti].kind as usize].chars().next().unwrap();
                        if *kind != want {
                            return Err(format!("node {name}: child {i} is token `{kind}{idx}` where terminal `{want}` is required"));
                        }
                        self.leaves.push((*kind, *idx));
                    }
                    (SymKind::N(n), a) => self.node(a, *n)?,
                    (SymKind::Rep(inner, op), RT::List(items)) => {
                        let SymKind::N(n) = &**inner else { return Err("unsupported repeat".into()) };
                        if *op == RepOp::Plus && items.is_empty() {
                            return Err(format!("node {name}: `+` list is empty"));
                        }
                        for it in items {
                            self.node(it, *n)?;
                        }
                    }
                    (SymKind::L, RT::Loc(l)) => {
                        // `@L ! @R`
                        if let (Some(SymKind::Err), Some(SymKind::R)) = (alt.syms.get(i + 1).map(|s| &s.kind), alt.syms.get(i + 2).map(|s| &s.kind)) {
                            let (Some(RT::Recov { dropped, .. }), Some(RT::Loc(r))) = (args.get(i + 1), args.get(i + 2)) else {
                                return Err(format!("node {name}: error alternative without a recovery value"));
                            };
                            self.spans.push((*l, *r));
                            self.dropped.push(dropped.clone());
                            i += 2;
                        }
                    }
                    (SymKind::R, RT::Loc(_)) => {}
                    (k, a) => return Err(format!("node {name}: child {i} is {a:?} where {k:?} is required")),
                }
                i += 1;
            }
            Ok(())
        }
    }
    let mut w = Walk { c, leaves: vec![], spans: vec![], dropped: vec![] };
    // the root is the pub symbol S (index 0)
    w.node(&tree, 0).map_err(|e| ("not-a-derivation", e))?;
    // (2) leaves are a subsequence of the input, in order
    let mut last: i64 = -1;
    let mut is_leaf = vec![false; toks.len()];
    for (k, idx) in &w.leaves {
        let i = *idx as usize;
        if i >= toks.len() || (i as i64) <= last {
            return Err(("leaves-not-a-subsequence", format!("token leaf {k}{idx} is out of input order")));
        }
        let want = crate::gen::EXTERN_NAMES[toks[i].kind as usize].chars().next().unwrap();
        if want != *k {
            return Err(("leaves-not-a-subsequence", format!("token leaf {k}{idx} is not input token #{idx} (`{want}`)")));
        }
        is_leaf[i] = true;
        last = i as i64;
    }
    // (4) error spans ordered and disjoint
    for s in &w.spans {
        if s.0 > s.1 {
            return Err(("error-span-inverted", format!("error node span {s:?} ends before it starts")));
        }
    }
    for p in w.spans.windows(2) {
        if p[0].1 > p[1].0 {
            return Err(("error-spans-overlap-or-unordered", format!("error node spans {:?} and {:?}", p[0], p[1])));
        }
    }
    // (3) every other input token lies inside exactly one error node's span
    let mut covered = 0usize;
    for (i, t) in toks.iter().enumerate() {
        if is_leaf[i] {
            continue;
        }
        let n = w.spans.iter().filter(|s| s.0 <= t.lo && t.hi <= s.1).count();
        if n != 1 {
            return Err((
                "token-unaccounted",
                format!("input token #{i} ({}..{}) is neither a leaf of the tree nor inside exactly one error node span (spans {:?})", t.lo, t.hi, w.spans),
            ));
        }
        covered += 1;
    }
    // (5) dropped_tokens are input tokens in order
    for d in &w.dropped {
        let mut last: i64 = -1;
        for (lo, k, idx, hi) in d {
            let i = *idx as usize;
            let ok = i < toks.len()
                && (i as i64) > last
                && toks[i].lo == *lo
                && toks[i].hi == *hi
                && crate::gen::EXTERN_NAMES[toks[i].kind as usize].starts_with(*k);
            if !ok {
                return Err(("dropped-tokens", format!("dropped token {k}{idx} ({lo}..{hi}) is not an input token in order")));
            }
            last = i as i64;
        }
    }
    // (6) sentences of the `!`-free grammar parse without recovery, to the model's value
    if m.member {
        if !w.spans.is_empty() {
            return Err(("recovery-on-a-sentence", "the input is derivable without `!` but the result contains an error node".into()));
        }
        if let Some(Ok(v)) = &m.value {
            if !m.ambiguous && !render_matches(&v.render(), val) {
                return Err(("value-of-sentence", format!("the model evaluates the derivation to `{}`", v.render())));
            }
        }
    }
    Ok((w.spans.len(), covered))
}
