//! E4: subprocess runner for the real `lalrpop` CLI (and for `lv __api`).

use std::collections::BTreeMap;
use std::io::{Read, Write};
use std::os::unix::process::ExitStatusExt;
use std::path::{Path, PathBuf};
use std::process::{Command, Stdio};
use std::time::{Duration, Instant};

#[derive(Clone, Debug, PartialEq, Eq)]
pub enum Exit {
    Code(i32),
    Signal(i32),
    Timeout,
    SpawnError(String),
}

#[derive(Clone, Debug)]
pub struct Out {
    pub exit: Exit,
    pub stdout: String,
    pub stderr: String,
    pub wall: Duration,
}

impl Out {
    pub fn ok(&self) -> bool {
        self.exit == Exit::Code(0)
    }
    pub fn panicked(&self) -> bool {
        self.exit == Exit::Code(101) || self.stderr.contains("panicked at")
    }
    /// `thread 'main' panicked at file:line:col:\nmessage`
    pub fn panic_signature(&self) -> Option<String> {
        let idx = self.stderr.find("panicked at ")?;
        let rest = &self.stderr[idx + "panicked at ".len()..];
        let mut lines = rest.lines();
        let loc = lines.next().unwrap_or("").trim_end_matches(':');
        let msg = lines.next().unwrap_or("");
        // strip line:col and the absolute prefix of the path
        let file = loc.split(':').next().unwrap_or(loc);
        let file = ["lalrpop/src/", "lalrpop-util/src/"]
            .iter()
            .filter_map(|m| file.rfind(m).map(|i| &file[i..]))
            .next()
            .unwrap_or(file);
        Some(format!("{}/{}", file, normalise_msg(msg)))
    }
}

/// Normalise a panic message into a root-cause key: numbers and quoted names
/// are replaced by placeholders.
pub fn normalise_msg(msg: &str) -> String {
    let mut out = String::new();
    let mut chars = msg.chars().peekable();
    while let Some(c) = chars.next() {
        if c.is_ascii_digit() {
            while chars.peek().map_or(false, |d| d.is_ascii_digit()) {
                chars.next();
            }
            out.push('N');
        } else if c == '`' || c == '"' {
            let q = c;
            let mut closed = false;
            let mut buf = String::new();
            for d in chars.by_ref() {
                if d == q {
                    closed = true;
                    break;
                }
                buf.push(d);
            }
            if closed {
                out.push(q);
                out.push('_');
                out.push(q);
            } else {
                out.push(q);
                out.push_str(&buf);
            }
        } else {
            out.push(c);
        }
    }
    let mut s: String = out.chars().take(100).collect();
    s = s.trim().to_string();
    s
}

pub struct Cmd {
    pub program: PathBuf,
    pub args: Vec<std::ffi::OsString>,
    pub env: BTreeMap<String, String>,
    pub env_remove: Vec<String>,
    pub cwd: Option<PathBuf>,
    pub stdin: Option<Vec<u8>>,
    pub timeout: Duration,
}

impl Cmd {
    pub fn new(program: impl AsRef<Path>) -> Cmd {
        Cmd {
            program: program.as_ref().to_path_buf(),
            args: vec![],
            env: BTreeMap::new(),
            env_remove: vec![],
            cwd: None,
            stdin: None,
            timeout: Duration::from_secs(60),
        }
    }
    pub fn arg(mut self, a: impl Into<std::ffi::OsString>) -> Cmd {
        self.args.push(a.into());
        self
    }
    pub fn args<I, S>(mut self, it: I) -> Cmd
    where
        I: IntoIterator<Item = S>,
        S: Into<std::ffi::OsString>,
    {
        for a in it {
            self.args.push(a.into());
        }
        self
    }
    pub fn env(mut self, k: &str, v: &str) -> Cmd {
        self.env.insert(k.to_string(), v.to_string());
        self
    }
    pub fn env_remove(mut self, k: &str) -> Cmd {
        self.env_remove.push(k.to_string());
        self
    }
    pub fn cwd(mut self, p: impl AsRef<Path>) -> Cmd {
        self.cwd = Some(p.as_ref().to_path_buf());
        self
    }
    pub fn stdin(mut self, data: impl Into<Vec<u8>>) -> Cmd {
        self.stdin = Some(data.into());
        self
    }
    pub fn timeout_s(mut self, s: u64) -> Cmd {
        self.timeout = Duration::from_secs(s);
        self
    }

    pub fn run(&self) -> Out {
        let start = Instant::now();
        let mut c = Command::new(&self.program);
        c.args(&self.args);
        // A clean, deterministic environment: no CARGO_FEATURE_* or OUT_DIR
        // leaking in from whoever started the check.
        for (k, _) in std::env::vars() {
            if k.starts_with("CARGO_FEATURE_") || k == "OUT_DIR" || k == "LALRPOP_LANE_TABLE" {
                c.env_remove(k);
            }
        }
        c.env("RUST_BACKTRACE", "0");
        for k in &self.env_remove {
            c.env_remove(k);
        }
        for (k, v) in &self.env {
            c.env(k, v);
        }
        if let Some(d) = &self.cwd {
            c.current_dir(d);
        }
        c.stdin(if self.stdin.is_some() { Stdio::piped() } else { Stdio::null() });
        c.stdout(Stdio::piped());
        c.stderr(Stdio::piped());
        let mut child = match c.spawn() {
            Ok(ch) => ch,
            Err(e) => {
                return Out {
                    exit: Exit::SpawnError(e.to_string()),
                    stdout: String::new(),
                    stderr: String::new(),
                    wall: start.elapsed(),
                }
            }
        };
        let stdin_thread = self.stdin.clone().map(|data| {
            let mut si = child.stdin.take().unwrap();
            std::thread::spawn(move || {
                let _ = si.write_all(&data);
            })
        });
        let mut so = child.stdout.take().unwrap();
        let mut se = child.stderr.take().unwrap();
        let t_out = std::thread::spawn(move || {
            let mut v = Vec::new();
            let _ = so.read_to_end(&mut v);
            v
        });
        let t_err = std::thread::spawn(move || {
            let mut v = Vec::new();
            let _ = se.read_to_end(&mut v);
            v
        });
        let mut exit = None;
        let mut sleep = Duration::from_micros(200);
        loop {
            match child.try_wait() {
                Ok(Some(st)) => {
                    exit = Some(if let Some(c) = st.code() {
                        Exit::Code(c)
                    } else {
                        Exit::Signal(st.signal().unwrap_or(-1))
                    });
                    break;
                }
                Ok(None) => {
                    if start.elapsed() > self.timeout {
                        let _ = child.kill();
                        let _ = child.wait();
                        break;
                    }
                    std::thread::sleep(sleep);
                    if sleep < Duration::from_millis(5) {
                        sleep *= 2;
                    }
                }
                Err(e) => {
                    exit = Some(Exit::SpawnError(e.to_string()));
                    break;
                }
            }
        }
        if let Some(t) = stdin_thread {
            let _ = t.join();
        }
        let stdout = String::from_utf8_lossy(&t_out.join().unwrap_or_default()).into_owned();
        let stderr = String::from_utf8_lossy(&t_err.join().unwrap_or_default()).into_owned();
        Out {
            exit: exit.unwrap_or(Exit::Timeout),
            stdout,
            stderr,
            wall: start.elapsed(),
        }
    }
}

/// Which LR construction LALRPOP is asked to use.
#[derive(Clone, Copy, PartialEq, Eq, Debug, Hash, PartialOrd, Ord)]
pub enum Algo {
    /// default: lane table
    Lane,
    /// LALRPOP_LANE_TABLE=disabled: canonical LR(1)
    Lr1,
    /// LALRPOP_LANE_TABLE=disabled + #[LALR]
    Lalr,
}

impl Algo {
    pub const ALL: [Algo; 3] = [Algo::Lane, Algo::Lr1, Algo::Lalr];
    pub fn name(self) -> &'static str {
        match self {
            Algo::Lane => "lane",
            Algo::Lr1 => "lr1",
            Algo::Lalr => "lalr",
        }
    }
    pub fn lane_disabled(self) -> bool {
        !matches!(self, Algo::Lane)
    }
    pub fn needs_lalr_attr(self) -> bool {
        matches!(self, Algo::Lalr)
    }
}

/// Run the lalrpop CLI on one grammar file (forced), output next to it or in
/// `out_dir`.
pub fn lalrpop_file(cli: &Path, file: &Path, algo: Algo, extra: &[&str]) -> Out {
    let mut c = Cmd::new(cli).arg("--force").args(extra.iter().copied()).arg(file);
    if algo.lane_disabled() {
        c = c.env("LALRPOP_LANE_TABLE", "disabled");
    }
    c.run()
}
