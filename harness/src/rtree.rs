//! Parser for the canonical renderings produced by the batch runtime
//! (`Name(args)`, `[list]`, `@loc`, token leaves, `Recov<..><..>`), used by
//! C16's validity predicate.

#[derive(Clone, Debug, PartialEq)]
pub enum RT {
    Node(String, Vec<RT>),
    List(Vec<RT>),
    Tok { kind: char, idx: u32 },
    Loc(usize),
    Recov { err: Vec<String>, dropped: Vec<(usize, char, u32, usize)> },
}

struct P<'a> {
    s: &'a [u8],
    i: usize,
}

impl<'a> P<'a> {
    fn peek(&self) -> Option<u8> {
        self.s.get(self.i).copied()
    }
    fn eat(&mut self, c: u8) -> bool {
        if self.peek() == Some(c) {
            self.i += 1;
            true
        } else {
            false
        }
    }
    fn number(&mut self) -> Option<u64> {
        let st = self.i;
        while self.peek().map_or(false, |c| c.is_ascii_digit()) {
            self.i += 1;
        }
        std::str::from_utf8(&self.s[st..self.i]).ok()?.parse().ok()
    }
    fn list(&mut self, close: u8) -> Option<Vec<RT>> {
        let mut v = vec![];
        if self.eat(close) {
            return Some(v);
        }
        loop {
            v.push(self.value()?);
            if self.eat(b',') {
                continue;
            }
            if self.eat(close) {
                return Some(v);
            }
            return None;
        }
    }
    fn value(&mut self) -> Option<RT> {
        match self.peek()? {
            b'[' => {
                self.i += 1;
                Some(RT::List(self.list(b']')?))
            }
            b'@' => {
                self.i += 1;
                Some(RT::Loc(self.number()? as usize))
            }
            c if c.is_ascii_alphabetic() || c == b'_' => {
                let st = self.i;
                while self.peek().map_or(false, |c| c.is_ascii_alphanumeric() || c == b'_') {
                    self.i += 1;
                }
                let word = std::str::from_utf8(&self.s[st..self.i]).ok()?.to_string();
                if word == "Recov" && self.peek() == Some(b'<') {
                    self.i += 1;
                    let rest = std::str::from_utf8(&self.s[self.i..]).ok()?;
                    let mid = rest.find("><")?;
                    let err: Vec<String> = rest[..mid].split('|').map(|x| x.to_string()).collect();
                    let after = &rest[mid + 2..];
                    let end = after.find('>')?;
                    let mut dropped = vec![];
                    for item in after[..end].split(';').filter(|x| !x.is_empty()) {
                        let f: Vec<&str> = item.split('~').collect();
                        if f.len() != 3 {
                            return None;
                        }
                        let lo: usize = f[0].strip_prefix('@')?.parse().ok()?;
                        let hi: usize = f[2].strip_prefix('@')?.parse().ok()?;
                        let kind = f[1].chars().next()?;
                        let idx: u32 = f[1][1..].trim_end_matches(|c| c == '!' || c == '?').parse().ok()?;
                        dropped.push((lo, kind, idx, hi));
                    }
                    self.i += mid + 2 + end + 1;
                    return Some(RT::Recov { err, dropped });
                }
                if self.eat(b'(') {
                    return Some(RT::Node(word, self.list(b')')?));
                }
                // token leaf: one letter + digits
                let mut ch = word.chars();
                let kind = ch.next()?;
                let digits: String = ch.collect();
                if !digits.is_empty() && digits.chars().all(|c| c.is_ascii_digit()) {
                    // poison suffixes
                    while self.peek() == Some(b'!') || self.peek() == Some(b'?') {
                        self.i += 1;
                    }
                    return Some(RT::Tok { kind, idx: digits.parse().ok()? });
                }
                None
            }
            _ => None,
        }
    }
}

pub fn parse(s: &str) -> Option<RT> {
    let mut p = P { s: s.as_bytes(), i: 0 };
    let v = p.value()?;
    if p.i == s.len() {
        Some(v)
    } else {
        None
    }
}
