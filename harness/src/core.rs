//! Context, evidence, known findings, violation reporting (E6).

use serde_json::{json, Map, Value};
use std::collections::{BTreeMap, BTreeSet, HashSet};
use std::hash::{Hash, Hasher};
use std::path::{Path, PathBuf};
use std::time::Instant;

#[derive(Clone, Copy, PartialEq, Eq, Debug)]
pub enum Tier {
    Quick,
    Thorough,
}

impl Tier {
    pub fn name(self) -> &'static str {
        match self {
            Tier::Quick => "quick",
            Tier::Thorough => "thorough",
        }
    }
    /// pick by tier
    pub fn pick<T>(self, quick: T, thorough: T) -> T {
        match self {
            Tier::Quick => quick,
            Tier::Thorough => thorough,
        }
    }
}

#[derive(Clone)]
pub struct Ctx {
    pub id: String,
    pub tier: Tier,
    pub seed: u64,
    /// /verif (or the snapshot the harness runs from)
    pub root: PathBuf,
    /// scratch for this check: <root>/work/<id>
    pub work: PathBuf,
    /// the real lalrpop CLI built from /repo's working tree
    pub cli: PathBuf,
    /// this executable (for `lv __api` subprocesses)
    pub exe: PathBuf,
    pub threads: usize,
}

pub fn hash_of<T: Hash>(t: &T) -> u64 {
    // FNV-1a based, deterministic across processes (unlike RandomState).
    struct Fnv(u64);
    impl Hasher for Fnv {
        fn finish(&self) -> u64 {
            self.0
        }
        fn write(&mut self, bytes: &[u8]) {
            for b in bytes {
                self.0 ^= *b as u64;
                self.0 = self.0.wrapping_mul(0x100000001b3);
            }
        }
    }
    let mut h = Fnv(0xcbf29ce484222325);
    t.hash(&mut h);
    h.finish()
}

#[derive(Clone, Debug)]
pub struct Finding {
    pub status: String, // known | fixed
    pub property: String,
    pub signature: String,
    pub what: String,
    pub replay: Option<String>,
    pub commit: Option<String>,
}

pub fn load_findings(root: &Path) -> Vec<Finding> {
    let p = root.join("known_findings.jsonl");
    let Ok(text) = std::fs::read_to_string(&p) else {
        return vec![];
    };
    let mut out = vec![];
    for line in text.lines() {
        let line = line.trim();
        if line.is_empty() || line.starts_with('#') {
            continue;
        }
        let v: Value = match serde_json::from_str(line) {
            Ok(v) => v,
            Err(e) => {
                eprintln!("known_findings.jsonl: bad line ({e}): {line}");
                continue;
            }
        };
        out.push(Finding {
            status: v["status"].as_str().unwrap_or("known").to_string(),
            property: v["property"].as_str().unwrap_or("").to_string(),
            signature: v["signature"].as_str().unwrap_or("").to_string(),
            what: v["what"].as_str().unwrap_or("").to_string(),
            replay: v["replay"].as_str().map(|s| s.to_string()),
            commit: v["commit"].as_str().map(|s| s.to_string()),
        });
    }
    out
}

pub struct Violation {
    pub signature: String,
    pub what: String,
    pub replay_path: PathBuf,
}

/// Collects evidence and violations for one check run.
pub struct Checker {
    pub ctx: Ctx,
    pub level: &'static str,
    pub rule: String,
    start: Instant,
    pub evaluations: u64,
    nontrivial: HashSet<u64>,
    pub classes: BTreeMap<String, u64>,
    pub skipped: BTreeMap<String, u64>,
    pub excluded_known: BTreeMap<String, u64>,
    pub inconclusive: u64,
    pub samples: Vec<Value>,
    pub max_samples: usize,
    pub assumptions: Vec<String>,
    pub extra: Map<String, Value>,
    pub exhaustive: Option<bool>,
    findings: Vec<Finding>,
    pub violations: Vec<Violation>,
    seen_sigs: BTreeSet<String>,
    known_printed: BTreeSet<String>,
    /// strict: ignore the known-findings list (used by --replay)
    pub strict: bool,
    /// set while replaying pinned repros of listed findings
    pub infra_errors: Vec<String>,
}

impl Checker {
    pub fn new(ctx: Ctx, level: &'static str, rule: &str) -> Checker {
        let findings = load_findings(&ctx.root)
            .into_iter()
            .filter(|f| f.property == ctx.id)
            .collect();
        Checker {
            ctx,
            level,
            rule: rule.to_string(),
            start: Instant::now(),
            evaluations: 0,
            nontrivial: HashSet::new(),
            classes: BTreeMap::new(),
            skipped: BTreeMap::new(),
            excluded_known: BTreeMap::new(),
            inconclusive: 0,
            samples: vec![],
            max_samples: 8,
            assumptions: vec![],
            extra: Map::new(),
            exhaustive: None,
            findings,
            violations: vec![],
            seen_sigs: BTreeSet::new(),
            known_printed: BTreeSet::new(),
            strict: false,
            infra_errors: vec![],
        }
    }

    pub fn eval(&mut self) {
        self.evaluations += 1;
    }
    pub fn evals(&mut self, n: u64) {
        self.evaluations += n;
    }
    /// Record a distinct non-trivial case by a stable hash of the case.
    pub fn nontrivial<T: Hash>(&mut self, case: &T) {
        self.nontrivial.insert(hash_of(case));
    }
    pub fn nontrivial_count(&self) -> usize {
        self.nontrivial.len()
    }
    pub fn class(&mut self, name: &str) {
        *self.classes.entry(name.to_string()).or_insert(0) += 1;
    }
    pub fn class_n(&mut self, name: &str, n: u64) {
        *self.classes.entry(name.to_string()).or_insert(0) += n;
    }
    pub fn skip(&mut self, why: &str) {
        *self.skipped.entry(why.to_string()).or_insert(0) += 1;
    }
    pub fn sample(&mut self, v: Value) {
        if self.samples.len() < self.max_samples {
            self.samples.push(v);
        }
    }
    pub fn want_sample(&self) -> bool {
        self.samples.len() < self.max_samples
    }
    pub fn assume(&mut self, s: &str) {
        if !self.assumptions.iter().any(|a| a == s) {
            self.assumptions.push(s.to_string());
        }
    }
    pub fn infra(&mut self, msg: impl Into<String>) {
        let m = msg.into();
        eprintln!("INFRA: {m}");
        self.infra_errors.push(m);
    }

    pub fn known(&self, sig: &str) -> Option<&Finding> {
        if self.strict {
            return None;
        }
        self.findings
            .iter()
            .find(|f| f.status == "known" && sig_matches(&f.signature, sig))
    }
    pub fn listed(&self) -> &[Finding] {
        &self.findings
    }
    /// true if a signature is on the known list (so generators / oracles can
    /// exclude that behaviour class by construction and count it).
    pub fn is_known(&self, sig: &str) -> bool {
        self.known(sig).is_some()
    }

    /// Report a failing case. Known signature -> counted as excluded (and the
    /// KNOWN-FINDING line printed once); otherwise a VIOLATION (first case per
    /// signature gets a replay file). Returns true if it is a new violation.
    pub fn violation(&mut self, signature: &str, what: &str, mut replay: Value) -> bool {
        if let Some(f) = self.known(signature) {
            let (s, w) = (f.signature.clone(), f.what.clone());
            *self.excluded_known.entry(s.clone()).or_insert(0) += 1;
            if self.known_printed.insert(s.clone()) {
                println!("KNOWN-FINDING: property={} {} [{}]", self.ctx.id, w, s);
            }
            return false;
        }
        if !self.seen_sigs.insert(signature.to_string()) {
            // same root cause already reported in this run
            if let Some(v) = self.violations.iter_mut().find(|v| v.signature == signature) {
                let _ = v;
            }
            *self
                .extra
                .entry("repeat_violations".to_string())
                .or_insert(json!(0)) = json!(self.extra.get("repeat_violations").and_then(|v| v.as_u64()).unwrap_or(0) + 1);
            return false;
        }
        let dir = self.ctx.work.join("replay");
        let _ = std::fs::create_dir_all(&dir);
        let fname = format!("{}.json", sanitize(signature));
        let path = dir.join(fname);
        if let Value::Object(ref mut m) = replay {
            m.insert("property".into(), json!(self.ctx.id));
            m.insert("seed".into(), json!(self.ctx.seed));
            m.insert("tier".into(), json!(self.ctx.tier.name()));
            m.insert("signature".into(), json!(signature));
            m.insert("what".into(), json!(what));
        }
        let _ = std::fs::write(&path, serde_json::to_string_pretty(&replay).unwrap());
        println!(
            "VIOLATION property={} replay={}",
            self.ctx.id,
            path.display()
        );
        println!("  signature: {signature}");
        println!("  what: {what}");
        self.violations.push(Violation {
            signature: signature.to_string(),
            what: what.to_string(),
            replay_path: path,
        });
        true
    }

    /// Replay the pinned repro of every listed finding through `replay_fn`,
    /// which must call `self.violation(..)` if the case still fails.
    /// known + still fails  -> KNOWN-FINDING line (via violation())
    /// known + passes       -> note (the defect seems gone)
    /// fixed + fails        -> VIOLATION
    pub fn replay_listed<F>(&mut self, mut replay_fn: F)
    where
        F: FnMut(&mut Checker, &Value),
    {
        let listed: Vec<Finding> = self.findings.clone();
        for f in listed {
            let Some(rel) = f.replay.clone() else { continue };
            let path = self.ctx.root.join(&rel);
            let Ok(text) = std::fs::read_to_string(&path) else {
                self.infra(format!("pinned replay {} missing", path.display()));
                continue;
            };
            let Ok(v) = serde_json::from_str::<Value>(&text) else {
                self.infra(format!("pinned replay {} unreadable", path.display()));
                continue;
            };
            let before_known = self.excluded_known.get(&f.signature).copied().unwrap_or(0);
            let before_viol = self.violations.len();
            replay_fn(self, &v);
            self.class("pinned_replays");
            if f.status == "known" {
                let after = self.excluded_known.get(&f.signature).copied().unwrap_or(0);
                if after == before_known && self.violations.len() == before_viol {
                    println!(
                        "NOTE: property={} listed finding no longer reproduces from its pinned repro: {}",
                        self.ctx.id, f.signature
                    );
                }
            }
        }
    }

    pub fn evidence_json(&self) -> Value {
        let mut cov = Map::new();
        cov.insert("evaluations".into(), json!(self.evaluations));
        cov.insert("distinct_nontrivial".into(), json!(self.nontrivial.len()));
        cov.insert("rule".into(), json!(self.rule));
        cov.insert("samples".into(), Value::Array(self.samples.clone()));
        cov.insert("classes".into(), json!(self.classes));
        cov.insert("skipped".into(), json!(self.skipped));
        cov.insert("excluded_known".into(), json!(self.excluded_known));
        cov.insert("inconclusive".into(), json!(self.inconclusive));
        if let Some(e) = self.exhaustive {
            cov.insert("exhaustive".into(), json!(e));
        }
        for (k, v) in &self.extra {
            cov.insert(k.clone(), v.clone());
        }
        json!({
            "property_id": self.ctx.id,
            "tier": self.ctx.tier.name(),
            "seed": self.ctx.seed,
            "level": self.level,
            "coverage": Value::Object(cov),
            "assumptions": self.assumptions,
            "wall_s": (self.start.elapsed().as_secs_f64() * 100.0).round() / 100.0,
            "violations": self.violations.len(),
        })
    }

    /// Write evidence, print the summary, return the process exit code.
    pub fn finish(self) -> i32 {
        // a --replay run (strict) re-evaluates one stored case: it must not
        // replace the evidence of the last full run
        if !self.strict {
            let ev = self.evidence_json();
            let dir = self.ctx.root.join("evidence");
            let _ = std::fs::create_dir_all(&dir);
            let path = dir.join(format!("{}.json", self.ctx.id));
            if let Err(e) = std::fs::write(&path, serde_json::to_string_pretty(&ev).unwrap() + "\n") {
                eprintln!("INFRA: cannot write evidence {}: {e}", path.display());
                return 2;
            }
        }
        println!(
            "SUMMARY property={} tier={} seed={} evaluations={} distinct_nontrivial={} excluded_known={} violations={} wall_s={:.1}",
            self.ctx.id,
            self.ctx.tier.name(),
            self.ctx.seed,
            self.evaluations,
            self.nontrivial.len(),
            self.excluded_known.values().sum::<u64>(),
            self.violations.len(),
            self.start.elapsed().as_secs_f64()
        );
        if !self.violations.is_empty() {
            return 1;
        }
        if !self.infra_errors.is_empty() {
            return 2;
        }
        0
    }
}

/// A listed signature matches if equal, or if the listed one ends in `*` and
/// is a prefix.
fn sig_matches(listed: &str, sig: &str) -> bool {
    if let Some(p) = listed.strip_suffix('*') {
        sig.starts_with(p)
    } else {
        listed == sig
    }
}

pub fn sanitize(s: &str) -> String {
    let mut out: String = s
        .chars()
        .map(|c| if c.is_ascii_alphanumeric() || c == '-' || c == '.' { c } else { '_' })
        .collect();
    if out.len() > 120 {
        let h = hash_of(&s);
        out.truncate(100);
        out.push_str(&format!("_{h:016x}"));
    }
    out
}

/// Simple parallel map preserving order.
pub fn par_map<T: Sync, R: Send, F: Fn(usize, &T) -> R + Sync>(items: &[T], threads: usize, f: F) -> Vec<R> {
    use std::sync::atomic::{AtomicUsize, Ordering};
    use std::sync::Mutex;
    let next = AtomicUsize::new(0);
    let results: Mutex<Vec<Option<R>>> = Mutex::new((0..items.len()).map(|_| None).collect());
    std::thread::scope(|s| {
        for _ in 0..threads.max(1).min(items.len().max(1)) {
            s.spawn(|| loop {
                let i = next.fetch_add(1, Ordering::SeqCst);
                if i >= items.len() {
                    break;
                }
                let r = f(i, &items[i]);
                results.lock().unwrap()[i] = Some(r);
            });
        }
    });
    results.into_inner().unwrap().into_iter().map(|r| r.unwrap()).collect()
}

pub fn wipe_dir(p: &Path) {
    let _ = std::fs::remove_dir_all(p);
    let _ = std::fs::create_dir_all(p);
}
