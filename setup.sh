#!/bin/sh
# Run once after a fresh restore, offline: builds the harness, the lalrpop CLI
# (from /repo's working tree) and the fault-injection shim from files on disk.
set -e
ROOT="$(cd "$(dirname "$0")" && pwd)"
export CARGO_NET_OFFLINE=true
cd "$ROOT/harness" && cargo build --offline
if [ -f "$ROOT/faultinj/faultinj.c" ]; then
    mkdir -p "$ROOT/target/faultinj"
    cc -O1 -shared -fPIC -o "$ROOT/target/faultinj/faultinj.so" "$ROOT/faultinj/faultinj.c" -ldl
fi
"$ROOT/target/harness/debug/lv" list >/dev/null
echo "setup ok"
