//! C18 (E7): coverage-guided fuzzing of the whole LALRPOP pipeline on grammar
//! text. Oracle: `process_file` returns Ok or Err - it never panics. Panics
//! whose message is on the allow list (the listed known findings) are
//! tolerated so that the campaign does not rediscover one crash forever.
#![no_main]
use libfuzzer_sys::fuzz_target;
use std::sync::Once;

static INIT: Once = Once::new();

const ALLOW: &[&str] = &[
    "OfSymbol produced by parser",          // known finding F6
    "should have been expanded away",       // known finding F6
];

fuzz_target!(|data: &[u8]| {
    INIT.call_once(|| {
        // LALRPOP reports with println!/eprintln!: run libFuzzer with -close_fd_mask=3
        std::panic::set_hook(Box::new(|_| {}));
    });
    // keep inputs small: deep nesting / huge macro growth are outside the explored domain (DESIGN C18)
    if data.len() > 2048 {
        return;
    }
    let Ok(text) = std::str::from_utf8(data) else { return };
    if text.matches('(').count() > 40 || text.matches('<').count() > 60 {
        return;
    }
    let dir = std::env::temp_dir().join(format!("lvfuzz-{}", std::process::id()));
    let _ = std::fs::create_dir_all(&dir);
    let file = dir.join("g.lalrpop");
    if std::fs::write(&file, text).is_err() {
        return;
    }
    let res = std::panic::catch_unwind(|| {
        let mut cfg = lalrpop::Configuration::new();
        cfg.log_quiet().force_build(true).never_use_colors();
        let _ = cfg.process_file(&file);
    });
    if let Err(p) = res {
        let msg = p.downcast_ref::<String>().cloned().or_else(|| p.downcast_ref::<&str>().map(|s| s.to_string())).unwrap_or_default();
        if !ALLOW.iter().any(|a| msg.contains(a)) {
            // a new panic: let libFuzzer save the input
            std::process::abort();
        }
    }
});
