#!/bin/sh
# tools/confirm_seeded.sh <ID> : independently confirm a seeded change produced by a sub-agent
#  - applies /tmp/mut/<ID>_out/patch.diff to the scratch worktree /tmp/sens_edit
#  - fast test suite (lalrpop + lalrpop-util) and the self-generation snapshot comparison
#  - demo with the change (must fail) and without it (must pass)
ID=$1
OUT=/tmp/mut/${ID}_out
WT=/tmp/sens_edit
export CARGO_TARGET_DIR=$WT/target CARGO_NET_OFFLINE=true
cd $WT && git checkout -q -- . && git apply $OUT/patch.diff || { echo "CONFIRM $ID: patch does not apply"; exit 1; }
cargo test -p lalrpop -p lalrpop-util --offline > $OUT/confirm_fast_tests.log 2>&1; FAST=$?
mkdir -p /tmp/confirm_snap_$ID && cargo run -q -p lalrpop --offline -- --force --no-whitespace --out-dir /tmp/confirm_snap_$ID lalrpop/src/parser/lrgrammar.lalrpop > /dev/null 2>&1
cmp -s /tmp/confirm_snap_$ID/lrgrammar.rs lalrpop/src/parser/lrgrammar.rs; SNAP=$?
rm -rf /tmp/confirm_snap_$ID
bash $OUT/demo.sh $WT > $OUT/confirm_demo_with.log 2>&1; WITH=$?
git checkout -q -- .
bash $OUT/demo.sh $WT > $OUT/confirm_demo_without.log 2>&1; WITHOUT=$?
echo "CONFIRM $ID: fast_tests_exit=$FAST snapshot_differs=$SNAP demo_with_change_exit=$WITH demo_without_change_exit=$WITHOUT"
