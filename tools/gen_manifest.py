#!/usr/bin/env python3
"""Regenerates /verif/MANIFEST.json from the table below (kept in one place so the
manifest stays valid while checks are added). Run: python3 tools/gen_manifest.py"""
import json, os, sys
ROOT = os.path.dirname(os.path.dirname(os.path.abspath(__file__)))

# id -> (level category, technique, level text, level note, design ref)
CHECKS = {
 "C09": ("exploration",
         "property-based generation (proptest byte tapes -> lexer specs from overlapping terminal pools + inputs) with a reference-lexer differential: documented longest-match/precedence model vs the real lalrpop_util MatcherBuilder run in process on the tables extracted from LALRPOP's output",
         "Generated-input search: 3e3 (quick) / 6e4 (thorough) lexer specs (2-6 literal/regex terminals from overlapping pools and a regex grammar; no match block or 1-3 rungs; renamings to bare/literal/regex names, skip rules, `_`, unused terminals) x 14 strings each (token texts, near misses, random ASCII/non-ASCII, whitespace variants). LALRPOP is run through its CLI; `__strs`, the `Token(k,_) => Some(i)` arms and `__TERMINAL` are read back with proc_macro2 + Rust unescaping and drive the real Matcher; expected (terminal, lo, hi)* / InvalidToken offset come from a reference lexer (regex meta engine without DFAs on the original text, every end tried). Tape shrinking of the first failing case per signature.",
         "Fast tier only (no compiled end-to-end tier yet): the parser's use of the tables is covered by reading `__token_to_integer`/`__TERMINAL` as text. Positions with an equal-precedence tie (C11 finding F7) or an empty longest match (C08 finding F3) are not compared and are counted. Rejected grammars (ambiguity) are skipped and counted.",
         "DESIGN.md section 3, C09"),
 "C10": ("exploration",
         "property-based generation (proptest byte tapes -> literals / regexes from a regex grammar) with a regex round-trip oracle: the pattern string LALRPOP rendered into the generated lexer, run by the real MatcherBuilder, vs w == s for literals and an independent anchored matcher on the original regex text",
         "Generated-input search: 3e3 / 6e4 grammars of 1-4 terminals, each in its own precedence rung (literals over metacharacters, all grammar-level escapes in varying spellings, 2-4 byte characters; regexes with classes, negated/nested classes, set operations, ranges, counted repetitions, alternation incl. empty branches, groups, flags i/s/u/x/-u, Unicode and Perl classes, escapes) x 10-25 candidates per terminal (the string, prefixes, extensions, case variants, mutations, what the text would match if misread as a regex / as a literal; HIR samples, their mutations, random strings). Full match = exactly one token 0..len then end of input from a MatcherBuilder built from the terminal's own rendered pattern, located through `__TERMINAL` and `__token_to_integer`.",
         "The reference for regexes shares regex-syntax's parser with the code under test (it is the definition of 'Rust regex syntax'); what is cross-checked is LALRPOP's escape -> HIR -> Display -> Debug -> rustc-unescape pipeline and the runtime configuration. Empty literal and empty candidates excluded. Fast tier only.",
         "DESIGN.md section 3, C10"),
 "C11": ("exploration",
         "property-based generation (proptest byte tapes -> 2-5 terminals in 1-3 rungs, biased to partial overlaps and non-ASCII) with an exact DFA-product oracle: dense anchored regex-automata DFAs per pattern, product BFS for a string matched by two equal-precedence terminals and by no higher-precedence one (with witness)",
         "Generated-input search: 4e3 / 8e4 grammars; LALRPOP must report `ambiguity detected` iff the oracle finds a witness; grammars containing look-around / non-greedy / named captures must get the `not supported in regular expressions` diagnostic (never a parser, never a panic). A disagreement is attributed to finding F7 only if re-running the oracle with non-ASCII literals read byte-as-code-point reproduces LALRPOP's verdict; every other disagreement is a VIOLATION. Witnesses of missed overlaps are re-checked against the real runtime patterns.",
         "Ties shadowed by a strictly higher-precedence terminal on every common string are don't-care (counted). Skip rules and the implicit whitespace skip are outside the domain. BFS capped at 1.5e5 product states (cap hits are counted; none observed).",
         "DESIGN.md section 3, C11"),
 "C28": ("exploration",
         "property-based testing (proptest byte tapes) against a field-wise reference model and a reference formatter",
         "Generated-input search over all five ParseError variants with small location/token/error domains and expected lists of 0..6 strings; every helper is compared with an independently written reference (map_* field-wise incl. call multiset, composition/commutation laws, Display, From). 2e4 cases quick, 1e6 thorough, proptest shrinking.",
         "Trusts the reference formatter written from the doc comments; explores values, not all types L/T/E.",
         "DESIGN.md section 3, C28"),
}

NOT_APPLICABLE = {}

def main():
    props = [json.loads(l) for l in open(os.path.join(ROOT, "properties.jsonl"))]
    ids = [p["id"] for p in props]
    checks = []
    for pid in ids:
        if pid not in CHECKS: continue
        cat, tech, text, note, ref = CHECKS[pid]
        checks.append({
            "property_id": pid,
            "quick_cmd": f"./check {pid} --tier quick",
            "thorough_cmd": f"./check {pid} --tier thorough",
            "evidence_file": f"/verif/evidence/{pid}.json",
            "replay_cmd_template": f"./check {pid} --replay {{path}}",
            "engine": "lv",
            "level_claimed": {"category": cat, "text": text, "design_ref": ref},
            "level_note": note,
            "technique": tech,
        })
    na = []
    for pid in ids:
        if pid in CHECKS: continue
        na.append({"property_id": pid, "reason": NOT_APPLICABLE.get(pid, "check not built yet in this round (planned in DESIGN.md section 3); not claimed until it exists and is silent on the unchanged tree")})
    m = {
        "version": 1,
        "setup_cmd": "./setup.sh",
        "hooks": {
            "guard": "lalrpop_verif",
            "enable": "none needed: no source hooks exist; checks observe LALRPOP through its public API, its CLI, the generated source text and compiled generated parsers",
            "baseline_off_cmd": "cd /repo && cargo test --workspace --no-fail-fast --offline",
            "source_commits": [],
            "add_only": True,
        },
        "engines": [
            {"name": "lv", "path": "/verif/harness", "serves_properties": sorted(CHECKS.keys()),
             "kind_free_text": "Rust harness: proptest-driven byte tapes -> generators -> oracles (reference models, differential, metamorphic, round-trip); batch compiler for generated parsers; subprocess runner for the real lalrpop CLI; LD_PRELOAD fault injector; replay + evidence + known-findings handling"},
        ],
        "checks": checks,
        "not_applicable": na,
        "notes": "All checks: ./check <ID> [--tier quick|thorough] [--replay file]; VERIF_SEED selects the proptest seed; exit 0 held / 1 VIOLATION / 2 infrastructure or inconclusive. Known findings: /verif/known_findings.jsonl (never written at run time).",
    }
    json.dump(m, open(os.path.join(ROOT, "MANIFEST.json"), "w"), indent=1)
    print("wrote MANIFEST.json with", len(checks), "checks;", len(na), "not claimed")
    try:
        import jsonschema
        jsonschema.validate(m, json.load(open("/root/.vp/MANIFEST.schema.json")))
        print("schema ok")
    except ImportError:
        pass
main()
