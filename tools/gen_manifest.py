#!/usr/bin/env python3
"""Regenerates /verif/MANIFEST.json from the table below (kept in one place so the
manifest stays valid while checks are added). Run: python3 tools/gen_manifest.py"""
import json, os, sys
ROOT = os.path.dirname(os.path.dirname(os.path.abspath(__file__)))

# id -> (level category, technique, level text, level note, design ref)
CHECKS = {
 "C21": ("exploration",
         "stateful / model-based property testing: operation histories decoded from proptest byte tapes, interpreted against the real file system and against the model expected_output = F(current text) (F = memoised forced build in a separate directory); oracle = byte equality with F, inode+ns-mtime identity for already-current outputs, absence of output after a failed build; tape shrinking of failing histories",
         "Generated-input search over histories of <= 25 operations on 1-3 grammar files (edit, revert, touch, introduce/remove error, build through the CLI and the Configuration API in 7 modes with in-source / flat / mirrored output locations, forced or not, delete output, 6 version-line and 8 hash-line corruptions, truncation inside the header, foreign complete output, output mtime older/newer). Invariant checked after every build step. 500 histories (~3000 builds) quick, 12000 thorough.",
         "Trusts a forced CLI build as the model F and the visiting order of process_dir (sorted by name, depth first). Hand edits below an intact header, whitespace-only header changes and files behind an aborted build are outside the contract and not judged (counted in evidence).",
         "DESIGN.md section 3, C21"),
 "C22": ("fault_enumeration",
         "fault enumeration with an LD_PRELOAD shim (faultinj/faultinj.c: SIGKILL after k bytes written to regular files, SIGKILL before the K-th unlink/create/write/rename/mkdir, or ENOSPC at byte k) plus property-based (proptest byte tape) generation of sequences of 1-2 crashed builds; oracle = after one normal non-forced build the .rs and the report equal a forced reference build byte for byte; shim cross-checked against kernel RLIMIT_FSIZE",
         "Every crash point of the build of small grammars: quick = every byte offset in the first 256 and last 64 bytes of each written file and every 61st between, every file-system operation boundary, a sparser sweep of write errors, on 4 scenarios (with/without --report, in-source / -o, output absent / current / stale beforehand) + 400 generated crash sequences over all 36 scenarios; thorough = all byte offsets of the 4 scenarios, the sampled sweep on all 36, 8000 sequences.",
         "Crashes are process kills and failing writes; power loss (lost page cache, reordered metadata) is not modelled. All builds of a case use the same flags and grammar text. Currently fails on the pinned tree (DESIGN finding F1); silent with proposed_fixes/C22-atomic-output.diff applied.",
         "DESIGN.md section 3, C22"),
 "C23": ("exploration",
         "property-based testing: random directory trees + driver configurations decoded from proptest byte tapes, each run twice; oracle = independent path model written from the property statement (own symlink-following directory walker + documented output-path rule), content compared with a forced reference build, rerun directives compared with the processed set; tape shrinking",
         "Generated-input search over trees (<= 9 files, depth <= 4; leading / nested / repeated src; dotted, hidden, Unicode and whitespace names; non-.lalrpop files; directories named *.lalrpop; file and directory symlinks, dangling symlinks, an outside directory) x {CLI +-o, process_file, process_dir with set_out_dir / OUT_DIR / neither, set_in_dir+process, use_cargo_dir_conventions, generate_in_source_tree, conflicting set_in_dir} x emit_rerun_directives, with relative, dotted, slash-terminated and absolute spellings of directories. 900 cases quick, 20000 thorough.",
         "Only UTF-8 names, no symlink loops, the walk root exists. When a whitespace name aborts a walk the model expects exactly the grammars that sort before it to be processed. generate_in_source_tree is judged by the statement's formula (out_dir = '.'), not by its doc comment.",
         "DESIGN.md section 3, C23"),
 "C28": ("exploration",
         "property-based testing (proptest byte tapes) against a field-wise reference model and a reference formatter",
         "Generated-input search over all five ParseError variants with small location/token/error domains and expected lists of 0..6 strings; every helper is compared with an independently written reference (map_* field-wise incl. call multiset, composition/commutation laws, Display, From). 2e4 cases quick, 1e6 thorough, proptest shrinking.",
         "Trusts the reference formatter written from the doc comments; explores values, not all types L/T/E.",
         "DESIGN.md section 3, C28"),
}

NOT_APPLICABLE = {}

def main():
    props = [json.loads(l) for l in open(os.path.join(ROOT, "properties.jsonl"))]
    ids = [p["id"] for p in props]
    checks = []
    for pid in ids:
        if pid not in CHECKS: continue
        cat, tech, text, note, ref = CHECKS[pid]
        checks.append({
            "property_id": pid,
            "quick_cmd": f"./check {pid} --tier quick",
            "thorough_cmd": f"./check {pid} --tier thorough",
            "evidence_file": f"/verif/evidence/{pid}.json",
            "replay_cmd_template": f"./check {pid} --replay {{path}}",
            "engine": "lv",
            "level_claimed": {"category": cat, "text": text, "design_ref": ref},
            "level_note": note,
            "technique": tech,
        })
    na = []
    for pid in ids:
        if pid in CHECKS: continue
        na.append({"property_id": pid, "reason": NOT_APPLICABLE.get(pid, "check not built yet in this round (planned in DESIGN.md section 3); not claimed until it exists and is silent on the unchanged tree")})
    m = {
        "version": 1,
        "setup_cmd": "./setup.sh",
        "hooks": {
            "guard": "lalrpop_verif",
            "enable": "none needed: no source hooks exist; checks observe LALRPOP through its public API, its CLI, the generated source text and compiled generated parsers",
            "baseline_off_cmd": "cd /repo && cargo test --workspace --no-fail-fast --offline",
            "source_commits": [],
            "add_only": True,
        },
        "engines": [
            {"name": "lv", "path": "/verif/harness", "serves_properties": sorted(CHECKS.keys()),
             "kind_free_text": "Rust harness: proptest-driven byte tapes -> generators -> oracles (reference models, differential, metamorphic, round-trip); batch compiler for generated parsers; subprocess runner for the real lalrpop CLI; LD_PRELOAD fault injector; replay + evidence + known-findings handling"},
        ],
        "checks": checks,
        "not_applicable": na,
        "notes": "All checks: ./check <ID> [--tier quick|thorough] [--replay file]; VERIF_SEED selects the proptest seed; exit 0 held / 1 VIOLATION / 2 infrastructure or inconclusive. Known findings: /verif/known_findings.jsonl (never written at run time).",
    }
    json.dump(m, open(os.path.join(ROOT, "MANIFEST.json"), "w"), indent=1)
    print("wrote MANIFEST.json with", len(checks), "checks;", len(na), "not claimed")
    try:
        import jsonschema
        jsonschema.validate(m, json.load(open("/root/.vp/MANIFEST.schema.json")))
        print("schema ok")
    except ImportError:
        pass
main()
