#!/usr/bin/env python3
"""Regenerates /verif/MANIFEST.json from the table below (kept in one place so the
manifest stays valid while checks are added). Run: python3 tools/gen_manifest.py"""
import json, os, sys
ROOT = os.path.dirname(os.path.dirname(os.path.abspath(__file__)))

# id -> (level category, technique, level text, level note, design ref)
CHECKS = {
 "C01": ("exploration",
         "property-based testing with a compiled differential: grammars decoded from proptest byte tapes are compiled by the real LALRPOP + rustc in batches and compared with a reference membership oracle (span DP cross-checked against Earley) on generated inputs; batch tape shrinking",
         "Generated-input search over G-full grammars (macros, repetitions, groups, #[inline], default and user actions, all binding forms, several pub symbols, extern and built-in lexers) that LALRPOP accepts x all pub symbols x {table-driven, recursive ascent} x {lane table, canonical LR(1), LALR(1)} x inputs (model sentences, single-token mutations, random strings, all strings up to length 3, empty). 60 grammars -> ~140 accepted parsers -> ~2e4 parses quick; 1500 grammars thorough.",
         "Trusts the harness's reference model (harness/src/model + gspec.rs elaboration, written from the book and the property statements; membership is computed by two independent algorithms that are cross-checked on every run), rustc, and the batch runtime rt.rs. Grammar sizes are bounded (<= 6 nonterminals + helpers, <= 8 terminals, inputs <= 16 tokens, all strings up to length 3).",
         "DESIGN.md section 3, C01"),
 "C02": ("exploration",
         "property-based testing with a compiled differential against a reference evaluator (bottom-up evaluation of the unique derivation tree: canonical value rendering + action log); batch tape shrinking",
         "As C01 on accepted inputs: the returned value must equal the model's rendering of the derivation (user actions render Name(children..) through a rendering trait, default actions per the type-inference chapter, `<>`/named/mut/tuple bindings) and the action log must be the post-order of the non-inlined nodes.",
         "Trusts the harness's reference model (harness/src/model + gspec.rs elaboration, written from the book and the property statements; membership is computed by two independent algorithms that are cross-checked on every run), rustc, and the batch runtime rt.rs. Grammar sizes are bounded (<= 6 nonterminals + helpers, <= 8 terminals, inputs <= 16 tokens, all strings up to length 3). Log order with inlined user actions is compared as a multiset here (exact order is C14's subject).",
         "DESIGN.md section 3, C02"),
 "C03": ("exploration",
         "property-based testing against the harness's own textbook canonical LR(1) and LALR(1) constructions (two variants, to tell the known empty-lookahead divergence apart)",
         "CFG skeletons (random + template families: LR(1)-not-LALR(1), LR(2), ambiguous, dangling else, nullable chains, unproductive nonterminals, bracket families; `? * +`, groups, #[inline], several pub symbols) x {lane table, canonical LR(1), LALR(1), lane + #[LALR]} through the real CLI: conflict diagnostic iff the oracle finds a conflict for some pub symbol. 1200 grammars x 4 configurations quick, 60000 thorough; parallel tape shrinking.",
         "Trusts the own LR constructions (aborted above 4000 states, counted) and the model's inlining of `* ? ()` helpers. With the lane table on, #[LALR] is documented to have no effect, so the criterion there is canonical LR(1).",
         "DESIGN.md section 3, C03"),
 "C04": ("exploration",
         "property-based testing with a compiled differential against a viable-prefix oracle (Earley recogniser over the productive grammar) and a counting token iterator",
         "Reduced grammars without `!` x rejected inputs x all 6 configurations: UnrecognizedToken must carry exactly the first token that makes the prefix non-viable with its exact span, UnrecognizedEof the end of the last token (default location for empty input), the token iterator is never asked for more than k items, ExtraToken never occurs.",
         "Trusts the harness's reference model (harness/src/model + gspec.rs elaboration, written from the book and the property statements; membership is computed by two independent algorithms that are cross-checked on every run), rustc, and the batch runtime rt.rs. Grammar sizes are bounded (<= 6 nonterminals + helpers, <= 8 terminals, inputs <= 16 tokens, all strings up to length 3).",
         "DESIGN.md section 3, C04"),
 "C05": ("exploration",
         "property-based testing with a compiled differential against a valid-continuation oracle (Earley item sets)",
         "As C04: every entry of `expected` must be a valid continuation of the consumed prefix, no duplicates, never the error pseudo-terminal; under canonical LR(1) the list must equal the full continuation set. The recursive-ascent backend's documented over-approximation under merged lookaheads is a listed known finding (signatures C05/overbroad/ascent/{lane,lalr}); the table-driven backend and every other failure class stay asserted.",
         "Trusts the harness's reference model (harness/src/model + gspec.rs elaboration, written from the book and the property statements; membership is computed by two independent algorithms that are cross-checked on every run), rustc, and the batch runtime rt.rs. Grammar sizes are bounded (<= 6 nonterminals + helpers, <= 8 terminals, inputs <= 16 tokens, all strings up to length 3).",
         "DESIGN.md section 3, C05"),
 "C06": ("exploration",
         "property-based testing with a compiled differential against a location model with an exact layer, a bounded layer and a table-vs-ascent differential layer",
         "Grammars dense in @L/@R, empty productions, inlined items and nested inlining, extern lexer with gapped token spans (usize and a newtype location) and built-in lexer with random whitespace x accepted inputs x 6 configurations.",
         "Trusts the harness's reference model (harness/src/model + gspec.rs elaboration, written from the book and the property statements; membership is computed by two independent algorithms that are cross-checked on every run), rustc, and the batch runtime rt.rs. Grammar sizes are bounded (<= 6 nonterminals + helpers, <= 8 terminals, inputs <= 16 tokens, all strings up to length 3). Where the statement leaves the value open (a marker whose preferred neighbour is an inlined item deriving nothing) only the interval [end of last solid symbol before, start of first solid symbol after] is asserted.",
         "DESIGN.md section 3, C06"),
 "C07": ("exploration",
         "differential property-based testing: every generated grammar is printed with and without #[recursive_ascent], compiled, and both parsers are run on the same generated inputs",
         "All grammars of the suite without `!` x all inputs (accepted and rejected) x 3 algorithms: same Ok rendering or same error variant, token, span, location and user error. No model involved.",
         "Trusts rustc and the batch runtime; expected-token lists are excluded (C05).",
         "DESIGN.md section 3, C07"),
 "C08": ("exploration",
         "property-based testing of compiled parsers with deterministic step counters (actions + token pulls), catch_unwind and a driver watchdog",
         "All accepted grammars x all inputs: no panic, no driver crash, step budget 64 (n+2) |P| + 256 never exceeded, at most n+1 token pulls.",
         "Trusts the harness's reference model (harness/src/model + gspec.rs elaboration, written from the book and the property statements; membership is computed by two independent algorithms that are cross-checked on every run), rustc, and the batch runtime rt.rs. Grammar sizes are bounded (<= 6 nonterminals + helpers, <= 8 terminals, inputs <= 16 tokens, all strings up to length 3). A watchdog expiry without counter evidence is exit 2 (inconclusive), never a violation.",
         "DESIGN.md section 3, C08"),
 "C12": ("exploration",
         "property-based testing with a compiled differential against the documented tiered operator grammar built by the model",
         "One annotated nonterminal with binary / prefix / postfix / ternary / atomic alternatives over 1-4 arbitrary level numbers in non-monotone order, inherited levels and associativities, all assoc kinds, referenced from a wrapper, a repeat and a parenthesised atom x 6 configurations x operator/operand sequences: same accept/reject and same rendered tree as the tiered grammar.",
         "Trusts the harness's reference model (harness/src/model + gspec.rs elaboration, written from the book and the property statements; membership is computed by two independent algorithms that are cross-checked on every run), rustc, and the batch runtime rt.rs. Grammar sizes are bounded (<= 6 nonterminals + helpers, <= 8 terminals, inputs <= 16 tokens, all strings up to length 3).",
         "DESIGN.md section 3, C12"),
 "C13": ("exploration",
         "property-based testing with a compiled differential against model expansion by substitution into fresh nonterminals",
         "Macro-heavy G-full grammars (1-2 parameter macros, conditions == != ~~ !~, nested uses, repetition of groups and macros): same language and same values (Vec in input order, Option, tuples) as the substituted grammar.",
         "Trusts the harness's reference model (harness/src/model + gspec.rs elaboration, written from the book and the property statements; membership is computed by two independent algorithms that are cross-checked on every run), rustc, and the batch runtime rt.rs. Grammar sizes are bounded (<= 6 nonterminals + helpers, <= 8 terminals, inputs <= 16 tokens, all strings up to length 3).",
         "DESIGN.md section 3, C13"),
 "C17": ("exploration",
         "property-based testing with a compiled differential against a model timeline (token i pulled at 2i, node [a,b) reduced at 2b+1) with injected faults: poisoned tokens that make fallible actions fail and Err items at any stream index",
         "Grammars with `=>?` actions (plain, inlined, in start productions) x sentences x poison flags x injected stream errors x 6 configurations: exact error (User / other ParseError variant / stream error as User), exact action log up to the failure, exact number of token pulls.",
         "Trusts the harness's reference model (harness/src/model + gspec.rs elaboration, written from the book and the property statements; membership is computed by two independent algorithms that are cross-checked on every run), rustc, and the batch runtime rt.rs. Grammar sizes are bounded (<= 6 nonterminals + helpers, <= 8 terminals, inputs <= 16 tokens, all strings up to length 3).",
         "DESIGN.md section 3, C17"),
 "C19": ("exploration",
         "property-based testing: generated well-typed grammars are compiled in batches; rustc diagnostics are attributed to generated modules through macro-expansion chains",
         "G-full grammars mixing annotated and inferred types (tuples, Vec/Option from repeats and macros, payload tokens, usize / Copy newtype / Clone-only newtype locations, both lexers) x both code generators x 3 algorithms: every unit LALRPOP accepts must compile.",
         "User code is well-typed by construction (actions render through a trait implemented for every value type); generics / user lifetimes beyond 'input are not generated.",
         "DESIGN.md section 3, C19"),
 "C14": ("exploration",
         "metamorphic property-based testing with compiled parsers: (G, G with a random subset of eligible nonterminals marked #[inline]) pairs from proptest byte tapes, same generated inputs (incl. poisoned tokens that make fallible actions fail) through both; plus the model's prediction of the inlined action order",
         "Pairs with nested inlining, several occurrences per alternative, several different inlined nonterminals per alternative, empty and fallible inlined productions x 6 configurations: same Ok value / same error on every input whenever both forms are accepted, and the action log of the inlined form equals the model's (inlined actions left to right, inner first, just before the host action).",
         "Trusts the harness's reference model (harness/src/model + gspec.rs elaboration, written from the book and the property statements; membership is computed by two independent algorithms that are cross-checked on every run), rustc, and the batch runtime rt.rs. Grammar sizes are bounded (<= 6 nonterminals + helpers, <= 8 terminals, inputs <= 16 tokens). Location values of empty derivations are excluded (C06).",
         "DESIGN.md section 3, C14"),
 "C15": ("exploration",
         "property-based testing with a metamorphic text oracle (grammar with #[cfg] under a feature set vs the same grammar with the inactive items deleted by the model: same verdict, byte-identical generated code after the header) plus the compiled differential against the model of the deleted grammar",
         "G-full grammars decorated with nested not/all/any predicates (1-2 attributes per item) on alternatives, extra gated alternatives, gated nonterminals and gated extern conversions x feature subsets of {f1, x-y, abc, z9} passed with --features.",
         "Trusts the harness's reference model (harness/src/model + gspec.rs elaboration, written from the book and the property statements; membership is computed by two independent algorithms that are cross-checked on every run), rustc, and the batch runtime rt.rs. Grammar sizes are bounded (<= 6 nonterminals + helpers, <= 8 terminals, inputs <= 16 tokens). Features are supplied through the CLI's --features; the set_features and CARGO_FEATURE_* routes are exercised by C23's driver configurations only for path handling, not for predicates. Attributes are never put on empty alternatives (the grammar syntax does not allow it).",
         "DESIGN.md section 3, C15"),
 "C16": ("exploration",
         "property-based testing of compiled table-driven parsers with a validity predicate over the returned tree (several outputs are legal): the rendering is re-parsed and checked against the grammar and the input",
         "Grammars with `!` at several depths (statement lists, recover-to-terminator, `!` after a prefix, bracketed, bare) x 3 algorithms x sentences of the `!`-free grammar with 0-3 edits and random strings: derivation with `!` as a terminal, leaves an ordered subsequence of the input, every other token inside exactly one error span, spans ordered and disjoint, dropped_tokens in input order, no recovery on sentences.",
         "Trusts the harness's reference model (harness/src/model + gspec.rs elaboration, written from the book and the property statements; membership is computed by two independent algorithms that are cross-checked on every run), rustc, and the batch runtime rt.rs. Grammar sizes are bounded (<= 6 nonterminals + helpers, <= 8 terminals, inputs <= 16 tokens). Err results carry no claim here (C08/C17 apply).",
         "DESIGN.md section 3, C16"),
 "C25": ("exploration",
         "metamorphic property-based testing with compiled parsers: (G, injective renaming of G into an adversarial identifier pool) pairs, same inputs through both",
         "Renames nonterminals, macro names, macro parameters, bindings, the grammar parameter and its lifetime into names that start with `__` or look like names LALRPOP derives (__0 __sym0 __lookahead __tokens __Symbol __StateMachine __action0 Token alloc core v e ...): same LALRPOP verdict, same compile result, identical answers on every input x 6 configurations.",
         "Trusts the harness's reference model (harness/src/model + gspec.rs elaboration, written from the book and the property statements; membership is computed by two independent algorithms that are cross-checked on every run), rustc, and the batch runtime rt.rs. Grammar sizes are bounded (<= 6 nonterminals + helpers, <= 8 terminals, inputs <= 16 tokens). Type parameters other than the lifetime are not generated; the DESIGN finding F8 (precedence level name collision) needs annotated nonterminals, which this generator does not rename into (see DESIGN).",
         "DESIGN.md section 3, C25"),
 "C27": ("exploration",
         "property-based stress testing of compiled parsers: one shared parser value, generated input multisets and generated per-thread schedules (proptest tapes), sequential reuse then T in {2,4,8,16} threads behind a barrier; oracle = answer of a fresh parser on the same input alone; compile-time Send + Sync assertion",
         "Accepted grammars (built-in lexer weighted up) x {table, ascent} x pub symbols: every answer (value / error / expected list / log / pulls) under sequential reuse and under concurrent use equals the fresh-parser answer.",
         "The harness does not own the scheduler (the lazy DFA cache lives in regex-automata), so interleavings are sampled by stress, not enumerated; the input and reuse dimensions are explored properly.",
         "DESIGN.md section 3, C27"),
 "C21": ("exploration",
         "stateful / model-based property testing: operation histories decoded from proptest byte tapes, interpreted against the real file system and against the model expected_output = F(current text) (F = memoised forced build in a separate directory); oracle = byte equality with F, inode+ns-mtime identity for already-current outputs, absence of output after a failed build; tape shrinking of failing histories",
         "Generated-input search over histories of <= 25 operations on 1-3 grammar files (edit, revert, touch, introduce/remove error, build through the CLI and the Configuration API in 7 modes with in-source / flat / mirrored output locations, forced or not, delete output, 6 version-line and 8 hash-line corruptions, truncation inside the header, foreign complete output, output mtime older/newer). Invariant checked after every build step. 500 histories (~3000 builds) quick, 12000 thorough.",
         "Trusts a forced CLI build as the model F and the visiting order of process_dir (sorted by name, depth first). Hand edits below an intact header, whitespace-only header changes and files behind an aborted build are outside the contract and not judged (counted in evidence).",
         "DESIGN.md section 3, C21"),
 "C22": ("fault_enumeration",
         "fault enumeration with an LD_PRELOAD shim (faultinj/faultinj.c: SIGKILL after k bytes written to regular files, SIGKILL before the K-th unlink/create/write/rename/mkdir, or ENOSPC at byte k) plus property-based (proptest byte tape) generation of sequences of 1-2 crashed builds; oracle = after one normal non-forced build the .rs and the report equal a forced reference build byte for byte; shim cross-checked against kernel RLIMIT_FSIZE",
         "Every crash point of the build of small grammars: quick = every byte offset in the first 256 and last 64 bytes of each written file and every 61st between, every file-system operation boundary, a sparser sweep of write errors, on 4 scenarios (with/without --report, in-source / -o, output absent / current / stale beforehand) + 400 generated crash sequences over all 36 scenarios; thorough = all byte offsets of the 4 scenarios, the sampled sweep on all 36, 8000 sequences.",
         "Crashes are process kills and failing writes; power loss (lost page cache, reordered metadata) is not modelled. All builds of a case use the same flags and grammar text. The pinned tree violated this (DESIGN finding F1: header written before the body); repaired by the fix: commit recorded in known_findings.jsonl, whose pinned repros are replayed on every run.",
         "DESIGN.md section 3, C22"),
 "C23": ("exploration",
         "property-based testing: random directory trees + driver configurations decoded from proptest byte tapes, each run twice; oracle = independent path model written from the property statement (own symlink-following directory walker + documented output-path rule), content compared with a forced reference build, rerun directives compared with the processed set; tape shrinking",
         "Generated-input search over trees (<= 9 files, depth <= 4; leading / nested / repeated src; dotted, hidden, Unicode and whitespace names; non-.lalrpop files; directories named *.lalrpop; file and directory symlinks, dangling symlinks, an outside directory) x {CLI +-o, process_file, process_dir with set_out_dir / OUT_DIR / neither, set_in_dir+process, use_cargo_dir_conventions, generate_in_source_tree, conflicting set_in_dir} x emit_rerun_directives, with relative, dotted, slash-terminated and absolute spellings of directories. 900 cases quick, 20000 thorough.",
         "Only UTF-8 names, no symlink loops, the walk root exists. When a whitespace name aborts a walk the model expects exactly the grammars that sort before it to be processed. generate_in_source_tree is judged by the statement's formula (out_dir = '.'), not by its doc comment.",
         "DESIGN.md section 3, C23"),
 "C28": ("exploration",
         "property-based testing (proptest byte tapes) against a field-wise reference model and a reference formatter",
         "Generated-input search over all five ParseError variants with small location/token/error domains and expected lists of 0..6 strings; every helper is compared with an independently written reference (map_* field-wise incl. call multiset, composition/commutation laws, Display, From). 2e4 cases quick, 1e6 thorough, proptest shrinking.",
         "Trusts the reference formatter written from the doc comments; explores values, not all types L/T/E.",
         "DESIGN.md section 3, C28"),
 "C18": ("exploration",
         "property-based generation (proptest byte tapes -> template grammars damaged by a catalogue of ~80 mistakes) + mutation fuzzing (token-level mutants of the repository's .lalrpop files, dictionary-biased raw bytes) against a process-level oracle (real CLI: exit 0 + header lines with recomputed sha3, or exit 1 + diagnostic and no output; never panic / signal / other status / watchdog)",
         "Generated-input search: 3 000 near-valid grammars + 1 600 corpus mutants + 400 byte strings per quick run (120 000 + 70 000 + 10 000 thorough), each in its own lalrpop process under a 1 GiB address-space limit and a 60 s watchdog (re-run with 180 s twice before a hang is reported); every new failure signature (panic file + normalised message, abort kind, exit-status mismatch) is minimised by parallel token-level delta debugging and stored as a self-contained replay.",
         "Does not explore nesting deeper than 64 or grammars whose LR(1) construction takes minutes (many precedence levels / deeply nested repetitions are capped); a hang is only reported after three watchdog hits.",
         "DESIGN.md section 3, C18"),
 "C20": ("exploration",
         "differential / metamorphic testing over independent processes: the same grammar text through the CLI alone, the CLI with several inputs in random order, and Configuration::process_dir over random directory compositions and file names, with byte-equality oracle on .rs and .report",
         "Generated-input search over every repository grammar LALRPOP accepts (incl. lrgrammar.lalrpop, pascal.lalrpop) + 120 (2 500 thorough) template grammars heavy in macros / inferred types; 8 (16) processes per grammar with fresh hash seeds, half with --comments, half with --report; all outputs of one text under one --comments setting must be byte-identical, all reports too.",
         "Hash seeds cannot be forced (std RandomState); relies on fresh per-process keys. Every process uses the same feature set.",
         "DESIGN.md section 3, C20"),
 "C24": ("exploration",
         "metamorphic testing: all 8 combinations of --comments / --no-whitespace / --report vs the default output, oracle = equality of the Rust token streams produced by proc_macro2's lexer (comments and whitespace dropped)",
         "Generated-input search over every repository grammar LALRPOP accepts + 160 (4 000 thorough) template grammars (precedence, macros, inline, spans, recovery, generic types, cfg, extern/match lexers, LALR and recursive-ascent attributes); 7 non-default option combinations each; failing cases are minimised by token-level delta debugging.",
         "Token-stream equality only; the generated code is not compiled and run in this check. lrgrammar/pascal only in the thorough tier.",
         "DESIGN.md section 3, C24"),
 "C26": ("exploration",
         "metamorphic testing (layout perturbation of grammar token lists: whitespace, line comments, nested block comments, gluing) + property-based generation of embedded Rust snippets, oracle = proc_macro2 token streams of the generated file / of fn __action<n> bodies, return types, use items and module attributes",
         "Generated-input search: (a) every repository grammar + 100 (2 500) template grammars re-laid-out 4 (7) times each from the harness's own token splitter; (b) 1 500 (40 000) grammars whose action code / use items / #![..] attributes / type annotation come from a snippet generator (nested delimiters; string, raw string, byte string and char literals holding delimiters and quotes; lifetimes, labels, comments holding delimiters).",
         "Adjacency of an identifier and a following `<` is kept as written (macro names are defined by adjacency); inserted comments avoid `__`, `<>`, doc-comment forms and, next to code blocks, double quotes; snippets have no top-level `,`/`;`. Values computed by the actions are not executed.",
         "DESIGN.md section 3, C26"),
}

NOT_APPLICABLE = {}

def main():
    props = [json.loads(l) for l in open(os.path.join(ROOT, "properties.jsonl"))]
    ids = [p["id"] for p in props]
    checks = []
    for pid in ids:
        if pid not in CHECKS: continue
        cat, tech, text, note, ref = CHECKS[pid]
        checks.append({
            "property_id": pid,
            "quick_cmd": f"./check {pid} --tier quick",
            "thorough_cmd": f"./check {pid} --tier thorough",
            "evidence_file": f"/verif/evidence/{pid}.json",
            "replay_cmd_template": f"./check {pid} --replay {{path}}",
            "engine": "lv",
            "level_claimed": {"category": cat, "text": text, "design_ref": ref},
            "level_note": note,
            "technique": tech,
        })
    na = []
    for pid in ids:
        if pid in CHECKS: continue
        na.append({"property_id": pid, "reason": NOT_APPLICABLE.get(pid, "check not built yet in this round (planned in DESIGN.md section 3); not claimed until it exists and is silent on the unchanged tree")})
    m = {
        "version": 1,
        "setup_cmd": "./setup.sh",
        "hooks": {
            "guard": "lalrpop_verif",
            "enable": "none needed: no source hooks exist; checks observe LALRPOP through its public API, its CLI, the generated source text and compiled generated parsers",
            "baseline_off_cmd": "cd /repo && cargo test --workspace --no-fail-fast --offline",
            "source_commits": [],
            "add_only": True,
        },
        "engines": [
            {"name": "lv", "path": "/verif/harness", "serves_properties": sorted(CHECKS.keys()),
             "kind_free_text": "Rust harness: proptest-driven byte tapes -> generators -> oracles (reference models, differential, metamorphic, round-trip); batch compiler for generated parsers; subprocess runner for the real lalrpop CLI; LD_PRELOAD fault injector; replay + evidence + known-findings handling"},
        ],
        "checks": checks,
        "not_applicable": na,
        "notes": "All checks: ./check <ID> [--tier quick|thorough] [--replay file]; VERIF_SEED selects the proptest seed; exit 0 held / 1 VIOLATION / 2 infrastructure or inconclusive. Known findings: /verif/known_findings.jsonl (never written at run time).",
    }
    json.dump(m, open(os.path.join(ROOT, "MANIFEST.json"), "w"), indent=1)
    print("wrote MANIFEST.json with", len(checks), "checks;", len(na), "not claimed")
    try:
        import jsonschema
        jsonschema.validate(m, json.load(open("/root/.vp/MANIFEST.schema.json")))
        print("schema ok")
    except ImportError:
        pass
main()
