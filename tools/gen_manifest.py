#!/usr/bin/env python3
"""Regenerates /verif/MANIFEST.json from the table below (kept in one place so the
manifest stays valid while checks are added). Run: python3 tools/gen_manifest.py"""
import json, os, sys
ROOT = os.path.dirname(os.path.dirname(os.path.abspath(__file__)))

# id -> (level category, technique, level text, level note, design ref)
CHECKS = {
 "C28": ("exploration",
         "property-based testing (proptest byte tapes) against a field-wise reference model and a reference formatter",
         "Generated-input search over all five ParseError variants with small location/token/error domains and expected lists of 0..6 strings; every helper is compared with an independently written reference (map_* field-wise incl. call multiset, composition/commutation laws, Display, From). 2e4 cases quick, 1e6 thorough, proptest shrinking.",
         "Trusts the reference formatter written from the doc comments; explores values, not all types L/T/E.",
         "DESIGN.md section 3, C28"),
 "C18": ("exploration",
         "property-based generation (proptest byte tapes -> template grammars damaged by a catalogue of ~80 mistakes) + mutation fuzzing (token-level mutants of the repository's .lalrpop files, dictionary-biased raw bytes) against a process-level oracle (real CLI: exit 0 + header lines with recomputed sha3, or exit 1 + diagnostic and no output; never panic / signal / other status / watchdog)",
         "Generated-input search: 3 000 near-valid grammars + 1 600 corpus mutants + 400 byte strings per quick run (120 000 + 70 000 + 10 000 thorough), each in its own lalrpop process under a 1 GiB address-space limit and a 60 s watchdog (re-run with 180 s twice before a hang is reported); every new failure signature (panic file + normalised message, abort kind, exit-status mismatch) is minimised by parallel token-level delta debugging and stored as a self-contained replay.",
         "Does not explore nesting deeper than 64 or grammars whose LR(1) construction takes minutes (many precedence levels / deeply nested repetitions are capped); a hang is only reported after three watchdog hits.",
         "DESIGN.md section 3, C18"),
 "C20": ("exploration",
         "differential / metamorphic testing over independent processes: the same grammar text through the CLI alone, the CLI with several inputs in random order, and Configuration::process_dir over random directory compositions and file names, with byte-equality oracle on .rs and .report",
         "Generated-input search over every repository grammar LALRPOP accepts (incl. lrgrammar.lalrpop, pascal.lalrpop) + 120 (2 500 thorough) template grammars heavy in macros / inferred types; 8 (16) processes per grammar with fresh hash seeds, half with --comments, half with --report; all outputs of one text under one --comments setting must be byte-identical, all reports too.",
         "Hash seeds cannot be forced (std RandomState); relies on fresh per-process keys. Every process uses the same feature set.",
         "DESIGN.md section 3, C20"),
 "C24": ("exploration",
         "metamorphic testing: all 8 combinations of --comments / --no-whitespace / --report vs the default output, oracle = equality of the Rust token streams produced by proc_macro2's lexer (comments and whitespace dropped)",
         "Generated-input search over every repository grammar LALRPOP accepts + 160 (4 000 thorough) template grammars (precedence, macros, inline, spans, recovery, generic types, cfg, extern/match lexers, LALR and recursive-ascent attributes); 7 non-default option combinations each; failing cases are minimised by token-level delta debugging.",
         "Token-stream equality only; the generated code is not compiled and run in this check. lrgrammar/pascal only in the thorough tier.",
         "DESIGN.md section 3, C24"),
 "C26": ("exploration",
         "metamorphic testing (layout perturbation of grammar token lists: whitespace, line comments, nested block comments, gluing) + property-based generation of embedded Rust snippets, oracle = proc_macro2 token streams of the generated file / of fn __action<n> bodies, return types, use items and module attributes",
         "Generated-input search: (a) every repository grammar + 100 (2 500) template grammars re-laid-out 4 (7) times each from the harness's own token splitter; (b) 1 500 (40 000) grammars whose action code / use items / #![..] attributes / type annotation come from a snippet generator (nested delimiters; string, raw string, byte string and char literals holding delimiters and quotes; lifetimes, labels, comments holding delimiters).",
         "Adjacency of an identifier and a following `<` is kept as written (macro names are defined by adjacency); inserted comments avoid `__`, `<>`, doc-comment forms and, next to code blocks, double quotes; snippets have no top-level `,`/`;`. Values computed by the actions are not executed.",
         "DESIGN.md section 3, C26"),
}

NOT_APPLICABLE = {}

def main():
    props = [json.loads(l) for l in open(os.path.join(ROOT, "properties.jsonl"))]
    ids = [p["id"] for p in props]
    checks = []
    for pid in ids:
        if pid not in CHECKS: continue
        cat, tech, text, note, ref = CHECKS[pid]
        checks.append({
            "property_id": pid,
            "quick_cmd": f"./check {pid} --tier quick",
            "thorough_cmd": f"./check {pid} --tier thorough",
            "evidence_file": f"/verif/evidence/{pid}.json",
            "replay_cmd_template": f"./check {pid} --replay {{path}}",
            "engine": "lv",
            "level_claimed": {"category": cat, "text": text, "design_ref": ref},
            "level_note": note,
            "technique": tech,
        })
    na = []
    for pid in ids:
        if pid in CHECKS: continue
        na.append({"property_id": pid, "reason": NOT_APPLICABLE.get(pid, "check not built yet in this round (planned in DESIGN.md section 3); not claimed until it exists and is silent on the unchanged tree")})
    m = {
        "version": 1,
        "setup_cmd": "./setup.sh",
        "hooks": {
            "guard": "lalrpop_verif",
            "enable": "none needed: no source hooks exist; checks observe LALRPOP through its public API, its CLI, the generated source text and compiled generated parsers",
            "baseline_off_cmd": "cd /repo && cargo test --workspace --no-fail-fast --offline",
            "source_commits": [],
            "add_only": True,
        },
        "engines": [
            {"name": "lv", "path": "/verif/harness", "serves_properties": sorted(CHECKS.keys()),
             "kind_free_text": "Rust harness: proptest-driven byte tapes -> generators -> oracles (reference models, differential, metamorphic, round-trip); batch compiler for generated parsers; subprocess runner for the real lalrpop CLI; LD_PRELOAD fault injector; replay + evidence + known-findings handling"},
        ],
        "checks": checks,
        "not_applicable": na,
        "notes": "All checks: ./check <ID> [--tier quick|thorough] [--replay file]; VERIF_SEED selects the proptest seed; exit 0 held / 1 VIOLATION / 2 infrastructure or inconclusive. Known findings: /verif/known_findings.jsonl (never written at run time).",
    }
    json.dump(m, open(os.path.join(ROOT, "MANIFEST.json"), "w"), indent=1)
    print("wrote MANIFEST.json with", len(checks), "checks;", len(na), "not claimed")
    try:
        import jsonschema
        jsonschema.validate(m, json.load(open("/root/.vp/MANIFEST.schema.json")))
        print("schema ok")
    except ImportError:
        pass
main()
