#!/usr/bin/env python3
"""Regenerates /verif/MANIFEST.json from the table below (kept in one place so the
manifest stays valid while checks are added). Run: python3 tools/gen_manifest.py"""
import json, os, sys
ROOT = os.path.dirname(os.path.dirname(os.path.abspath(__file__)))

# id -> (level category, technique, level text, level note, design ref)
CHECKS = {
 "C28": ("exploration",
         "property-based testing (proptest byte tapes) against a field-wise reference model and a reference formatter",
         "Generated-input search over all five ParseError variants with small location/token/error domains and expected lists of 0..6 strings; every helper is compared with an independently written reference (map_* field-wise incl. call multiset, composition/commutation laws, Display, From). 2e4 cases quick, 1e6 thorough, proptest shrinking.",
         "Trusts the reference formatter written from the doc comments; explores values, not all types L/T/E.",
         "DESIGN.md section 3, C28"),
}

NOT_APPLICABLE = {}

def main():
    props = [json.loads(l) for l in open(os.path.join(ROOT, "properties.jsonl"))]
    ids = [p["id"] for p in props]
    checks = []
    for pid in ids:
        if pid not in CHECKS: continue
        cat, tech, text, note, ref = CHECKS[pid]
        checks.append({
            "property_id": pid,
            "quick_cmd": f"./check {pid} --tier quick",
            "thorough_cmd": f"./check {pid} --tier thorough",
            "evidence_file": f"/verif/evidence/{pid}.json",
            "replay_cmd_template": f"./check {pid} --replay {{path}}",
            "engine": "lv",
            "level_claimed": {"category": cat, "text": text, "design_ref": ref},
            "level_note": note,
            "technique": tech,
        })
    na = []
    for pid in ids:
        if pid in CHECKS: continue
        na.append({"property_id": pid, "reason": NOT_APPLICABLE.get(pid, "check not built yet in this round (planned in DESIGN.md section 3); not claimed until it exists and is silent on the unchanged tree")})
    m = {
        "version": 1,
        "setup_cmd": "./setup.sh",
        "hooks": {
            "guard": "lalrpop_verif",
            "enable": "none needed: no source hooks exist; checks observe LALRPOP through its public API, its CLI, the generated source text and compiled generated parsers",
            "baseline_off_cmd": "cd /repo && cargo test --workspace --no-fail-fast --offline",
            "source_commits": [],
            "add_only": True,
        },
        "engines": [
            {"name": "lv", "path": "/verif/harness", "serves_properties": sorted(CHECKS.keys()),
             "kind_free_text": "Rust harness: proptest-driven byte tapes -> generators -> oracles (reference models, differential, metamorphic, round-trip); batch compiler for generated parsers; subprocess runner for the real lalrpop CLI; LD_PRELOAD fault injector; replay + evidence + known-findings handling"},
        ],
        "checks": checks,
        "not_applicable": na,
        "notes": "All checks: ./check <ID> [--tier quick|thorough] [--replay file]; VERIF_SEED selects the proptest seed; exit 0 held / 1 VIOLATION / 2 infrastructure or inconclusive. Known findings: /verif/known_findings.jsonl (never written at run time).",
    }
    json.dump(m, open(os.path.join(ROOT, "MANIFEST.json"), "w"), indent=1)
    print("wrote MANIFEST.json with", len(checks), "checks;", len(na), "not claimed")
    try:
        import jsonschema
        jsonschema.validate(m, json.load(open("/root/.vp/MANIFEST.schema.json")))
        print("schema ok")
    except ImportError:
        pass
main()
