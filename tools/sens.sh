#!/bin/sh
# tools/sens.sh <patch.diff> <ID> [<ID>...]  - apply a sensitivity patch to the
# scratch copy /tmp/sens_repo, run the given checks from the scratch verif
# worktree /tmp/wt_sens (whose repo_link points at the copy), revert.
# Prints one line per check: CAUGHT (exit 1) / MISSED (exit 0) / INFRA (exit 2).
P="$1"; shift
cd /tmp/sens_repo && git checkout -q -- . && git apply "$P" || { echo "patch does not apply: $P"; exit 3; }
cd /tmp/wt_sens
for id in "$@"; do
    out=$(./check "$id" 2>&1); code=$?
    case $code in
      1) echo "CAUGHT $(basename $P) by $id: $(echo "$out" | grep -m1 'signature:' | cut -c1-160)";;
      0) echo "MISSED $(basename $P) by $id: $(echo "$out" | grep SUMMARY | cut -c1-200)";;
      *) echo "INFRA($code) $(basename $P) by $id: $(echo "$out" | grep -m2 -E 'INFRA|error' | cut -c1-300)";;
    esac
done
cd /tmp/sens_repo && git checkout -q -- .
